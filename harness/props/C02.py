"""C02 -- every state sampler realises exactly the target law, independent of call history.

correspond(res):
  1. direct samplers (AliasMethod, TableMethod, BinarySearchTree, HuffmanTree) on dyadic probability vectors of 8
     classes: tables (J,q / bst array / Huffman tree in pre-order / table J + embedded alias) and draws at the
     breakpoints of the implementation's own tables -/+ one step plus random dyadic uniforms are compared EXACTLY
     with the Coq models (vm_compute);
  2. chains built through the public factory (MarkovChainProcess on a dyadic step measure) for every
     SamplingMethod: batch `sample` against the single-uniform entry points, INVERSION operation sequences
     (random order, repeats, ascending, descending, tiny _max_storage) and BINARYSEARCHTREEADAPTED1D draws are
     compared exactly with Model/Inversion.v and Model/BstAdapted.v;
  3. implementation-only oracle: u -> state is integrated over a dyadic partition refined around the change
     points; the lengths are compared with p; zero-probability / out-of-grid / origin states are flagged; draw
     sequences are replayed in two orders;
  4. (wave 7, audit 4) factory chains on ROUNDED probabilities (intensity 3, 5, 7) on interior- and EDGE-origin axes: oracle at
     u = 1 - 2^-53 with every position of the frontier deque (F-C02-13 zero-probability end point, F-C02-14 the origin), and the
     exact float-increment tie `inversion_floatinc`; matches_known re-runs the draw for F-C02-13 / F-C02-14;
  5. (wave 7) chain_exponential: every SamplingMethod on real HEM / Merton / VG models, plain and ExponentialOf*, on grids that cut
     both tails: realised law against the truncated measure computed independently (seeded change C02_i).
"""
import bisect
import json
import math
import random
from fractions import Fraction as Fr

import numpy as np

from common import zlit, qlit, natlit, lst, tup, coq_bad_indices, CoqError

PROP = "C02"
PROPERTY_FILE = "Properties/C02.v"
GEN_DEPS = ["GenPairing", "GenTieBst", "GenTieAlias"]
RULE = ("probability vectors: 8 dyadic classes (uniform, one dominant, many zeros, ties, geometric, k/256 multiples, tiny entries, "
        "random) of length 1..400, non-dyadic vectors for the oracle; uniforms: breakpoints of the implementation's tables -/+ one "
        "step, 0, 1-2^-53, random dyadics; chains: dyadic step measures on uniform grids through MarkovChainProcess for every "
        "SamplingMethod and 2-d independent/dependent copula chains (centred and non-centred grids) through MarkovChainLevyCopula; "
        "2-d table-copula chains with arbitrary dyadic cell masses, Clayton and 3-d chains for the oracle; vectors whose sum is off 1; "
        "inversion histories of 1..200 draws in 5 orders with _max_storage in {1,2,3,5,..,default}, batch sample() with lowered storage; "
        "32-bit words for TABLE incl. alias thresholds; exhaustion path of INVERSION: InversionMethod built directly on dyadic probability "
        "tables whose sum is 1 - 2^-k (k = 52, 40, 12, 4) or 1, uniforms 1 - 2^-53, 1 - 2^-52, random in (sum, 1), 1, 1.25 with EVERY position of "
        "the frontier deque scripted into np.random.choice, and factory chains with intensity 3, 5, 7 (rounded probabilities) on interior-origin axes and (wave 7) EDGE-origin axes (L = 0 or R = 0, incl. the audit's witness and its mirror), each also as an exact float-increment history (default and tiny _max_storage, uniforms at the stored sums -/+ one ulp); every "
        "direct sampler is built from ONE float64 ndarray that must stay bit-identical; wave 6: 2-d INVERSION histories with EVERY draw given a scripted position of np.random.choice in the frontier deque (same position in both orders), 3-d density-table chains (c01_table3.TableN, arbitrary dyadic cell masses in all octants, grids [-1,1]^3, [-1,2]^3, [-2,2]^3; thorough: up to [-3,3]^3) for the n-d tree. wave 7: the library's REAL Levy models (HEM, Merton, VG) as plain models AND wrapped in ExponentialOf*Model, every SamplingMethod through MarkovChainProcess on fixed-size uniform grids whose ends cut > 1e-3 of both tails (oracle). non-trivial = distinct (sampler, vector/chain, uniform) with >= 3 states.  "
        "TIE spot check (wave 8): the generated TIE definitions are spot-checked against the running Python on every run -- groups bst and alias_draw of harness/tie_selftest.py (12 cases each, kind tie_spot): GenTieBst.sample_with_u against BinarySearchTree.sample_with_u on real trees of 2..8 leaves (dyadic or uniform probabilities) and GenTieAlias.draw_with_u against AliasMethod._draw_with_u on the tables of the real create_alias (1..8 columns), dyadic uniforms k/1024, exact")
MODELLED = [
    "numpy arrays / collections.deque / Python lists as Coq lists (alias deques right-to-left); np.uint(ku) as floor; int(x) as truncation; np.cumsum as a running sum; np.searchsorted(side=left) on a non-decreasing array as the number of leading entries < v",
    "list.sort(key, reverse=True) as a stable decreasing insertion sort; bisect.bisect_left by its binary-search loop",
    "hidden state: Sampling.sampling_cost counters (write-only) and the lru caches of BinarySearchTreeAdapted1D / BinarySearchTreeAdapted._compute_probability (read caches) are threaded explicitly in Model/Stateful.v (any eviction policy that only drops entries) and proved not to influence the output; functools.cache of PairingToZ1d.project is modelled as the identity on a pure function",
    "TableMethod: table_draw_word is _sample_one as written (one 32-bit word gives the slot byte and the alias uniform); C02_table_law is the idealised product law, C02_table_draw_law the exact count over the 2^32 words",
    "BinarySearchTreeAdapted (n-d): Model/BstAdaptedNd.v (buckets = itertools.product of the per-axis pieces, cached axis vectors, flattened `while any: for k` loop) over an abstract box mass; tied exactly on 2-d table-copula chains (harness/stepmeasure.py Table2: arbitrary dyadic cell masses), wider chains (Clayton, 3-d) by the oracle",
    "InversionMethod exhaustion path (wave 5): Model/InversionFrontier.v resolves the symbol Frontier of Model/Inversion.v: StatesManager._sample_frontier_state_increment = project(frontier_states_indices[c]) with the position c picked by np.random.choice as an EXPLICIT input (consumed only on exhaustion); the 1-d deque and max_frontier_indices are Model/Domain.v's dom_1d / dom_maxf (C14) on z1d_pair of Gen/GenPairing.v and are compared with the implementation's on every inversion case; np.random.choice(deque) is modelled as indexing the deque (the harness replaces it by a scripted position; its own distribution over positions -- uniform -- is numpy's, not verified)",
    "InversionMethod: Model/Inversion.v over an abstract enumeration; 1-d: z1d_project (C14) with the implementation's max_frontier_indices fed as data and inside = in the grid; 2-d: zd2_project szudzik, inside = in the box, probability table as data",
    "the factory: create_vec_jump_matrix and the `states` map in Model/Factory.v (tied exactly)",
    "wave 6 -- REGENERATED from the source and linked by theorem: BinarySearchTree.sample_with_u (the `while ptr <= self.K` descent) is translated on every run by the TIE translator (harness/specs/TIE.py + harness/py2coq_loops.py -> Gen/GenTieBst.v, in GEN_DEPS: a source outside the subset breaks the check) and C02_gen_bst_sample_with_u_is_model (Proofs/Tie_Bst.v) proves the generated definition equal to the hand model bst_sample for every K, array and uniform; C02_gen_bst_law restates the law on the generated descent. Likewise AliasMethod._draw_with_u (Gen/GenTieAlias.v, np.uint read as Qfloor = numpy's truncation for K u >= 0; Python ints Z vs nat in the hand model): C02_gen_alias_draw_with_u_is_model (Proofs/Tie_Alias.v, for u >= 0) and C02_gen_alias_law. All other sampler kernels (constructors, Huffman, table, inversion, adapted trees) remain hand models tied by the correspondence",
    "wave 6 -- n-d INVERSION of the factory with the frontier deque inside the model: Model/InversionFrontierNd.v (states = lists of d integers, enumeration sznd_project = PairingToZd over (nested) Szudzik, frnd / maxfnd = the deque and max_frontier_indices computed by Model/Domain.v dom_nd / dom_maxf with Boundary(), outsidend = outside the box); tied exactly on 2-d chains: the implementation's deque IN ORDER, max_frontier_indices, every draw with a scripted position of np.random.choice, whether np.random.choice was called, the final cumulative sums and the StatesManager state. NOTE (audit 5a B11): nested Szudzik is the factory's enumeration for d = 2 ONLY",
    "wave 8 -- Model/InversionFrontierFactory.v: the enumeration the factory REALLY picks (create_sampling_inversion_method: Szudzik iff model.dimension() == 2, RosenbergStrong otherwise): rsnd_pair / rsnd_project = PairingToZd over rs_pairing / rs_projection (Model/Pairing.v, C14), fac_pair d / fac_project d = the branch on the dimension, frfac / maxffac = deque and max_frontier_indices of Model/Domain.v with that pairing and Boundary(); tied exactly on 3-d table-copula chains (group inversion3d: the check first asserts that the live pairing object is a RosenbergStrong, then the implementation's deque IN ORDER, max_frontier_indices, every draw of a scripted history with uniforms below and above the sum and a scripted position of np.random.choice, whether it was called, the final sums and the StatesManager state, default and small _max_storage); rounded n-d tables (intensity 3 / 5 / 7, d = 2 and 3) only through the implementation oracle",
    "wave 6 -- BinarySearchTreeAdapted in d = 3: Model/BstAdaptedNd.v tied exactly on 3-d density-table chains (harness/c01_table3.py TableN + its Levy copula through LevyCopulaModel._mass_3d): 26 buckets (0, 6 or 12 cached depending on the shape), bisection cycling over 3 axes, bucket lists and cached flags compared too",
    "wave 7 -- float runs of INVERSION: with prob := the increments of the floats stored in _cumulative_probabilities the model's partial sums ARE the stored floats (every comparison of the sampler is with these floats), so inv_step_f reproduces a float run exactly; tied on factory chains with rounded probabilities (intensity 3, 5, 7; interior and EDGE-origin axes) by group inversion_floatinc. Edge-origin axes (L = 0 or R = 0) are also in inversion_direct (exact tables) -- they are NOT driven through `chains` because BinarySearchTreeAdapted1D does not terminate for u = 0.0 on an axis with L = 0 (left half axis (0, -1): `while left != right` never ends; observed, not recorded as a finding: same class as F-C02-6, u = 0.0 only)",
    "float arithmetic: theorems are over Q with exact-sum hypotheses (sum p = 1, u < sum p) that float vectors meet only up to rounding (e.g. sums 0.9999999999999998); exact agreement is checked on dyadic inputs where every float operation of the samplers is exact, incl. vectors whose sum is deliberately off 1; non-dyadic vectors and intensities by the oracle with tolerance 1e-9",
    "Qred in Model/Table.v (reduction to lowest terms, Qred x == x) only keeps vm_compute fast",
    "TIE spot check (wave 8): the generated TIE definitions are spot-checked against the running Python on every run (correspond -> tie_selftest.selftest_spotchecks on the GenTie modules of GEN_DEPS: the real BinarySearchTree / create_alias constructions feed the generated descent and draw); a disagreement is a broken obligation 'correspondence TIE <group>'",
]
ASSUMPTIONS = [
    "probability vector entries are >= 0 (zeros and ties allowed), length >= 1; uniforms 0 <= u < sum p (alias, table: sum p = 1)",
    "C02_inversion_admissible: unconditional in the enumeration (any inadmissible indices, any number of restarts; StatesManager half = C14 sm_step_protocol on the tree repaired by a073fcb); prob >= 0 (the factory clips with max(.,0)), _max_storage >= 1, F >= 0. In C02_inversion_admissible the random frontier state drawn on exhaustion (u above the sum) is the symbol Frontier; C02_inversion_frontier_law resolves it",
    "C02_inversion_frontier_law: same hypotheses, ANY deque fr and any position c; part (3) needs sigma <= 1 (sum of the admissible probabilities: 1 in exact arithmetic, below 1 after rounding); part (5) needs every index of the deque admissible -- proved for the 1-d factory grid with an interior origin (C02_inversion_frontier_1d / _1d_law, 0 < L, 0 < R) and FALSE on an edge-origin axis (L = 0 or R = 0: F-C02-14, C02_inversion_frontier_edge_origin_refuted; no library constructor builds such a grid, the public CTMCGrid accepts it); and (wave 6) for the n-d grid with nested Szudzik (C02_inversion_frontier_nd: all_sizes <> [], sizes > 0, 0 < o < last_size - 1, Boundary(); the factory's enumeration for d = 2 only) and (wave 8) for the enumeration the factory really picks in every d >= 2, Rosenberg-Strong for d >= 3 (C02_inversion_frontier_factory / _factory_law, same hypotheses; the origin-not-on-the-edge hypothesis is necessary: frnd [3;3] 0 holds the index of the origin); for a custom Domain (RectangleBoundary: the deque can hold the index of the origin, audit D13 = F-C14-8) it is NOT proved -- the factory hard-codes Boundary(); the model uses ONE origin index o on every axis, as Domain does (grid.origin_coordinate of a CTMCGrid is one integer)",
    "C02_bstadapted1d_law: mass additive and non-negative on ordered intervals (closed forms: C09), cell boundaries ordered (C13), left-tail mass = mass of the left axis cells (truncation, C01), lambda > 0, a point on each side of the origin; C02_bstadapted1d_cache_history_free: mass is a function of the values of its arguments, eviction only drops entries",
    "C02_bstadaptednd_*: the box mass bm is non-negative and additive under the split of one axis (C12 for the copula rectangle mass), coordinates in [0, B)",
    "right-closed samplers (INVERSION, BSTADAPTED 1-d/n-d): 'never a zero-probability state' is proved for u > 0 only; u = 0 is the recorded finding F-C02-6 (C02_*_zero_uniform_refuted)",
]
THEOREM_NOTES = {
    "C02_bst_law": "full: any length >= 1; constructor total (fuel 4k+4 proved sufficient); descent = locate on the in-order leaves, each state exactly once with length p_s",
    "C02_bst_range_nonzero / C02_huffman_range_nonzero": "corollaries: index in [0,K), a zero-probability state is never returned",
    "C02_inversion_admissible": "full and unconditional: EVERY enumeration (inadmissible indices), every _max_storage >= 1, every reachable state (any history, any number of restarts after the storage is full): inv_step = locate_r over the admissible sub-enumeration; the StatesManager half is C14's sm_step_protocol on the tree repaired by a073fcb (state = (_last_projected_index, _last_logged_index))",
    "C02_huffman_law": "full: whatever position Heap.insert computes",
    "C02_alias_law": "full: invariant (Phi)/(S)/(R) of create_alias, clean-up loops are no-ops when sum p = 1 (they are exercised by the sum-not-1 vectors of the correspondence), draw = locate on the columns",
    "C02_bstadapted1d_law": "full for the repaired code (grid.middle) under the Section hypotheses listed in `assumptions`",
    "C02_table_law": "idealised product law (byte and alias uniform independent)",
    "C02_table_draw_law": "exact: number of 32-bit words sent to k is 2^32 p_k within 512 K (P(k) = p_k within K 2^-23), exactly 2^32 p_k without residual; C02_table_draw_never_zero: no word gives a zero-probability state",
    "C02_factory_never_origin": "create_vec_jump_matrix + states map: increment 0 never returned by ALIAS/BST/HUFFMAN of a 1-d chain (TABLE: C02_table_draw_never_zero with p_origin = 0)",
    "C02_history_free_table_driven": "about a WRITE-ONLY state (cost counters that no draw ever reads): true by construction of the models, it records that nothing else is carried between draws; it cannot detect a defect by itself -- the two-order / fresh-instance replays of the correspondence do",
    "C02_bstadapted1d_cache_history_free / C02_bstadaptednd_cache_history_free": "READ caches (a hit replaces the evaluation of the mass): 1-d keyed by the float arguments, n-d keyed by the box; any eviction policy that only drops entries; soundness of the cache is relative to the instance's own mass (a cache shared between instances breaks it)",
    "C02_bstadaptednd_bucket_law": "full for sample_one_bucket: termination with the model's fuel by the potential (d+1)(sum(hi-lo) - [axis >= k moves]) + (d-k); right-closed step function; every cell of the bucket exactly once with length bm(cell)",
    "C02_bstadaptednd_law": "full on the REAL bucket list buckets d n o of _pre_computation: cached-axis branch (searchsorted (axis_cum b) = locate_r (axis_segs b), with the min(., len-1) repair) and bisection branch composed with the bucket stage; product buckets partition the non-origin cells (buckets_partition): every non-origin cell exactly once with length bm(cell), never the origin, never outside the grid. Example C02_bstadaptednd_nonvacuous: buckets 2 5 2 has 8 buckets, 4 of them cached",
    "C02_inversion_frontier_law": "PARAMETRIC in the deque fr and in F (audit 4: 'genuine but thin' -- accepted: clause 1 is C02_inversion_admissible with the symbol Frontier resolved, clause 4 is list algebra on fsegs, fr = [] is accepted and then the model answers proj 0 where np.random.choice raises; what ties fr / F to the code are the instances C02_inversion_frontier_1d_law, C02_inversion_frontier_nd_law, C02_inversion_frontier_edge_origin_refuted and the correspondence, which compares the deque in order on every inversion case). sigma is the exact sum of prob (float runs: prob := increments of the stored float sums, see LEVEL_TEXT). Full (wave 5): every enumeration, deque, _max_storage >= 1, reachable state (any history), u, c: output = admissible state of locate_r, or project(fr[c]) iff u > sigma (np.random.choice consumed iff u > sigma; never for u <= 1 when sigma == 1); for sigma <= 1 and each c the sampler is the right-closed step function of adm_segs' ++ [(1 - sigma, fr[c])] (total 1) on (0,1]; summed over the positions c the index i gets len(fr) * p_i + (1 - sigma) * multiplicity of i in the deque (uniformity of np.random.choice over positions is numpy's, outside the model); admissible deque => admissible output",
    "C02_inversion_frontier_1d": "full for an INTERIOR origin only (0 < L, 0 < R): the deque dom_1d is [pair R; pair(-L)], both admissible indices <= max_frontier_indices, the frontier states are the two end points: in the grid, not the origin (uses C14 z1d_pair_spec). For L = 0 or R = 0 the statement is false: C02_inversion_frontier_edge_origin_refuted",
    "C02_inversion_frontier_1d_law": "wave 7 (audit B11: fr / F were free in C02_inversion_frontier_law): the law with fr := fr1d L R, F := maxf1d L R, outside := outside the grid INSIDE the statement, 0 < L, 0 < R: any table >= 0, storage >= 1, reachable state, u, c < len(deque): the state is in [-L, R] and not 0 (admissible index < L + R by maxf1d < L + R and C14 z1d_project_spec); u <= sigma: the admissible state of locate_r with interval length prob s; u > sigma: project(deque[c]) = nth c [R; -L]. Example C02_frontier_edge_nonvacuous (second half): a reachable state after a restart, both branches",
    "C02_inversion_frontier_1d_edge_deque / C02_inversion_frontier_edge_origin_refuted": "wave 7, F-C02-14 (audit D1), for-all REFUTATION of 'never the origin': for every R > 0 the deque of the axis with L = 0 is [R - 1; -1] (pair(0) = mapping_to_z(0) - omit = -1), -1 is not an admissible index, project(-1) = _projection(0) = 0; symmetric for R = 0. Hence for EVERY table >= 0, storage, reachable state and u above sigma, position 1 (L = 0) / 0 (R = 0) returns the increment 0. Hypothesis sigma < u is met on float runs (non-vacuity: C02_frontier_edge_nonvacuous, first half) and never for u <= 1 when sigma == 1 exactly",
    "C02_inversion_frontier_origin_refuted": "wave 7, F-C02-14 witness on the FLOAT RUN of /repo (auditor's grid: h = 1/4, origin_coordinate = 0, 10 points, intensity 7, and its mirror): fe_prob = increments of the stored float sums (compared with the implementation on every run: inversion_floatinc), sum 1 - 2^-52, u = 1 - 2^-53, deque [8; -1]: position 1 -> 0, position 0 -> 9 (vm_compute)",
    "C02_inversion_frontier_zero_prob_run_refuted": "wave 7 (audit: the older witness is a hand-made table): F-C02-13 on the float run of its recorded witness (masses 0, 1, 1, 0, 1/4, 17/4, 1/2), fz_prob_run = increments of the stored float sums",
    "C02_gen_bst_sample_with_u_is_model / C02_gen_bst_law": "wave 6 (TIE): the definition py2coq regenerates from binarysearchtree.py on every run equals the hand model (induction on the fuel; the fuel K + 1 always suffices); the BST law, range and never-zero-probability restated on the generated descent. Example C02_gen_bst_nonvacuous runs the generated loop",
    "C02_gen_alias_draw_with_u_is_model / C02_gen_alias_law": "wave 6 (TIE2): the regenerated _draw_with_u equals Z.of_nat (alias_draw ..) for every K, q, J and u >= 0 (the lemma carries 0 <= u because np.uint truncates and Qfloor floors); C02_alias_law (lengths p_k, draw = locate on the columns, index in [0,K), never a zero-probability state) restated on the generated draw run on the constructor model's tables. Example C02_gen_alias_nonvacuous",
    "C02_inversion_frontier_factory / C02_inversion_frontier_factory_law": "wave 8 (audit 5a B11), full for the enumeration the factory picks by dimension (fac_project d: Szudzik iff d = 2, Rosenberg-Strong otherwise), any d >= 2, sizes > 0, 0 < o < last_size - 1, Boundary(): the statements of C02_inversion_frontier_nd / _nd_law with fac_project / frfac / maxffac. Proved by redoing the wave-6 argument once for ANY n-d pairing satisfying the four inversion facts (Section FrontierAnyPairing: project(pair xs) = xs, pair(project z) = z, pair >= 0, pair(0..0) = 0), instantiating it with the C14 theorems on Rosenberg-Strong, and a case split on d = 2 (that branch is the wave-6 theorem). So the d >= 3 half is a new composition (C14 frontier_draw_admissible + C02_inversion_frontier_law), the d = 2 half a transported older theorem. Examples: C02_szudzik_is_not_the_factory_3d (the two enumerations differ from index 1 on in d = 3), C02_inversion_frontier_factory_nonvacuous (3 x 3 x 4 grid: 18-entry deque, 35 admissible indices, exhausted draws). Not covered: grids whose axes have different origin indices (the code has one), custom Domains",
    "C02_inversion_frontier_nd": "wave 6, full for the n-d grid enumerated by (nested) Szudzik -- the factory's enumeration for d = 2 ONLY (for d >= 3 the factory uses Rosenberg-Strong: see C02_inversion_frontier_factory; audit 5a B11) --, any d >= 2, any axis sizes > 0, origin not on the edge of the last axis, Boundary(): every index of the REAL deque dom_nd computes is an admissible index in [0, max_frontier_indices] (0 <= index because the projected state is not the origin; index <= dom_maxf by the max; in the box by C14_frontier_draw_factory), the deque is non-empty, position c projects to the first/last point of a line along the last axis: in the grid, never the origin",
    "C02_inversion_frontier_nd_law": "wave 6, full: C02_inversion_frontier_law composed with the above -- any probability table >= 0, any _max_storage >= 1, any history, any u, any position c < len(deque): the state returned is in the grid and not the origin; u <= sigma: the admissible state of the right-closed step function (interval length = its probability); u > sigma: EXACTLY project(deque[c]), on the frontier. Example C02_inversion_frontier_nd_nonvacuous: the 5 x 5 deque (10 entries, 24 admissible indices), a 4 x 4 x 4 deque (32 entries), a history with storage 3 taking the frontier draw twice",
    "C02_inversion_frontier_zero_prob_refuted": "F-C02-13 on the faithful model, HAND-MADE table (the float run of the recorded witness: C02_inversion_frontier_zero_prob_run_refuted): probabilities summing to 1 - 2^-52 with p(-3) = 0, u = 1 - 2^-53, position 1 -> state -3 (vm_compute witness); on the implementation the deficit comes from rounding rate/intensity (intensity 7)",
    "C02_inversion_zero_uniform_refuted / C02_bstadapted1d_zero_uniform_refuted": "vm_compute witnesses of F-C02-6 on the faithful models",
    "C02_inversion_overflow_orig / C02_inversion_overflow_repaired": "Examples: the historical witness of F-C02-7 = F-C14-6 on the ORIGINAL model (Model/InversionOrig.v) and the same instance on the repaired model (answers state 3 with storage 1, 2, 10^6)",
}
LEVEL_TEXT = ("Proof: 27 positive Coq theorems (closed under the global context, no axioms) state, for ALL probability vectors of any length "
              ">= 1 with zeros and ties, that BinarySearchTree, HuffmanTree, AliasMethod and TableMethod are step functions of the uniform "
              "whose intervals labelled k have total length exactly p_k (constructors total, indices in range, zero-probability states and, "
              "through the factory's vector and states map, the origin never returned); TableMethod also as the code consumes ONE 32-bit "
              "word (exact count over the 2^32 words within 512 K of 2^32 p_k); that InversionMethod+StatesManager (repaired restart), for "
              "EVERY enumeration with inadmissible indices and every _max_storage >= 1, returns in every reachable state (any draw history, "
              "any number of restarts) the state of the right-closed step function over the admissible states, and INCLUDING the exhaustion path with the frontier draw inside the "
              "model (np.random.choice = an explicit position c of the deque): the draw is taken iff u exceeds the sum sigma of the admissible "
              "probabilities (never for u <= 1 in exact arithmetic), for sigma <= 1 the sampler is the step function with one more interval "
              "(sigma, 1] labelled frontier[c], the deficit 1 - sigma goes to the frontier indices in proportion to their multiplicity, and on the "
              "factory's 1-d grid WITH AN INTERIOR ORIGIN (0 < L, 0 < R: every grid a library constructor builds) the real deque dom_1d is inside the statement (C02_inversion_frontier_1d_law: any table, storage, history, u, position c: an in-grid non-origin state; u > sigma: exactly R for c = 0, -L for c = 1); on an EDGE-origin axis (L = 0 or R = 0, accepted by the public CTMCGrid + MarkovChainProcess) 'never the origin' is REFUTED (F-C02-14, audit 4 D1): the deque holds pair(0) = -1 whose projection is the increment 0, for every table, history and uniform above the sum (C02_inversion_frontier_edge_origin_refuted; witness on the float run of /repo: intensity 7, float sum 1 - 2^-52, u = 1 - 2^-53); (wave 6 / wave 8) on the factory's n-d grid, d >= 2, with the enumeration the factory really picks (Szudzik for d = 2, Rosenberg-Strong for d >= 3: C02_inversion_frontier_factory_law; the older C02_inversion_frontier_nd_law is nested Szudzik in every d, which is the factory's sampler for d = 2 only) and WITH THE ORIGIN NOT ON THE EDGE OF THE LAST AXIS (0 < o < last_size - 1, i.e. 0 < L and 0 < R there; necessary: otherwise the deque holds the index of the origin, as in 1-d) the REAL deque dom_nd computes holds admissible indices only, so every draw returns an in-grid non-origin state and, when u exceeds sigma, exactly project(deque[c]), an end point of a line of the box along the last axis; (wave 6) the BinarySearchTree descent and AliasMethod._draw_with_u are REGENERATED from the source by py2coq on every run and proved equal to the hand models (the laws are restated on the generated definitions); BinarySearchTreeAdapted1D is "
              "the right-closed step function of the cell masses for any additive mass; the n-d BinarySearchTreeAdapted on the real bucket "
              "list of _pre_computation (cached axis vectors and axis-cycling bisection, which terminates) gives every non-origin cell of "
              "the grid exactly bm(cell), never the origin. History: the 1-d and n-d lru caches are proved to be harmless READ caches for any "
              "eviction policy; C02_history_free_table_driven is only about a write-only state (cost counters) and detects nothing by itself. "
              "2 theorems are refutation witnesses of the recorded finding F-C02-6 (u = 0.0 in the right-closed samplers), 2 of F-C02-13 (a uniform in "
              "(float sum, 1) is sent by the frontier draw to an end point of probability zero: a hand-made table, and the float run of the recorded witness), 3 state F-C02-14 (the edge-origin deque, the for-all refutation, the float-run witness and its mirror); F-C02-7 is fixed "
              "(historical witness kept as an Example on the original model). The hand-written executable models are tied to /repo on every "
              "run by a vm_compute correspondence (~45k draws at all break points: direct constructors, every SamplingMethod through "
              "MarkovChainProcess on centred and non-centred grids, the n-d tree on table-copula, independent and dependent copula chains in "
              "2-d and 3-d, 32-bit words for TABLE, cost counters, the factory vector, inversion histories incl. the exhaustion path with "
              "uniforms above the sum and every scripted position of np.random.choice, the frontier deque and max_frontier_indices against "
              "Model/Domain.v, InversionMethod built directly on tables whose sum is 1 - 2^-k with u = 1 - 2^-53) plus an implementation-only oracle (exact integration of u -> state, exact word law of TABLE, batch "
              "vs single uniform with lowered storage, same array twice, two orders, float sums below 1 with the frontier choice scripted; (wave 7) every SamplingMethod through MarkovChainProcess on real HEM / Merton / VG models, plain and as ExponentialOf*Model, on grids cutting real tail mass on both sides: realised law by exact integration against cell mass / intensity of the TRUNCATED measure from closed forms written in the harness, 1e-7 (catches seeded C02_i: a wrapper whose mass() answers with the un-truncated measure); every direct sampler "
              "built from ONE float64 ndarray that must stay bit-identical through constructors and draws). Float rounding for non-dyadic "
              "inputs is outside the theorems: sigma in the frontier theorems is the EXACT sum of the function prob, not a rounded sum; a float run is covered by reading prob as the INCREMENTS of the floats InversionMethod stores (s_0 = p_0, s_{k+1} = fl(s_k + p_{k+1}); the sampler compares u with these floats only), then the model's sums are the stored floats and sigma is the stored float sum -- this reading is checked on every run on factory chains with intensity 3, 5, 7 (group inversion_floatinc: every state incl. the frontier draws and the origin on edge-origin axes, the final sums, the StatesManager state), but the relation between the increments and rate/intensity (each within len * 2^-53) is float arithmetic and not proved; C02_inversion_frontier_law itself is parametric in the deque and in F (the real deque is in the _1d_law / _nd_law / _edge_ instances); the distribution of "
              "np.random.choice over the positions of the deque is numpy's and is not modelled; the 2-d (Szudzik) and, wave 8, the 3-d (Rosenberg-Strong) frontier deques are tied exactly (order, max index, every scripted position; 3-d on table-copula chains with dyadic masses), and on rounded n-d tables (intensity 3 / 5 / 7, d = 2, 3) the exhaustion path of the float run is observed by the implementation oracle only (frontier draw iff u > float sum, state = project(deque[c]), all end points given positive mass); the n-d tree is tied exactly in d = 2 and (wave 6) d = 3 on density tables with arbitrary dyadic cell masses.")
LEVEL_NOTE = ("Trusted: Coq kernel + vm_compute; hand-written models (lists for arrays/deques, floor for np.uint, stable insertion sort for "
              "list.sort, bisect_left loop, cumsum/searchsorted on sorted arrays) tied by exact comparison on dyadic inputs; Q arithmetic "
              "stands for float arithmetic (exact on the dyadic inputs compared; non-dyadic inputs only by the oracle with tolerance 1e-9); "
              "the harness step measures (c02_stepmodel.py, stepmeasure.py Table2) used to drive the public factories.")
TECHNIQUE = ("Coq proof (induction / loop invariants over Q and lists, closed under the global context) on hand-written executable "
             "models + vm_compute correspondence with the implementation + implementation-only integration oracle")

D20 = 1 << 20


def ident(k):
    return k


# ----------------------------------------------------------------------------- probability vectors
def _composition(rng, total, K, zero_frac=0.0):
    """random composition of the integer `total` into K non-negative parts, a fraction of them forced to zero"""
    support = [i for i in range(K) if rng.random() >= zero_frac]
    if not support:
        support = [rng.randrange(K)]
    cuts = sorted(rng.randrange(0, total + 1) for _ in range(len(support) - 1))
    parts = [b - a for a, b in zip([0] + cuts, cuts + [total])]
    out = [0] * K
    for i, v in zip(support, parts):
        out[i] = v
    return out


def gen_vectors(rng, tier):
    vecs = []

    def add(cls, ints, den):
        assert sum(ints) == den and all(v >= 0 for v in ints)
        vecs.append((cls, [Fr(v, den) for v in ints]))

    lengths = [1, 2, 3, 4, 5, 7, 8, 16, 31, 64, 100, 255, 256, 400] if tier == "quick" else list(range(1, 41)) + [63, 64, 65, 100, 127, 128, 200, 255, 256, 257, 300, 399, 400]
    for K in (1, 2, 4, 8, 64, 256):
        add("uniform", [D20 // K] * K, D20)
    for K in (2, 3, 5, 17, 100, 400):
        v = [1] * K
        v[rng.randrange(K)] = D20 - (K - 1)
        add("one-dominant", v, D20)
    for K in (3, 6, 20, 150):
        add("many-zeros", _composition(rng, D20, K, zero_frac=0.7), D20)
    for K in (4, 6, 12, 48):
        base = [rng.choice([1, 2, 3]) for _ in range(K)]
        s = sum(base)
        scale = D20 // (1 << (s.bit_length()))
        v = [b * scale for b in base]
        v[0] += D20 - sum(v)
        add("ties", v, D20)
    for K in (2, 3, 10, 20):
        v = [D20 >> (i + 1) for i in range(K)]
        v[-1] += D20 - sum(v)
        add("geometric", v, D20)
    for K in (1, 2, 3, 9, 40, 256, 300):
        add("k/256", _composition(rng, 256, K, zero_frac=0.3 if K > 3 else 0.0), 256)
    add("k/256", [128, 64, 64], 256)
    for K in (3, 10, 50):
        v = _composition(rng, 1 << 10, K)
        v = [x << 10 for x in v]
        j = rng.randrange(K)
        k2 = (j + 1) % K
        if v[j] > 3:
            v[j] -= 3
            v[k2] += 3
        add("tiny-entries", v, D20)
    for K in lengths:
        add("random", _composition(rng, D20, K, zero_frac=rng.choice([0.0, 0.0, 0.2])), D20)
    # not probability vectors: the sum is slightly off 1 (what float vectors from the factory look like); only the exact
    # model/implementation comparison and the range check apply (the clean-up loops of create_alias do real work here)
    for K in (1, 2, 3, 5, 8, 13, 64):
        for off in (-37, 5, -(1 << 12), 1 << 8):
            tot = D20 + off
            ints = _composition(rng, tot, K, zero_frac=rng.choice([0.0, 0.3]))
            vecs.append(("sum-not-1", [Fr(v, D20) for v in ints]))
    return vecs


def nd_vectors(rng, tier):
    """non-dyadic vectors (oracle only, tolerance)"""
    out = []
    for K in (1, 2, 3, 5, 10, 37) if tier == "quick" else (1, 2, 3, 5, 7, 10, 37, 100, 250):
        w = [rng.random() ** 3 if rng.random() > 0.2 else 0.0 for _ in range(K)]
        if sum(w) == 0:
            w[0] = 1.0
        s = sum(w)
        out.append(("non-dyadic", [x / s for x in w]))
    out.append(("non-dyadic", [1 / 3, 1 / 3, 1 / 3]))
    out.append(("non-dyadic", [0.1] * 10))
    return out


# ----------------------------------------------------------------------------- uniforms
def ulp_down(x):
    return math.nextafter(x, -math.inf)


def ulp_up(x):
    return math.nextafter(x, math.inf)


def uniforms_around(rng, breaks, n_random, step=None, top=1.0):
    """breakpoints -/+ one step (one ulp when step is None) and the breakpoints themselves, plus random dyadics; all in [0, top)"""
    us = {0.0}
    for b in breaks:
        b = float(b)
        cands = [b, ulp_down(b), ulp_up(b)] if step is None else [b, b - step, b + step]
        for c in cands:
            if 0.0 <= c < top:
                us.add(c)
    for _ in range(n_random):
        us.add(rng.randrange(0, 1 << 30) / (1 << 30) * top)
    us.add(ulp_down(top))
    return sorted(us)


def pick(rng, xs, n):
    xs = list(xs)
    if len(xs) <= n:
        return xs
    keep = set(rng.sample(range(len(xs)), n))
    return [x for i, x in enumerate(xs) if i in keep]


# ----------------------------------------------------------------------------- oracle: integrate u -> state
def integrate_step_function(f, hints=(), top=1.0, n0=64, depth=36):
    """lengths {label: Fraction} of the step function f on [0, top).  Partition: n0 equal cells plus the hint points
    (candidate change points read off the implementation's own tables; they only say WHERE to look, the labels are
    always those returned by f).  A cell is taken as constant when f agrees at its left end, its middle and the float
    just below its right end; otherwise it is bisected `depth` times and the residual is split evenly.
    Positions are integers in units of 2^-SH."""
    SH = 200
    ONE = 1 << SH

    def to_int(x):
        fr = Fr(float(x))
        return fr.numerator * (ONE // fr.denominator)

    def ev_int(i):
        return f(i / ONE)          # int / int is correctly rounded

    topi = to_int(top)
    pts = {topi * i // n0 for i in range(n0)}
    for hnt in hints:
        hnt = float(hnt)
        if 2.0 ** -100 < hnt < top:
            pts.add(to_int(hnt))
    pts = sorted(pts)
    lengths = {}

    def addlen(lab, ln):
        lengths[lab] = lengths.get(lab, 0) + ln

    budget = [400000]

    def rec(lo, flo, hi, fhi, d):
        if flo == fhi:
            addlen(flo, hi - lo)
            return
        budget[0] -= 1
        if budget[0] < 0:
            raise RuntimeError("integrate_step_function: more than 400000 bisection steps (the sampler is not a step function of u with few pieces)")
        if d == 0 or hi - lo < (ONE >> 70):
            addlen(flo, (hi - lo) // 2)
            addlen(fhi, hi - lo - (hi - lo) // 2)
            return
        mid = (lo + hi) // 2
        fm = ev_int(mid)
        rec(lo, flo, mid, fm, d - 1)
        rec(mid, fm, hi, fhi, d - 1)

    for i, lo in enumerate(pts):
        hi = pts[i + 1] if i + 1 < len(pts) else topi
        hif = hi / ONE
        flo = f(ulp_up(lo / ONE))      # interior points only: the convention at the end points (left- or right-closed) is immaterial
        below = ulp_down(hif)
        fhi = f(below) if to_int(below) > lo else flo
        mid = (lo + hi) // 2
        fm = ev_int(mid)
        if flo == fm == fhi:
            addlen(flo, hi - lo)
        else:
            rec(lo, flo, mid, fm, depth)
            rec(mid, fm, hi, fhi, depth)
    return {k: Fr(v, ONE) for k, v in lengths.items()}, len(pts)


# ----------------------------------------------------------------------------- direct samplers
def _huff_preorder(node):
    if node.is_leaf:
        return [(int(node.state), Fr(float(node.value)))]
    return [(-1, Fr(float(node.value)))] + _huff_preorder(node.left_node) + _huff_preorder(node.right_node)


def _huff_breaks(node, base=Fr(0)):
    if node.is_leaf:
        return [base]
    l = _huff_breaks(node.left_node, base)
    return l + _huff_breaks(node.right_node, base + Fr(float(node.left_node.value)))


def _alias_hints(a):
    K = int(a.K)
    return [x / K for x in range(K)] + [(x + float(a.q[x])) / K for x in range(K)]


def _qpairs(us_outs):
    return lst([f"({qlit(u)}, {zlit(o)})" for u, o in us_outs])


def _table_words(t, words):
    """states returned by TableMethod.sample when random.getrandbits(32) yields the given 32-bit words"""
    import random as _random
    script = list(words)
    orig = _random.getrandbits
    _random.getrandbits = lambda nbits: script.pop(0)
    try:
        return [int(v) for v in t.sample(size=len(words))]
    finally:
        _random.getrandbits = orig


def table_word_law(t, K, resid_limit=None, rng=None):
    """EXACT law of TableMethod over the 2^32 words it consumes: {state: number of words}.  For every low byte b the map
    m -> state of the word (m << 8) | b, m in [0, 2^24), is integrated exactly: partition of [0, 2^24) at the images of the
    embedded alias thresholds (hints), every cell checked at both ends and in the middle, bisection where they differ.
    With resid_limit only that many residual bytes are integrated (the count is then scaled: returns (law, exact?))."""
    import random as _random
    Jt = [int(v) for v in t.J]
    N = 1 << 24
    cur = [0]
    orig = _random.getrandbits
    _random.getrandbits = lambda nbits: cur[0]
    counts = {}
    try:
        def ev(m, b_):
            cur[0] = (m << 8) | b_
            return int(t.sample(size=1)[0])
        hints = set()
        if t.alias_method is not None:
            aK = int(t.alias_method.K)
            for x in range(aK + 1):
                for thr in (Fr(x, aK), (Fr(x) + Fr(float(t.alias_method.q[min(x, aK - 1)]))) / aK):
                    m0 = int(thr * N)
                    for dm in (-1, 0, 1, 2):
                        if 0 < m0 + dm < N:
                            hints.add(m0 + dm)
        pts = sorted({0} | hints | {N * i // 16 for i in range(16)})
        resid = [b_ for b_ in range(256) if Jt[b_] < 0]
        todo = resid if resid_limit is None or len(resid) <= resid_limit else sorted(rng.sample(resid, resid_limit))
        scale = Fr(len(resid), len(todo)) if todo else Fr(0)
        for b_ in range(256):
            if Jt[b_] >= 0:
                # a table slot: the state must not depend on the upper 24 bits
                seen = {ev(m, b_) for m in (0, 1, N - 1, N // 2, N // 3, 12345 % N)}
                lab = Jt[b_]
                if seen != {lab}:
                    counts[("slot-depends-on-upper-bits", b_)] = counts.get(("slot-depends-on-upper-bits", b_), 0) + 1
                counts[lab] = counts.get(lab, 0) + N
                continue
            if b_ not in todo:
                continue
            local = {}

            def rec(lo, flo, hi, fhi):          # [lo, hi] inclusive integer range, labels at both ends
                if flo == fhi and (hi - lo <= 1 or ev((lo + hi) // 2, b_) == flo):
                    local[flo] = local.get(flo, 0) + (hi - lo + 1)
                    return
                if hi - lo <= 1:
                    local[flo] = local.get(flo, 0) + 1
                    if hi > lo:
                        local[fhi] = local.get(fhi, 0) + 1
                    return
                mid = (lo + hi) // 2
                rec(lo, flo, mid, ev(mid, b_))
                rec(mid + 1, ev(mid + 1, b_), hi, fhi)
            for i, lo in enumerate(pts):
                hi = (pts[i + 1] if i + 1 < len(pts) else N) - 1
                rec(lo, ev(lo, b_), hi, ev(hi, b_))
            for lab, c in local.items():
                counts[lab] = counts.get(lab, 0) + c * scale
    finally:
        _random.getrandbits = orig
    return counts, (resid_limit is None or len(resid) <= (resid_limit or 0))


def _two_orders(rng, viol, name, p, outs, f, fresh):
    """outs = [(u, state)] obtained in one order: the same uniforms in another order on the same object, and on a fresh
    object, must give the same states (cost counters, caches or any other hidden state must not leak into the output)"""
    perm = list(range(len(outs)))
    rng.shuffle(perm)
    again = {i: f(outs[i][0]) for i in perm}
    f2 = fresh()
    other = {i: f2(outs[i][0]) for i in reversed(perm)}
    for i, (u, o) in enumerate(outs):
        if again[i] != o or other[i] != o:
            viol(f"{name}: the state returned for a uniform depends on the earlier draws", sampler=name, p=[str(x) for x in p], u=u,
                 first=o, same_object_other_order=again[i], fresh_object=other[i])
            return


class InputGuard:
    """ONE float64 ndarray object is handed to every sampler constructor (and stays the expected law): no constructor and no
    draw may overwrite it.  check() compares it bit for bit with a private copy taken first, reports a violation naming
    the stage, and hands a fresh copy to the following samplers so that they are still built from the intended vector."""

    def __init__(self, values, viol, res):
        self.arr = np.array(values, dtype=np.float64)
        self.ref = self.arr.copy()
        self.viol, self.res = viol, res

    def check(self, sampler, stage):
        self.res.bump("input_array_guard", f"{sampler} {stage}")
        a, r = self.arr, self.ref
        if a.dtype != r.dtype or a.shape != r.shape or a.tobytes() != r.tobytes():
            k = next((j for j in range(min(a.size, r.size)) if a.flat[j].tobytes() != r.flat[j].tobytes()), 0)
            self.viol(f"{sampler}: the {stage} overwrites the caller's float64 probability array (it is re-used for the next sampler and as the expected law)",
                      sampler=sampler, stage=stage, input_array_mutated=True, p=[repr(float(x)) for x in r], first_changed_index=int(k),
                      before=repr(float(r.flat[k])), after=repr(float(a.flat[k])) if a.size > k else None)
            # a fresh array object for the next sampler: the sampler that (wrongly) kept a reference to the caller's array is left
            # with what it wrote, so that this report is not followed by a cascade of consequences
            self.arr = self.ref.copy()
            return False
        return True


def direct_samplers(res, rng, groups, viol):
    from rpylib.distribution.variate.alias import AliasMethod
    from rpylib.distribution.variate.binarysearchtree import BinarySearchTree
    from rpylib.distribution.variate import huffmantree as H
    from rpylib.distribution.variate.table import TableMethod
    tier = res.tier
    vecs = gen_vectors(rng, tier)
    n_rand = 12 if tier == "quick" else 40
    max_break_us = 40 if tier == "quick" else 200
    g_alias, g_bst, g_huff, g_table, g_cost = [], [], [], [], []
    oracle_jobs = []
    for cls, p in vecs:
        K = len(p)
        pf = [float(x) for x in p]
        assert all(Fr(x) == y for x, y in zip(pf, p))
        guard = InputGuard(pf, viol, res)          # the SAME ndarray object for every constructor below
        res.bump("vector_class", cls)
        res.bump("vector_length", "1" if K == 1 else "2" if K == 2 else "3-9" if K < 10 else "10-99" if K < 100 else "100-400")
        res.bump("vector_has_zero", any(x == 0 for x in p))
        pl = lst([qlit(x) for x in p])
        is_prob = sum(p) == 1
        small = K <= (64 if tier == "quick" else 128) and is_prob

        # ---- ALIAS
        try:
            a = AliasMethod(guard.arr, ident)
            guard.check("alias", "constructor")
            J = [int(v) for v in a.J]
            q = [Fr(float(v)) for v in a.q]
            br = []
            for x in range(K):
                br += [Fr(x, K), (Fr(x) + q[x]) / K]
            cands = {0.0}
            for b_ in br:
                for d_ in (Fr(0), Fr(-1, 1 << 30), Fr(1, 1 << 30)):
                    cands.add(float(b_ + d_ / K))
            cands |= {rng.randrange(0, 1 << 30) / (1 << 30) for _ in range(n_rand)}
            brs = sorted(set(br))

            def _safe_u(u):
                """K*u is exact in float, or u stays 2^-40 away (in units of K*u) from every threshold so that the rounding
                of the product K*u (<= 2^-50 relative) cannot change the column or the comparison v < q[x]"""
                if not (0.0 <= u < 1.0):
                    return False
                if Fr(u) * K == Fr(float(u) * K):
                    return True
                i_ = bisect.bisect_left(brs, Fr(u))
                near = [brs[j_] for j_ in (i_ - 1, i_) if 0 <= j_ < len(brs)]
                return all(abs(Fr(u) - b_) * K > Fr(1, 1 << 40) for b_ in near)
            us = pick(rng, sorted(u for u in cands if _safe_u(u)), max_break_us + n_rand) or [0.0]
            res.bump("alias_K_pow2", K & (K - 1) == 0)
            outs = []
            for u in us:
                o = int(a._draw_with_u(u))
                outs.append((u, o))
                res.count(("alias", cls, K, u), nontrivial=K >= 3, kind="AliasMethod._draw_with_u")
                res.bump("alias_branch", "alias" if o != int(K * u) else "column")
                if not (0 <= o < K) or (p[o] == 0 and is_prob):
                    viol("AliasMethod returns a zero-probability or out-of-range state", sampler="alias", p=[str(x) for x in p], u=u, got=o)
            _two_orders(rng, viol, "alias", p, outs, lambda u: int(a._draw_with_u(u)), lambda: (lambda a2: (lambda u: int(a2._draw_with_u(u))))(AliasMethod(guard.arr, ident)))
            guard.check("alias", "draws (_draw_with_u, second instance)")
            g_alias.append(f"({pl}, ({lst([zlit(v) for v in J])}, {lst([qlit(v) for v in q])}), {_qpairs(outs)})")
            if small:
                oracle_jobs.append(("alias", cls, p, lambda u, a=a: int(a._draw_with_u(u)), _alias_hints(a)))
        except Exception as e:  # noqa
            viol(f"AliasMethod raises {type(e).__name__}", sampler="alias", p=[str(x) for x in p], error=str(e)[:200])

        # ---- BINARY SEARCH TREE
        try:
            b = BinarySearchTree(guard.arr, ident)
            guard.check("bst", "constructor")
            arr = [Fr(float(v)) for v in b.bst]
            us = pick(rng, uniforms_around(rng, [float(v) for v in b.bst[:max(K - 1, 0)]], 0), max_break_us) + [rng.randrange(0, 1 << 30) / (1 << 30) for _ in range(n_rand)]
            outs = []
            costs = []
            for u in us:
                b.reset_sampling_cost()
                o = int(b.sample_with_u(u))
                costs.append(int(b.sampling_cost))
                outs.append((u, o))
                res.count(("bst", cls, K, u), nontrivial=K >= 3, kind="BinarySearchTree.sample_with_u")
                if not (0 <= o < K) or (p[o] == 0 and is_prob):
                    viol("BinarySearchTree returns a zero-probability or out-of-range state", sampler="bst", p=[str(x) for x in p], u=u, got=o)
            _two_orders(rng, viol, "bst", p, outs, lambda u: int(b.sample_with_u(u)), lambda: (lambda b2: (lambda u: int(b2.sample_with_u(u))))(BinarySearchTree(guard.arr, ident)))
            guard.check("bst", "draws (sample_with_u, second instance)")
            g_bst.append(f"({pl}, {lst([qlit(v) for v in arr])}, {_qpairs(outs)})")
            g_cost.append(f"({pl}, true, {lst([f'({qlit(u)}, {zlit(o)}, {zlit(c)})' for (u, o), c in zip(outs, costs)])})")
            if small:
                oracle_jobs.append(("bst", cls, p, lambda u, b=b: int(b.sample_with_u(u)), [float(v) for v in b.bst]))
        except Exception as e:  # noqa
            viol(f"BinarySearchTree raises {type(e).__name__}", sampler="bst", p=[str(x) for x in p], error=str(e)[:200])

        # ---- HUFFMAN TREE
        try:
            h = H.HuffmanTree(guard.arr, ident)
            guard.check("huffman", "constructor")
            pre = _huff_preorder(h.head)
            us = pick(rng, uniforms_around(rng, [float(v) for v in _huff_breaks(h.head)], 0), max_break_us) + [rng.randrange(0, 1 << 30) / (1 << 30) for _ in range(n_rand)]
            outs = []
            costs = []
            for u in us:
                o, c_ = H.sample_with_u(u, h.head)
                o = int(o)
                costs.append(int(c_))
                outs.append((u, o))
                res.count(("huffman", cls, K, u), nontrivial=K >= 3, kind="huffmantree.sample_with_u")
                if not (0 <= o < K) or (p[o] == 0 and is_prob):
                    viol("HuffmanTree returns a zero-probability or out-of-range state", sampler="huffman", p=[str(x) for x in p], u=u, got=o)
            _two_orders(rng, viol, "huffman", p, outs, lambda u: int(H.sample_with_u(u, h.head)[0]), lambda: (lambda h2: (lambda u: int(H.sample_with_u(u, h2.head)[0])))(H.HuffmanTree(guard.arr, ident)))
            guard.check("huffman", "draws (sample_with_u, second instance)")
            pre_l = lst([f"({zlit(s)}, {qlit(v)})" for s, v in pre])
            g_huff.append(f"({pl}, {pre_l}, {_qpairs(outs)})")
            g_cost.append(f"({pl}, false, {lst([f'({qlit(u)}, {zlit(o)}, {zlit(c)})' for (u, o), c in zip(outs, costs)])})")
            if small:
                oracle_jobs.append(("huffman", cls, p, lambda u, h=h: int(H.sample_with_u(u, h.head)[0]), [float(v) for v in _huff_breaks(h.head)]))
        except Exception as e:  # noqa
            viol(f"HuffmanTree raises {type(e).__name__}", sampler="huffman", p=[str(x) for x in p], error=str(e)[:200])

        # ---- TABLE: J always compared; embedded alias tables and alias draws compared exactly when thetas / sum is
        #      exact in float (residual sum a power of two); draws are 32-bit words fed through random.getrandbits
        if is_prob:
            try:
                t = TableMethod(guard.arr, ident)
                guard.check("table", "constructor")
                Jt = [int(v) for v in t.J]
                resid = 256 - sum(1 for v in Jt if v >= 0)
                exact = t.alias_method is None or resid & (resid - 1) == 0
                res.bump("table_residual", "none" if t.alias_method is None else "pow2" if exact else "other")
                if any(v >= K for v in Jt) or len(Jt) != 256:
                    viol("TableMethod: table J is not 256 slots of valid states", sampler="table", p=[str(x) for x in p])
                resid_bytes = [b_ for b_, v in enumerate(Jt) if v < 0]
                bytes_ = pick(rng, range(256), 24) + pick(rng, resid_bytes, 12)
                words = [((rng.randrange(1 << 24)) << 8) | b_ for b_ in bytes_]
                if t.alias_method is not None and exact:
                    # words whose alias uniform w / 2^32 sits next to a threshold of the embedded alias tables
                    aK = int(t.alias_method.K)
                    for x in range(aK):
                        thr = (Fr(x) + Fr(float(t.alias_method.q[x]))) / aK
                        for b_ in pick(rng, resid_bytes, 2):
                            m0 = int(thr * (1 << 24))
                            for dm in (-1, 0, 1):
                                if 0 <= m0 + dm < (1 << 24):
                                    words.append(((m0 + dm) << 8) | b_)
                    words = pick(rng, words, 120)
                got = _table_words(t, words)
                draws = []
                for w, o in zip(words, got):
                    res.count(("table", cls, K, w), nontrivial=K >= 3, kind="TableMethod.sample")
                    res.bump("table_branch", "table" if Jt[w & 255] >= 0 else "alias")
                    if not (0 <= o < K) or p[o] == 0:
                        viol("TableMethod returns a zero-probability or out-of-range state", sampler="table", p=[str(x) for x in p], word=w, got=o)
                    if exact or Jt[w & 255] >= 0:
                        draws.append((w, o))
                _two_orders(rng, viol, "table", p, [(w, o) for w, o in zip(words, got)], lambda w: _table_words(t, [w])[0],
                            lambda: (lambda t2: (lambda w: _table_words(t2, [w])[0]))(TableMethod(guard.arr, ident)))
                guard.check("table", "draws (sample, second instance)")
                if t.alias_method is None:
                    al = "None"
                else:
                    al = f"(Some ({lst([zlit(int(v)) for v in t.alias_method.J])}, {lst([qlit(float(v)) for v in t.alias_method.q])}))"
                dl = lst([f"({zlit(w)}, {zlit(o)})" for w, o in draws])
                g_table.append(f"({pl}, {lst([zlit(v) for v in Jt])}, {'true' if exact else 'false'}, {al}, {dl})")
                if small:
                    oracle_jobs.append(("table", cls, p, t, None))
            except Exception as e:  # noqa
                viol(f"TableMethod raises {type(e).__name__}", sampler="table", p=[str(x) for x in p], error=str(e)[:200])

    groups.append(("alias", "list Q * (list Z * list Q) * list (Q * Z)", "chk_alias", g_alias))
    groups.append(("bst", "list Q * list Q * list (Q * Z)", "chk_bst", g_bst))
    groups.append(("huffman", "list Q * list (Z * Q) * list (Q * Z)", "chk_huffman", g_huff))
    groups.append(("costs", "list Q * bool * list (Q * Z * Z)", "chk_costs", g_cost))
    groups.append(("table", "list Q * list Z * bool * option (list Z * list Q) * list (Z * Z)", "chk_table", g_table))

    # ---- non-dyadic vectors: oracle only
    guards = []
    for cls, pf in nd_vectors(rng, tier):
        p = [Fr(x) for x in pf]
        res.bump("vector_class", cls)
        guard = InputGuard(pf, viol, res)
        try:
            a = AliasMethod(guard.arr, ident)
            guard.check("alias", "constructor")
            oracle_jobs.append(("alias", cls, p, lambda u, a=a: int(a._draw_with_u(u)), _alias_hints(a)))
            b = BinarySearchTree(guard.arr, ident)
            guard.check("bst", "constructor")
            oracle_jobs.append(("bst", cls, p, lambda u, b=b: int(b.sample_with_u(u)), [float(v) for v in b.bst]))
            h = H.HuffmanTree(guard.arr, ident)
            guard.check("huffman", "constructor")
            oracle_jobs.append(("huffman", cls, p, lambda u, h=h: int(H.sample_with_u(u, h.head)[0]), [float(v) for v in _huff_breaks(h.head)]))
            t = TableMethod(guard.arr, ident)
            guard.check("table", "constructor")
            oracle_jobs.append(("table", cls, p, t, None))
            guards.append(guard)
        except Exception as e:  # noqa
            viol(f"sampler constructor raises {type(e).__name__} on a non-dyadic vector", sampler="direct", p=[repr(x) for x in pf], error=str(e)[:200])

    # ---- oracle on the implementation: lengths of the step function against p
    for name, cls, p, f, hints in oracle_jobs:
        K = len(p)
        tol = Fr(1, 10 ** 9)
        exact_vec = cls != "non-dyadic"
        if name == "table":
            t = f
            full = K <= 6
            counts, all_bytes = table_word_law(t, K, resid_limit=None if full else 4, rng=rng)
            bad_slots = [k for k in counts if isinstance(k, tuple)]
            if bad_slots:
                viol("TableMethod: the state of a table slot depends on the upper 24 bits of the word (byte and alias uniform are not the ones of the algorithm)",
                     sampler="table", p=[str(x) for x in p], byte=bad_slots[0][1])
            lengths = {k: Fr(v) / (1 << 32) for k, v in counts.items() if not isinstance(k, tuple)}
            # exact law over the words: within (pieces of the alias step function) * 2^-24 * (residual bytes / 256) of p
            tol = Fr(2 * K + 2, 1 << 24) + Fr(1, 10 ** 9)
        else:
            lengths, _ = integrate_step_function(f, hints=hints)
        res.count(("law", name, cls, K, tuple(p)), nontrivial=K >= 3, kind=f"oracle-law-{name}")
        s = sum(p)
        for k in range(K):
            got = lengths.get(k, Fr(0))
            if abs(got - p[k] / s) > tol:
                viol(f"{name}: total length of the uniforms sent to a state differs from its probability", sampler=name, vclass=cls,
                     p=[str(x) for x in p], state=k, length=str(got), float_length=float(got), target=float(p[k] / s))
                break
        bad = [k for k in lengths if not (0 <= k < K) or (p[k] == 0 and (exact_vec or lengths[k] > tol))]
        if bad:
            viol(f"{name}: a zero-probability or out-of-range state has positive length", sampler=name, p=[str(x) for x in p], state=int(bad[0]))
    for g_ in guards:
        g_.check("alias/bst/huffman/table", "draws of the law oracle")


# ----------------------------------------------------------------------------- chains through the factory
def make_chain_specs(rng, tier):
    """(h, points left of the origin, points right of it, cell masses with a power-of-two total, variant).
    Centred and NON-centred axes (the real HEM uniform grid has its origin at 23 of 36)."""
    specs = []
    shapes = [(0.25, 3, 3), (0.5, 2, 2), (0.125, 6, 6), (0.25, 10, 10), (1.0, 1, 1), (0.0625, 20, 20),
              (0.25, 2, 5), (0.5, 5, 1), (0.125, 23, 12), (0.25, 1, 4)]
    if tier != "quick":
        shapes += [(0.25, 4, 4), (0.5, 7, 7), (0.125, 33, 33), (0.03125, 60, 60), (0.25, 12, 23), (0.5, 1, 9), (0.25, 9, 2)]
    for h, L, R in shapes:
        n = L + R + 1
        for variant in ("generic", "zeros", "one-sided"):
            tot = 1 << 12
            zero_frac = 0.0 if variant == "generic" else 0.4
            ints = _composition(rng, tot, n - 1, zero_frac=zero_frac)
            if variant == "one-sided":
                ints = [0] * L + _composition(rng, tot, R, zero_frac=0.2) if rng.random() < 0.5 else _composition(rng, tot, L, zero_frac=0.2) + [0] * R
            masses = ints[:L] + [0] + ints[L:]
            lam_pow = rng.choice([-1, 0, 1, 2])
            masses = [Fr(v, tot) * Fr(2) ** lam_pow for v in masses]
            specs.append((h, L, R, masses, variant))
    return specs


def build_chain(h, half, masses, method, right=None):
    """1-d chain on the axis [-half*h, ..., right*h] (right defaults to half) through the public MarkovChainProcess"""
    from c02_stepmodel import C02StepModel, measure_from_cell_masses
    from rpylib.grid.spatial import CTMCGrid
    from rpylib.process.markovchain.markovchain import MarkovChainProcess
    right = half if right is None else right
    axis = np.array([k * h for k in range(-half, right + 1)], dtype=float)
    grid = CTMCGrid(h=h, origin_coordinate=half, axes=[axis])
    meas = measure_from_cell_masses(grid.axes[0], half, masses)
    model = C02StepModel(meas)
    proc = MarkovChainProcess(model, method, grid)
    return proc, grid, meas


def _pieces_lit(meas):
    return lst([f"({qlit(l)}, {qlit(r)}, {qlit(d)})" for l, r, d in meas.pieces])


RIGHT_CLOSED = ("INVERSION", "BINARYSEARCHTREEADAPTED1D", "INVERSION-2d", "BINARYSEARCHTREEADAPTED-2d", "INVERSION-3d", "BINARYSEARCHTREEADAPTED-3d")


def _scripted_uniforms(us):
    return lambda low=0.0, high=1.0, size=None: np.array(us[: size], dtype=float) * (high - low) + low


class ScriptedChoice:
    """np.random.choice replaced by an explicit input: returns the element at position `c` of the population (the only
    random choice of the INVERSION exhaustion path, StatesManager._sample_frontier_state_increment) and counts the calls"""

    def __init__(self):
        self.c, self.calls, self._orig = 0, 0, None

    def __call__(self, a, *args, **kw):
        self.calls += 1
        return list(a)[self.c]

    def __enter__(self):
        self._orig = np.random.choice
        np.random.choice = self
        return self

    def __exit__(self, *exc):
        np.random.choice = self._orig
        return False


def _draws_lit(rows):
    """[(u, c, choice called?, state)] -> Coq list (Q * Z * bool * Z)"""
    return lst([f"({qlit(u)}, {zlit(c)}, {'true' if called else 'false'}, {zlit(int(o))})" for u, c, called, o in rows])


def chains(res, rng, groups, viol):
    from rpylib.distribution.sampling import SamplingMethod as SM
    from rpylib.distribution.variate import huffmantree as H
    from rpylib.distribution import pairing as P
    from rpylib.distribution.samplingfactory import create_q_vector, create_vec_jump_matrix
    tier = res.tier
    g_inv, g_ba, g_vec = [], [], []
    for h, L, R, masses, variant in make_chain_specs(rng, tier):
        n = L + R + 1
        lam = sum(masses)
        target = {k - L: m / lam for k, m in enumerate(masses) if k != L}
        res.bump("chain_variant", variant)
        res.bump("chain_shape", "centred" if L == R else "non-centred")
        ctx0 = dict(h=h, left=L, right=R, masses=[str(m) for m in masses])
        pairing = P.PairingToZ1d((-L, R), omit_zero=True)
        enum = [int(pairing.project(x)) for x in range(L + R)]          # enumeration of the inversion method (C14)
        first_state = {"INVERSION": enum[0], "BINARYSEARCHTREEADAPTED1D": -L}

        def check_state(name, s, u):
            s = int(s)
            if s == 0 or not (-L <= s <= R):
                viol(f"{name} through the factory returns the origin or a state outside the grid", sampler=name, u=u, got=s, **ctx0)
                return False
            if target[s] == 0 and u == 0.0 and name in RIGHT_CLOSED:
                viol(f"{name}: the uniform 0.0 is sent to a state of probability zero", finding="F-C02-6", sampler=name, u=u, got=s,
                     first_enumerated_state=first_state.get(name), probability_of_got=str(target[s]), **ctx0)
                return False
            if target[s] == 0:
                viol(f"{name} through the factory returns a zero-probability state", sampler=name, u=u, got=s, **ctx0)
                return False
            return True

        cum_axis_order, acc = [], Fr(0)
        for k in list(range(0, L)) + list(range(L + 1, n)):
            acc += masses[k] / lam
            cum_axis_order.append(acc)
        cum_pairing_order, acc = [], Fr(0)
        for st in enum:
            acc += target[st]
            cum_pairing_order.append(acc)

        for method in (SM.ALIAS, SM.TABLE, SM.BINARYSEARCHTREE, SM.HUFFMANNTREE, SM.INVERSION, SM.BINARYSEARCHTREEADAPTED1D):
            name = method.name
            mk = lambda: build_chain(h, L, masses, method, right=R)
            try:
                proc, grid, meas = mk()
            except Exception as e:  # noqa
                viol(f"factory raises {type(e).__name__} for SamplingMethod.{name}", sampler=name, error=str(e)[:200], **ctx0)
                continue
            if Fr(float(proc.intensity_of_jumps)) != lam:
                res.broke("chain intensity", f"intensity {proc.intensity_of_jumps} != {lam} for h={h} L={L} R={R}")
                continue
            s = proc.sampling
            axis_ref = grid.axes[0].copy()          # the caller's axis array: no sampler built on the grid may overwrite it

            def entry(smp):
                # single-uniform entry point of the sampler behind the factory (index -> increment through `states`)
                if name == "ALIAS":
                    return lambda u: int(smp.states([smp._draw_with_u(u)])[0])
                if name == "HUFFMANNTREE":
                    return lambda u: int(smp.states(H.sample_with_u(u, smp.head)[0]))
                if name == "TABLE":
                    return None
                return lambda u: int(smp.sample_with_u(u))
            one = entry(s)

            # ---- the vector the factory hands to the table-driven samplers, and its `states` map (Model/Factory.v)
            if name == "ALIAS":
                qv = create_q_vector(proc.model.levy_triplet.nu, grid)
                jv = create_vec_jump_matrix(q_vector=qv.copy(), init_state=grid.origin_coordinate, intensity_of_jumps=proc.intensity_of_jumps)
                st_map = [int(v) for v in s.states(list(range(n)))]
                g_vec.append(f"({lst([qlit(float(v)) for v in qv])}, {qlit(lam)}, {zlit(L)}, {lst([qlit(float(v)) for v in jv])}, {lst([zlit(v) for v in st_map])})")
                res.count(("vec", h, L, R, tuple(masses)), kind="create_vec_jump_matrix + states")
                if Fr(float(jv[L])) != 0 or st_map[L] != 0 or sorted(st_map) != list(range(-L, R + 1)):
                    viol("factory: the jump vector does not give probability 0 to the origin, or `states` is not index - origin", sampler="factory", **ctx0)

            # ---- batch sample() against the single-uniform entry point
            us = [rng.randrange(0, 1 << 30) / (1 << 30) for _ in range(16)] + [0.0, ulp_down(1.0)]
            if name == "TABLE":
                words = [rng.getrandbits(32) for _ in range(24)]
                got = _table_words(s, words)
                for w, o in zip(words, got):
                    res.count(("factory-table", h, L, R, tuple(masses), w), kind="factory TABLE sample")
                    check_state(name, o, w / 2.0 ** 32 or 0.5)
                    ji = s.J[w & 255]
                    want = int(s.states(ji)) if ji >= 0 else int(s.states(s.alias_method._draw_with_u(w * s._cst)))
                    if want != o:
                        viol("TableMethod.sample differs from the table/alias lookup for the same 32-bit word", sampler=name, word=w, got=o, want=want, **ctx0)
            else:
                orig_u = np.random.uniform
                np.random.uniform = _scripted_uniforms(us)
                try:
                    batch = [int(v) for v in s.sample(size=len(us))]
                finally:
                    np.random.uniform = orig_u
                fone = entry(mk()[0].sampling)
                for u, o in zip(us, batch):
                    res.count(("factory", name, h, L, R, tuple(masses), u), kind=f"factory {name} sample")
                    check_state(name, o, u)
                    if fone(u) != o:
                        viol(f"{name}: batch sample() and the single-uniform entry point disagree for the same uniform", sampler=name,
                             u=u, batch=o, single=fone(u), **ctx0)
                # the same uniforms in another order, on the object that has already served the batch
                perm = list(range(len(us)))
                rng.shuffle(perm)
                again = {i: one(us[i]) for i in perm}
                bad = [i for i in range(len(us)) if again[i] != batch[i]]
                if bad:
                    viol(f"{name}: the state returned for a uniform depends on the earlier draws", sampler=name, u=us[bad[0]],
                         first=batch[bad[0]], second=again[bad[0]], **ctx0)

            # ---- law of the chain sampler (oracle, exact up to 2^-30 per change point)
            if one is not None and n <= 25:
                if name == "ALIAS":
                    hints = _alias_hints(s)
                elif name == "BINARYSEARCHTREE":
                    hints = [float(v) for v in s.bst]
                elif name == "HUFFMANNTREE":
                    hints = [float(v) for v in _huff_breaks(s.head)]
                else:
                    hints = [float(c) for c in cum_axis_order + cum_pairing_order]
                lengths, _ = integrate_step_function(one, hints=hints)
                res.count(("factory-law", name, h, L, R, tuple(masses)), kind=f"oracle-law-factory-{name}")
                for st, pr in target.items():
                    if abs(lengths.get(st, Fr(0)) - pr) > Fr(1, 10 ** 9):
                        viol(f"{name} through the factory: total length of the uniforms sent to a state differs from rate/intensity",
                             sampler=name, state=st, length=float(lengths.get(st, Fr(0))), target=float(pr), **ctx0)
                        break
                extra = [st for st in lengths if st not in target or (target[st] == 0 and lengths[st] > 0)]
                if extra:
                    viol(f"{name} through the factory: origin / out-of-grid / zero-probability state has positive length", sampler=name,
                         state=int(extra[0]), **ctx0)

            # ---- INVERSION: operation sequences, compared with Model/Inversion.v, and replayed in a second order
            if name == "INVERSION":
                brk = uniforms_around(rng, [float(c) for c in cum_pairing_order], 0)
                for M in ([1, 2, 3, 5, None] if tier == "quick" else [1, 2, 3, 4, 5, 8, 50, None]):
                    for order in ("random", "ascending", "descending", "repeats", "breakpoints"):
                        s2 = mk()[0].sampling
                        if M is not None:
                            s2._max_storage = M
                        nd = rng.choice([1, 2, 5, 20, 60]) if tier == "quick" else rng.choice([1, 3, 10, 50, 200])
                        if order == "breakpoints":
                            seq = pick(rng, brk, nd)
                            rng.shuffle(seq)
                        else:
                            seq = [rng.randrange(0, 1 << 30) / (1 << 30) for _ in range(nd)]
                            if order == "ascending":
                                seq.sort()
                            elif order == "descending":
                                seq.sort(reverse=True)
                            elif order == "repeats":
                                seq = [rng.choice(seq[: max(1, nd // 4)]) for _ in range(nd)]
                        # the exhaustion path: uniforms above the sum of the probabilities (and the largest float below 1) -> the
                        # enumeration is exhausted, StatesManager draws a frontier state at random
                        if rng.random() < 0.5:
                            for extra in (1.25, ulp_down(1.0), 1.0625):
                                seq.insert(rng.randrange(len(seq) + 1), extra)
                        sm2 = s2.state_manager
                        fr_idx = [int(ix) for ix in sm2.frontier_states_indices]
                        fr_states = sorted({int(sm2.pairing.project(ix)) for ix in fr_idx})
                        outs, rows = [], []
                        with ScriptedChoice() as ch:
                            for u in seq:
                                ch.c, before = rng.randrange(len(fr_idx)), ch.calls           # the random choice as an explicit input
                                o = int(s2.sample_with_u(u))
                                called = ch.calls > before
                                outs.append(o)
                                rows.append((u, ch.c, called, o))
                                res.count(("inv", h, L, R, tuple(masses), M, order, u, len(outs)), kind="InversionMethod.sample_with_u (sequence)")
                                if called != (u > 1.0):
                                    viol("InversionMethod: the frontier draw is (not) taken although the uniform is (not) above the sum of the probabilities",
                                         sampler=name, u=u, got=o, choice_called=called, **ctx0)
                                if u > 1.0:
                                    res.bump("inversion_exhaustion", "u above the sum")
                                    res.bump("inversion_frontier_choice", ch.c)
                                    if o != int(sm2.pairing.project(fr_idx[ch.c])) or o == 0 or not (-L <= o <= R):
                                        viol("InversionMethod: a uniform above the sum of the probabilities does not give the chosen frontier state of the grid",
                                             sampler=name, u=u, got=o, choice=ch.c, frontier=fr_states, **ctx0)
                                else:
                                    check_state(name, o, u)
                        res.bump("inversion_order", order)
                        res.bump("inversion_max_storage", M)
                        # the same uniforms in another order on a fresh sampler: outputs must be a function of u only
                        s3 = mk()[0].sampling
                        if M is not None:
                            s3._max_storage = M
                        perm = list(range(len(seq)))
                        rng.shuffle(perm)
                        outs3 = {}
                        with ScriptedChoice() as ch3:
                            for i in perm:
                                ch3.c = rows[i][1]              # the same choice for the same draw: the output is a function of (u, c) only
                                outs3[i] = int(s3.sample_with_u(seq[i]))
                        diff = [i for i in range(len(seq)) if outs3[i] != outs[i]]
                        if diff:
                            i = diff[0]
                            viol("InversionMethod: the state returned for a uniform depends on the earlier draws", sampler=name,
                                 max_storage=M, sequence=seq, order2=perm, index=i, first=outs[i], second=outs3[i], **ctx0)
                        Mz = 1_000_000 if M is None else M
                        final_cum = lst([qlit(float(c)) for c in s2._cumulative_probabilities])
                        sm = s2.state_manager
                        g_inv.append(f"({lst([qlit(float(x)) for x in grid.axes[0]])}, {zlit(L)}, {zlit(int(sm.max_frontier_indices))}, {_pieces_lit(meas)}, {qlit(lam)}, {zlit(Mz)}, "
                                     f"{_draws_lit(rows)}, {final_cum}, ({zlit(int(sm._last_projected_index))}, {zlit(int(sm._last_logged_index))}), {lst([zlit(v) for v in fr_idx])})")
                # batch sample(size) with a lowered storage against the single-uniform entry point: the batch contains
                # uniforms beyond the stored cumulative sums, in several orders
                for M in (1, 2, 3, 5, 20):
                    nb = rng.choice([4, 12, 40])
                    base = [rng.randrange(0, 1 << 30) / (1 << 30) for _ in range(nb)] + [ulp_down(1.0), 0.5 + 2.0 ** -20]
                    for order in ("ascending", "descending", "shuffled"):
                        us_b = sorted(base) if order == "ascending" else sorted(base, reverse=True) if order == "descending" else rng.sample(base, len(base))
                        s4 = mk()[0].sampling
                        s4._max_storage = M
                        if rng.random() < 0.5:
                            s4.sample_with_u(rng.random())          # a warm history before the batch
                        orig_u = np.random.uniform
                        np.random.uniform = _scripted_uniforms(us_b)
                        try:
                            batch = [int(v) for v in s4.sample(size=len(us_b))]
                        finally:
                            np.random.uniform = orig_u
                        res.bump("inversion_batch_lowered_storage", M)
                        for u, o in zip(us_b, batch):
                            res.count(("inv-batch", h, L, R, tuple(masses), M, order, u), kind="InversionMethod.sample (batch, lowered storage)")
                            if o != one(u):
                                viol("InversionMethod: batch sample() with a full storage and the single-uniform entry point disagree for the same uniform",
                                     sampler=name, max_storage=M, order=order, u=u, batch=o, single=one(u), batch_uniforms=us_b, **ctx0)
                                break

            # ---- BINARYSEARCHTREEADAPTED1D draws against Model/BstAdapted.v
            if name == "BINARYSEARCHTREEADAPTED1D":
                us2 = pick(rng, uniforms_around(rng, [float(c) for c in cum_axis_order], 0), 60) + [rng.randrange(0, 1 << 30) / (1 << 30) for _ in range(12)]
                outs = []
                for u in us2:
                    o = int(s.sample_with_u(u))
                    outs.append(o)
                    res.count(("ba1d", h, L, R, tuple(masses), u), kind="BinarySearchTreeAdapted1D.sample_with_u")
                    check_state(name, o, u)
                # second pass in reverse order on the same object (lru cache warm) and on a fresh object: same answers
                outs_b = [int(s.sample_with_u(u)) for u in reversed(us2)][::-1]
                s5 = mk()[0].sampling
                outs_c = [int(s5.sample_with_u(u)) for u in us2]
                if outs_b != outs or outs_c != outs:
                    viol("BinarySearchTreeAdapted1D: the state returned for a uniform depends on the earlier draws / on another instance",
                         sampler=name, **ctx0)
                g_ba.append(f"({lst([qlit(float(x)) for x in grid.axes[0]])}, {zlit(L)}, {_pieces_lit(meas)}, {qlit(lam)}, {qlit(h)}, {_qpairs(zip(us2, outs))})")

            res.bump("input_array_guard", f"{name} grid axis")
            if grid.axes[0].tobytes() != axis_ref.tobytes():
                viol(f"{name} through the factory: the constructor or a draw overwrites the grid's axis array", sampler=name, input_array_mutated=True, **ctx0)

    groups.append(("inversion", "list Q * Z * Z * list (Q * Q * Q) * Q * Z * list (Q * Z * bool * Z) * list Q * (Z * Z) * list Z", "chk_inversion", g_inv))
    groups.append(("bstadapted1d", "list Q * Z * list (Q * Q * Q) * Q * Q * list (Q * Z)", "chk_ba1d", g_ba))
    groups.append(("factoryvec", "list Q * Q * Z * list Q * list Z", "chk_factory_vec", g_vec))


# ----------------------------------------------------------------------------- exhaustion / frontier path (exact)
def inversion_direct(res, rng, groups, viol):
    """InversionMethod built through its public constructor on a real StatesManager (PairingToZ1d, Domain(Boundary()), CTMCGrid)
    with a dyadic probability TABLE whose sum is 1 - 2^-k (k = 52, 40, 12, 4: what rounding does to rate/intensity) or exactly 1:
    every float operation is exact (checked), uniforms in (sum, 1) -- 1 - 2^-53 first -- take the exhaustion path and the
    frontier draw is scripted (every position of the deque).  Compared exactly with Model/InversionFrontier.v; oracle: the
    state returned is project(frontier[c]) iff u is above the stored float sum, otherwise a state of positive probability."""
    from rpylib.distribution import pairing as P
    from rpylib.distribution.variate.inversion import InversionMethod
    from rpylib.grid.spatial import CTMCGrid
    g_dir = []
    shapes = [(3, 3), (1, 1), (2, 5), (6, 2), (10, 10), (1, 7)] + ([] if res.tier == "quick" else [(23, 12), (4, 4), (40, 40), (9, 1)])
    # wave 7 (audit 4, D1): EDGE-origin axes (L = 0 or R = 0; the public CTMCGrid accepts origin_coordinate = 0 / n - 1): the deque
    # holds pair(0) = -1, whose projection is the origin (F-C02-14).  Own random stream: the cases above are unchanged.
    shapes += [(0, 4), (5, 0), (0, 1), (0, 9)] + ([] if res.tier == "quick" else [(9, 0), (0, 17), (1, 0)])
    rng_main, rng_edge = rng, random.Random(res.seed * 7919 + 14)
    for L, R in shapes:
        edge = L == 0 or R == 0
        rng = rng_edge if edge else rng_main
        res.bump("inversion_direct_origin", "edge (L = 0 or R = 0)" if edge else "interior")
        for k_def in (52, 40, 12, 4, None):
            for zero_end in (False, True):
                n = L + R + 1
                den = 1 << 12
                ints = _composition(rng, den, n - 1, zero_frac=rng.choice([0.0, 0.3]))
                if zero_end:                                   # an end point of the axis (a frontier state) of probability zero
                    e = rng.choice([0, n - 2])
                    j = max(range(n - 1), key=lambda t: ints[t])
                    if j != e:
                        ints[j] += ints[e]
                        ints[e] = 0
                probs = [Fr(v, den) for v in ints]
                if k_def is not None:
                    j = max(range(n - 1), key=lambda t: probs[t])
                    probs[j] -= Fr(1, 1 << k_def)
                states = [k - L for k in range(n) if k != L]
                table = dict(zip(states, probs))
                ftable = {st: float(pr) for st, pr in table.items()}
                if any(Fr(v) != table[st] for st, v in ftable.items()):
                    res.bump("inversion_direct_skipped", "entry not a float")
                    continue
                axis = np.array([k * 0.25 for k in range(-L, R + 1)], dtype=float)
                grid = CTMCGrid(h=0.25, origin_coordinate=L, axes=[axis])

                def mk():
                    pz = P.PairingToZ1d((-L, R), omit_zero=True)
                    sm_ = P.StatesManager(pairing=pz, domain=P.Domain(boundary=P.Boundary(), grid=grid, pairing=pz), grid=grid)
                    return InversionMethod(probability_to_jump_to_state=lambda st: ftable[int(st)], state_manager=sm_)
                s0 = mk()
                enum = [int(s0.state_manager.pairing.project(x)) for x in range(L + R)]
                cums, acc, facc, exact = [], Fr(0), 0.0, True
                for st in enum:
                    acc += table[st]
                    facc += ftable[st]
                    exact = exact and Fr(facc) == acc
                    cums.append(acc)
                if not exact:
                    res.bump("inversion_direct_skipped", "inexact float sum")
                    continue
                sigma = float(cums[-1])
                ctx = dict(sampler="INVERSION-direct", left=L, right=R, table={str(k_): str(v) for k_, v in table.items()}, deficit_log2=k_def)
                res.bump("inversion_direct_deficit", "none" if k_def is None else f"2^-{k_def}")
                for M in (1, 2, None) if res.tier == "quick" else (1, 2, 3, 7, None):
                    s1 = mk()
                    if M is not None:
                        s1._max_storage = M
                    sm1 = s1.state_manager
                    fr_idx = [int(ix) for ix in sm1.frontier_states_indices]
                    top = ulp_down(1.0)
                    above = [top, ulp_down(top)] + [sigma + (1.0 - sigma) * rng.randrange(1, 1 << 8) / (1 << 8) for _ in range(2)] + [1.0, 1.25]
                    above = [u for u in above if u > sigma]
                    brk = pick(rng, uniforms_around(rng, [float(c_) for c_ in cums], 0), 10)
                    seq = [(u, c) for u in above for c in range(len(fr_idx))] + [(u, rng.randrange(len(fr_idx))) for u in brk]
                    seq += [(rng.randrange(0, 1 << 30) / (1 << 30), 0) for _ in range(4)]
                    rng.shuffle(seq)
                    rows = []
                    with ScriptedChoice() as ch:
                        for u, c in seq:
                            ch.c, before = c, ch.calls
                            o = int(s1.sample_with_u(u))
                            called = ch.calls > before
                            rows.append((u, c, called, o))
                            res.count(("inv-direct", L, R, tuple(ints), k_def, M, u, c, len(rows)), kind="InversionMethod.sample_with_u (direct, frontier draw scripted)")
                            if called != (u > sigma):
                                viol("InversionMethod: the frontier draw is taken iff the uniform exceeds the sum of the probabilities -- not so",
                                     u=u, got=o, choice_called=called, float_sum=sigma, max_storage=M, **ctx)
                            elif called:
                                res.bump("inversion_direct_frontier", "u = 1 - 2^-53" if u == top else "u in (sum, 1)" if u < 1.0 else "u >= 1")
                                want = int(sm1.pairing.project(fr_idx[c]))
                                if edge and o == want == 0 and fr_idx[c] == -1:
                                    # F-C02-14 on a hand-made table (the table is not a probability vector when its sum is below 1, so
                                    # nothing is reported here; through the factory on rounded probabilities: chain_float_sum)
                                    res.bump("inversion_direct_frontier", "ORIGIN returned: deque entry pair(0) = -1 of an edge-origin axis")
                                    continue
                                if o != want or o == 0 or not (-L <= o <= R):
                                    viol("InversionMethod: on exhaustion the state returned is not the chosen frontier state of the grid",
                                         u=u, got=o, choice=c, want=want, max_storage=M, **ctx)
                                    continue
                                if table[o] == 0:
                                    res.bump("inversion_direct_frontier", "frontier state of probability zero returned (deficient table)")
                            elif u > 0.0 and (o == 0 or not (-L <= o <= R) or table[o] == 0):
                                viol("InversionMethod (direct): origin / out-of-grid / zero-probability state for a uniform below the sum",
                                     u=u, got=o, max_storage=M, **ctx)
                    Mz = 1_000_000 if M is None else M
                    tab_lit = lst([f"({zlit(st)}, {qlit(ftable[st])})" for st in states])
                    g_dir.append(f"({zlit(L)}, {zlit(R)}, {tab_lit}, {zlit(Mz)}, {_draws_lit(rows)}, {lst([qlit(float(c_)) for c_ in s1._cumulative_probabilities])}, "
                                 f"({zlit(int(sm1._last_projected_index))}, {zlit(int(sm1._last_logged_index))}), {lst([zlit(v) for v in fr_idx])})")
    groups.append(("inversion_direct", "Z * Z * list (Z * Q) * Z * list (Q * Z * bool * Z) * list Q * (Z * Z) * list Z", "chk_inv_direct", g_dir))


# ----------------------------------------------------------------------------- probability-step grid (oracle only)
def chain_probability_step(res, rng, viol):
    """CTMCGridProbabilityStep (cell boundaries = equal-probability points found by a root finder, not arithmetic
    mid-points): every 1-d sampler must realise rate/intensity of the chain built on that grid (tolerance 1e-6: brentq)."""
    from c02_stepmodel import C02StepMeasure, C02StepModel
    from rpylib.grid.spatial import CTMCGridProbabilityStep
    from rpylib.process.markovchain.markovchain import MarkovChainProcess
    from rpylib.distribution.samplingfactory import create_q_vector
    from rpylib.distribution.sampling import SamplingMethod as SM
    from rpylib.distribution.variate import huffmantree as H
    pieces_list = [[(-4, -2, Fr(1, 4)), (-2, -1, 1), (-1, -Fr(1, 8), 2), (Fr(1, 8), 1, 4), (1, 2, 1), (2, 6, Fr(1, 8))],
                   [(-3, -1, Fr(1, 2)), (-1, -Fr(1, 8), 1), (Fr(1, 8), Fr(1, 2), 8), (Fr(1, 2), 5, Fr(1, 4))]]
    for pieces in pieces_list:
        for method in (SM.BINARYSEARCHTREEADAPTED1D, SM.INVERSION, SM.BINARYSEARCHTREE, SM.HUFFMANNTREE, SM.ALIAS):
            name = method.name
            ctx = dict(sampler=name, grid="CTMCGridProbabilityStep", pieces=[[str(x) for x in pc] for pc in pieces])
            try:
                model = C02StepModel(C02StepMeasure(pieces))
                grid = CTMCGridProbabilityStep(h=0.25, model=model, minimum_probability_step=0.2)
                proc = MarkovChainProcess(model, method, grid)
                s = proc.sampling
                q = create_q_vector(proc.model.levy_triplet.nu, grid) / proc.intensity_of_jumps
            except Exception as e:  # noqa
                viol(f"factory raises {type(e).__name__} on a probability-step grid for SamplingMethod.{name}", error=str(e)[:200], **ctx)
                continue
            o = grid.origin_coordinate.value
            if name == "ALIAS":
                one = lambda u: int(s.states([s._draw_with_u(u)])[0])
                hints = _alias_hints(s)
            elif name == "HUFFMANNTREE":
                one = lambda u: int(s.states(H.sample_with_u(u, s.head)[0]))
                hints = [float(v) for v in _huff_breaks(s.head)]
            else:
                one = lambda u: int(s.sample_with_u(u))
                hints = [float(v) for v in getattr(s, "bst", [])]
            if name == "INVERSION":
                one(ulp_down(1.0) - 1e-9)
                hints = [float(c) for c in s._cumulative_probabilities]
            lengths, _ = integrate_step_function(one, hints=hints, n0=512, top=1.0 - 1e-9)
            res.count(("law-pstep", name, tuple(map(tuple, pieces))), kind=f"oracle-law-probability-step-{name}")
            for k, pk in enumerate(q):
                if k == o:
                    continue
                got = float(lengths.get(k - o, Fr(0)))
                if abs(got - float(pk)) > 1e-6:
                    viol(f"{name} on a probability-step grid: total length of the uniforms sent to a state differs from rate/intensity",
                         state=k - o, length=got, target=float(pk), **ctx)
                    break


# ----------------------------------------------------------------------------- real Levy models, plain AND exponential wrappers (oracle only)
def _exp_family(family, params):
    """(plain model, exponential model, INDEPENDENT interval mass m(a, b) of the UN-truncated Levy measure for a < b on one side
    of 0 -- closed forms written out here from the densities, nothing of rpylib is called)"""
    from scipy.special import exp1
    if family == "HEM":
        from rpylib.model.levymodel.mixed.hem import HEMModel, ExponentialOfHEMModel, HEMParameters
        mk_p = lambda: HEMParameters(**params)
        lam, pp, e1, e2 = params["intensity"], params["p"], params["eta1"], params["eta2"]
        mass = lambda a, b: lam * (1 - pp) * (math.exp(e2 * b) - math.exp(e2 * a)) if b <= 0 else lam * pp * (math.exp(-e1 * a) - math.exp(-e1 * b))
        return HEMModel(mk_p()), ExponentialOfHEMModel(spot=100.0, r=0.02, d=0.0, parameters=mk_p()), mass
    if family == "Merton":
        from rpylib.model.levymodel.mixed.merton import MertonModel, ExponentialOfMertonModel, MertonParameters
        mk_p = lambda: MertonParameters(**params)
        lam, mu, sj = params["intensity"], params["mu_j"], params["sigma_j"]
        Phi = lambda x: 0.5 * math.erfc(-x / math.sqrt(2.0))
        mass = lambda a, b: lam * (Phi((b - mu) / sj) - Phi((a - mu) / sj))
        return MertonModel(mk_p()), ExponentialOfMertonModel(spot=100.0, r=0.02, d=0.0, parameters=mk_p()), mass
    if family == "VG":
        from rpylib.model.levymodel.purejump.variancegamma import VarianceGammaModel, ExponentialOfVarianceGammaModel, VGParameters
        mk_p = lambda: VGParameters(**params)
        sg, nu, th = params["sigma"], params["nu"], params["theta"]
        root = math.sqrt(th * th + 2 * sg * sg / nu)
        M_, G_, C_ = (root - th) / sg ** 2, (root + th) / sg ** 2, 1.0 / nu          # density C e^{-M x}/x (x > 0), C e^{-G|x|}/|x| (x < 0)
        mass = lambda a, b: C_ * (float(exp1(G_ * -b)) - float(exp1(G_ * -a))) if b <= 0 else C_ * (float(exp1(M_ * a)) - float(exp1(M_ * b)))
        return VarianceGammaModel(mk_p()), ExponentialOfVarianceGammaModel(spot=100.0, r=0.02, d=0.0, parameters=mk_p()), mass
    raise ValueError(family)


EXP_CASES = [("HEM", dict(sigma=0.1, p=0.45, eta1=7.0, eta2=5.0, intensity=4.0), 0.05, 16),
             ("Merton", dict(sigma=0.1, mu_j=0.05, sigma_j=0.15, intensity=3.0), 0.05, 12),
             ("VG", dict(sigma=0.2, nu=0.5, theta=-0.1), 0.0625, 10),
             ("HEM", dict(sigma=0.2, p=0.3, eta1=12.0, eta2=9.0, intensity=2.5), 0.03125, 20)]
EXP_CASES_THOROUGH = [("HEM", dict(sigma=0.1, p=0.45, eta1=7.0, eta2=5.0, intensity=4.0), 0.1, 8),
                      ("Merton", dict(sigma=0.2, mu_j=0.1, sigma_j=0.3, intensity=1.5), 0.1, 10),
                      ("VG", dict(sigma=0.12, nu=0.2, theta=0.05), 0.03125, 24),
                      ("Merton", dict(sigma=0.1, mu_j=0.0, sigma_j=0.15, intensity=3.0), 0.025, 30)]
EXP_METHODS = ("ALIAS", "TABLE", "BINARYSEARCHTREE", "HUFFMANNTREE", "INVERSION", "BINARYSEARCHTREEADAPTED1D")


def exp_case_law(family, params, exponential, h, nb, name, rng):
    """one chain through the public MarkovChainProcess on a fixed-size uniform grid (the grid ends cut REAL tail mass on both sides):
    returns (realised lengths {increment: Fraction}, independent target {increment: float}, tolerance, cut tail fractions)"""
    from rpylib.distribution.sampling import SamplingMethod as SM
    from rpylib.distribution.variate import huffmantree as H
    from rpylib.grid.spatial import CTMCUniformGrid
    from rpylib.process.markovchain.markovchain import MarkovChainProcess
    plain, expo, mass = _exp_family(family, params)
    grid = CTMCUniformGrid.create_from_fixed_nb_of_points(h=h, nb_of_points=nb)
    half = nb // 2
    pts = [k * h for k in range(-half, half + 1)]
    if [float(x) for x in grid.axes[0]] != pts or grid.origin_coordinate.value != half:
        raise RuntimeError("create_from_fixed_nb_of_points: unexpected axis")
    # target: the measure TRUNCATED to [axis[0], axis[-1]], cells bounded by the arithmetic mid-points, origin cell excluded
    cell = {}
    for k in range(-half, half + 1):
        if k:
            lo = pts[0] if k == -half else (k - 0.5) * h
            hi = pts[-1] if k == half else (k + 0.5) * h
            cell[k] = mass(lo, hi)
    tot = sum(cell.values())
    target = {k: v / tot for k, v in cell.items()}
    cut = (mass(-60.0, pts[0]) / tot, mass(pts[-1], 60.0) / tot)
    s = MarkovChainProcess(expo if exponential else plain, SM[name], grid).sampling
    tol = 1e-7
    if name == "TABLE":
        # table_word_law labels table slots by INDEX and residual words by what sample() returns: run it with the identity as
        # `states` (after checking that the factory's map is index - origin) and shift the labels here
        if [int(v) for v in s.states(list(range(len(pts))))] != [k - half for k in range(len(pts))]:
            raise RuntimeError("TABLE: the factory's `states` map is not index - origin")
        keep = s.states
        s.states = ident
        try:
            counts, _ = table_word_law(s, len(pts), resid_limit=2, rng=rng)
        finally:
            s.states = keep
        if any(isinstance(k, tuple) for k in counts):
            raise RuntimeError("TABLE: the state of a table slot depends on the upper 24 bits of the word")
        lengths = {k - half: Fr(v) / (1 << 32) for k, v in counts.items()}
        return lengths, target, tol + (2 * len(pts) + 2) / float(1 << 24), cut
    ks = sorted(target)
    enum_axis, enum_pair = ks, sorted(ks, key=lambda k: (abs(k), k < 0))
    hints = []
    for order in (enum_axis, enum_pair):
        acc = 0.0
        for k in order:
            acc += target[k]
            hints.append(acc)
    if name == "ALIAS":
        one = lambda u: int(s.states([s._draw_with_u(u)])[0])
        hints = _alias_hints(s)
    elif name == "HUFFMANNTREE":
        one = lambda u: int(s.states(H.sample_with_u(u, s.head)[0]))
        hints = [float(v) for v in _huff_breaks(s.head)]
    else:
        one = lambda u: int(s.sample_with_u(u))
        if name == "BINARYSEARCHTREE":
            hints = [float(v) for v in s.bst]
    top = 1.0 - 1e-9                                   # the last 1e-9 is the float-sum territory of F-C02-8 / F-C02-13
    if name == "INVERSION":
        one(top)
        hints = hints + [float(c_) for c_ in s._cumulative_probabilities]
    lengths, _ = integrate_step_function(one, hints=[x for x in hints if 0.0 < x < top], n0=512, top=top)
    return lengths, target, tol, cut


def chain_exponential(res, rng, viol):
    """EVERY SamplingMethod through MarkovChainProcess on the library's REAL Levy models, as plain models and wrapped in their
    ExponentialOf*Model (HEM, Merton, VG), on fixed-size uniform grids whose ends cut a visible part of both tails: the law
    realised by the sampler (exact integration of u -> state; TABLE: exact count over the 32-bit words) against
    cell mass / intensity of the TRUNCATED measure computed here from closed forms of the densities (nothing of rpylib).
    A sampler that reads a different measure than the chain's truncated one (e.g. a wrapper answering mass() with the un-truncated
    measure of the wrapped model) moves the cut tail mass onto some state."""
    cases = EXP_CASES + (EXP_CASES_THOROUGH if res.tier != "quick" else [])
    for family, params, h, nb in cases:
        for exponential in (False, True):
            for name in EXP_METHODS:
                ctx = dict(sampler=name, model=family, exponential=exponential, params=params, h=h, nb_of_points=nb, exp_case=True)
                try:
                    lengths, target, tol, cut = exp_case_law(family, params, exponential, h, nb, name, rng)
                except Exception as e:  # noqa
                    viol(f"chain on a real Levy model raises {type(e).__name__} for SamplingMethod.{name}", error=str(e)[:200], **ctx)
                    continue
                res.count(("law-exp", family, tuple(sorted(params.items())), exponential, h, nb, name), kind=f"oracle-law-{'exponential' if exponential else 'plain'}-{family}-{name}")
                res.bump("exp_chain_cut_tail", "both tails cut by > 1e-3 of the kept mass" if min(cut) > 1e-3 else "a tail cut by <= 1e-3")
                bad = [k for k in target if abs(float(lengths.get(k, Fr(0))) - target[k]) > tol]
                extra = [k for k in lengths if k not in target and lengths[k] > 0]
                if extra:
                    viol(f"{name} on a real Levy model: the origin or a state outside the grid has positive length", state=int(extra[0]),
                         length=float(lengths[extra[0]]), **ctx)
                elif bad:
                    k = max(bad, key=lambda k_: abs(float(lengths.get(k_, Fr(0))) - target[k_]))
                    viol(f"{name} on a real Levy model ({'ExponentialOf' if exponential else 'plain '}{family}): total length of the uniforms sent to a state "
                         "differs from (mass of its cell under the measure truncated to the grid) / intensity",
                         state=int(k), length=float(lengths.get(k, Fr(0))), target=target[k], cut_left=cut[0], cut_right=cut[1], **ctx)


# ----------------------------------------------------------------------------- float sums below 1 (oracle + float-increment tie)
D1_MASSES = [Fr(0), Fr(51, 256), Fr(53, 64), Fr(547, 256), Fr(13, 32), Fr(161, 256), Fr(375, 256), Fr(59, 256), Fr(55, 256), Fr(57, 64)]


def _guarded(f, seconds=20):
    """f() under a SIGALRM watchdog (main thread only): a sampler that does not terminate must not hang the check"""
    import signal
    import threading
    if threading.current_thread() is not threading.main_thread():
        return f()

    def _raise(*_a):
        raise TimeoutError(f"no answer within {seconds} s")
    old = signal.signal(signal.SIGALRM, _raise)
    signal.alarm(seconds)
    try:
        return f()
    finally:
        signal.alarm(0)
        signal.signal(signal.SIGALRM, old)


def float_sum_specs(res, rng):
    """(L, R, cell masses): intensity 3, 5 or 7, so that rate / intensity is rounded.  First the recorded witness of F-C02-13, then
    random interior-origin axes; then (wave 7, own random stream) EDGE-origin axes, first the witness of F-C02-14 and its mirror."""
    specs = [(3, 3, [Fr(0), Fr(1), Fr(1), Fr(0), Fr(1, 4), Fr(17, 4), Fr(1, 2)])]

    def rand(r_, shapes):
        L, R = r_.choice(shapes)
        lam_int = r_.choice([3, 3, 5, 7])
        ints = _composition(r_, lam_int * (1 << 8), L + R, zero_frac=r_.choice([0.0, 0.3]))
        if r_.random() < 0.4:
            e = r_.choice([0, L + R - 1])              # an end point of the axis (a frontier state of INVERSION) without mass
            j = max(range(L + R), key=lambda t: ints[t])
            if j != e:
                ints[j] += ints[e]
                ints[e] = 0
        return L, R, [Fr(v, 1 << 8) for v in ints[:L] + [0] + ints[L:]]          # total intensity 3, 5 or 7
    for _ in range(12 if res.tier == "quick" else 60):
        specs.append(rand(rng, [(2, 2), (3, 5), (6, 2), (10, 10)]))
    rng_edge = random.Random(res.seed * 7919 + 15)
    specs += [(0, 9, list(D1_MASSES)), (9, 0, list(reversed(D1_MASSES)))]
    for _ in range(6 if res.tier == "quick" else 30):
        specs.append(rand(rng_edge, [(0, 4), (5, 0), (0, 8), (7, 0), (0, 2), (0, 12)]))
    return specs


def chain_float_sum(res, rng, groups, viol):
    """1-d chains whose intensity is not a power of two: rate / intensity is rounded and the float cumulative sum can end
    below 1 - 2^-53.  Every sampler must still return a state of the grid (never the origin) for u = 1 - 2^-53; for INVERSION
    a uniform above the float sum takes the exhaustion path (random frontier state).  Wave 7: also EDGE-origin axes (L = 0 or
    R = 0) through the public CTMCGrid + MarkovChainProcess, and the exact tie `inversion_floatinc`: the Coq model run on the
    INCREMENTS of the floats InversionMethod stores must return every state of a scripted history of the float run."""
    from rpylib.distribution.sampling import SamplingMethod as SM
    from rpylib.distribution.variate import huffmantree as H
    below, g_inc = 0, []
    rng_inc = random.Random(res.seed * 7919 + 16)
    for L, R, masses in float_sum_specs(res, rng):
        n = L + R + 1
        edge = L == 0 or R == 0
        res.bump("float_sum_origin", "edge (L = 0 or R = 0)" if edge else "interior")
        ctx = dict(h=0.25, left=L, right=R, masses=[str(m) for m in masses])
        for method in (SM.INVERSION, SM.ALIAS, SM.BINARYSEARCHTREE, SM.HUFFMANNTREE, SM.BINARYSEARCHTREEADAPTED1D):
            name = method.name
            try:
                proc, grid, meas = build_chain(0.25, L, masses, method, right=R)
            except Exception as e:  # noqa
                viol(f"factory raises {type(e).__name__} for SamplingMethod.{name}", sampler=name, error=str(e)[:200], **ctx)
                continue
            s = proc.sampling
            u = ulp_down(1.0)
            try:
                if name == "ALIAS":
                    o = int(s.states([s._draw_with_u(u)])[0])
                elif name == "HUFFMANNTREE":
                    o = int(s.states(H.sample_with_u(u, s.head)[0]))
                else:
                    with ScriptedChoice() as ch0:          # INVERSION: position 0 of the frontier deque (all positions: below)
                        o = int(_guarded(lambda: s.sample_with_u(u)))
            except Exception as e:  # noqa
                viol(f"{name}: the uniform 1 - 2^-53 raises {type(e).__name__}", sampler=name, u=u, error=str(e)[:200], **ctx)
                continue
            res.count(("float-sum", name, L, R, tuple(masses)), kind=f"{name} at 1 - 2^-53 (rounded probabilities)")
            target_o = masses[o + L] if -L <= o <= R else None
            if name == "INVERSION" and ch0.calls and ((target_o == 0 and o != 0) or (o == 0 and edge)):
                pass                                       # the frontier draw: reported below (F-C02-13 / F-C02-14) with the choice in the replay
            elif o == 0 or not (-L <= o <= R) or target_o == 0:
                extra = {}
                if name in ("BINARYSEARCHTREE", "HUFFMANNTREE"):
                    # the catch-all leaf: the last leaf in in-order receives every uniform at or above the float sum of the vector
                    if name == "BINARYSEARCHTREE":
                        ptr, spine = 1, []
                        while ptr <= s.K:
                            spine.append(float(s.bst[ptr - 1]))
                            ptr = 2 * ptr + 1
                        last_leaf = int(s.states(ptr - s.K - 1))
                        float_sum = max(spine)
                    else:
                        node, acc = s.head, 0.0
                        while not node.is_leaf:
                            acc += float(node.left_node.value)
                            node = node.right_node
                        last_leaf = int(s.states(node.state))
                        float_sum = acc + float(node.value)
                    extra = dict(finding="F-C02-8", last_inorder_leaf=last_leaf, float_sum_of_probabilities=float_sum,
                                 intensity=float(proc.intensity_of_jumps))
                viol(f"{name}: the uniform 1 - 2^-53 gives the origin, a zero-probability state or a state outside the grid (rounded probabilities)",
                     sampler=name, u=u, got=o, **extra, **ctx)
            if name == "INVERSION":
                top = float(s._cumulative_probabilities[-1])
                sm = s.state_manager
                fr_idx = [int(ix) for ix in sm.frontier_states_indices]
                fr = {int(sm.pairing.project(ix)) for ix in fr_idx}
                if top < u:
                    below += 1
                    if o not in fr:
                        viol("InversionMethod: a uniform above the float sum of the probabilities does not give a frontier state",
                             sampler=name, u=u, float_sum=top, got=o, frontier=sorted(fr), **ctx)
                # the frontier draw with the random choice as an explicit input: every position of the deque, on a fresh sampler
                # and on the warm one (Model/InversionFrontier.v; C02_inversion_frontier_law: taken iff u exceeds the float sum)
                for c in range(len(fr_idx)):
                    for smp in (build_chain(0.25, L, masses, method, right=R)[0].sampling, s):
                        with ScriptedChoice() as ch:
                            ch.c = c
                            oc = int(smp.sample_with_u(u))
                        res.count(("float-sum-frontier", L, R, tuple(masses), c, smp is s), kind="INVERSION at 1 - 2^-53, frontier choice scripted")
                        if (ch.calls == 1) != (top < u) or ch.calls > 1:
                            viol("InversionMethod: the frontier draw is taken iff the uniform exceeds the float sum of the probabilities -- not so",
                                 sampler=name, u=u, float_sum=top, got=oc, choice_calls=ch.calls, **ctx)
                            continue
                        if not ch.calls:
                            continue
                        res.bump("float_sum_frontier_choice", c)
                        want = int(sm.pairing.project(fr_idx[c]))
                        rep = dict(sampler=name, u=u, float_sum=top, got=oc, choice=c, frontier_indices=fr_idx,
                                   frontier_states=[int(sm.pairing.project(ix)) for ix in fr_idx], intensity=float(proc.intensity_of_jumps), **ctx)
                        if edge and oc == want == 0 and fr_idx[c] == -1:
                            # F-C02-14 (audit 4, D1): the deque of an edge-origin axis holds pair(0) = -1 and project(-1) is the ORIGIN
                            res.bump("float_sum_edge_origin", "origin returned (u in (float sum, 1))")
                            if smp is not s:
                                viol("InversionMethod through the factory on an edge-origin grid: a uniform in (float sum of the probabilities, 1) "
                                     "is sent by the frontier draw to the ORIGIN (increment 0)", finding="F-C02-14", **rep)
                        elif oc != want or oc == 0 or not (-L <= oc <= R):
                            viol("InversionMethod: on exhaustion the state returned is not the chosen frontier state of the grid",
                                 sampler=name, u=u, float_sum=top, got=oc, choice=c, want=want, **ctx)
                        elif masses[oc + L] == 0 and smp is not s:
                            viol("InversionMethod: a uniform in (float sum of the probabilities, 1) is sent by the frontier draw to a state of probability zero",
                                 finding="F-C02-13", probability_of_got=str(masses[oc + L]), **rep)
                _floatinc_case(res, rng_inc, g_inc, L, R, masses, method)
    res.bump("float_sum_below_largest_uniform", below)
    groups.append(("inversion_floatinc", "Z * Z * list (Z * Q) * Z * list (Q * Z * bool * Z) * list Q * (Z * Z) * list Z", "chk_inv_direct", g_inc))


def _floatinc_case(res, rng, g_inc, L, R, masses, method):
    """audit 4, B11: how the Q theorems are read on a FLOAT run.  InversionMethod stores s_0 = p_0, s_{k+1} = fl(s_k + p_{k+1}) and compares
    the uniform with these floats only; with prob'(state_k) := s_k - s_{k-1} (exact rationals) the model's sums ARE the stored floats and
    sigma is the stored float sum.  Here: a factory chain on ROUNDED probabilities, a scripted history (uniforms at the stored sums -/+ one
    ulp, random ones, 1 - 2^-53 with every position of the deque) with default and tiny _max_storage; chk_inv_direct must reproduce every
    state, every use of np.random.choice, the final sums and the StatesManager state -- incl. the ORIGIN on edge-origin axes."""
    mk = lambda: build_chain(0.25, L, masses, method, right=R)[0].sampling
    ref = mk()
    with ScriptedChoice():
        ref.sample_with_u(2.0)                              # exhausts the enumeration: every partial sum is stored
    cums = [float(c_) for c_ in ref._cumulative_probabilities]
    enum = [int(ref.state_manager.pairing.project(x)) for x in range(L + R)]
    if len(cums) != L + R or any(b_ < a_ for a_, b_ in zip(cums, cums[1:])) or cums[0] < 0:
        res.broke("correspondence inversion_floatinc", f"stored cumulative sums are not one non-decreasing float per state: L={L} R={R} {cums[:4]}")
        return
    incs = [Fr(cums[0])] + [Fr(b_) - Fr(a_) for a_, b_ in zip(cums, cums[1:])]
    tab_lit = lst([f"({zlit(st)}, {qlit(v)})" for st, v in zip(enum, incs)])
    top = ulp_down(1.0)
    for M in (None, 2):
        smp = mk()
        if M is not None:
            smp._max_storage = M
        fr_idx = [int(ix) for ix in smp.state_manager.frontier_states_indices]
        seq = [(top, c) for c in range(len(fr_idx))]
        for k in rng.sample(range(len(cums)), min(3, len(cums))):
            seq += [(cums[k], 0), (ulp_up(cums[k]), 1 % len(fr_idx)), (ulp_down(cums[k]), 0)]
        seq += [(rng.randrange(0, 1 << 30) / (1 << 30), rng.randrange(len(fr_idx))) for _ in range(4)]
        rng.shuffle(seq)
        rows = []
        with ScriptedChoice() as ch:
            for u, c in seq:
                ch.c, before = c, ch.calls
                o = int(smp.sample_with_u(u))
                rows.append((u, c, ch.calls > before, o))
                res.count(("inv-floatinc", L, R, tuple(masses), M, u, c, len(rows)), kind="InversionMethod.sample_with_u (factory, rounded probabilities, float-increment reading)")
        sm = smp.state_manager
        g_inc.append(f"({zlit(L)}, {zlit(R)}, {tab_lit}, {zlit(1_000_000 if M is None else M)}, {_draws_lit(rows)}, "
                     f"{lst([qlit(float(c_)) for c_ in smp._cumulative_probabilities])}, "
                     f"({zlit(int(sm._last_projected_index))}, {zlit(int(sm._last_logged_index))}), {lst([zlit(v) for v in fr_idx])})")


# ----------------------------------------------------------------------------- 2-d chain (oracle only)
def build_chain_2d(h, half, masses1, masses2, copula_name, method, right=None):
    """half points on the left of the origin and `right` (default: half) on the right, on both axes"""
    from c02_stepmodel import C02StepModel, measure_from_cell_masses
    from rpylib.grid.spatial import CTMCGrid
    from rpylib.distribution import levycopula as LC
    from rpylib.model.levycopulamodel import LevyCopulaModel
    from rpylib.process.markovchain.markovchainlevycopula import MarkovChainLevyCopula
    import warnings
    right = half if right is None else right
    axis = np.array([k * h for k in range(-half, right + 1)], dtype=float)
    grid = CTMCGrid(h=h, origin_coordinate=half, axes=[axis.copy(), axis.copy()])
    m1 = C02StepModel(measure_from_cell_masses(grid.axes[0], half, masses1))
    m2 = C02StepModel(measure_from_cell_masses(grid.axes[1], half, masses2))
    copula = {"independent": LC.IndependentComponentsCopula, "dependent": LC.DependentComponentsCopula}[copula_name]()
    with warnings.catch_warnings():
        warnings.simplefilter("ignore")
        proc = MarkovChainLevyCopula(LevyCopulaModel([m1, m2], copula), grid, method)
    return proc, grid


def chain_2d(res, rng, groups, viol):
    """2-d Levy copula chains (independent / completely dependent copula of two dyadic step margins, centred and
    non-centred square grids) through the public factory, INVERSION and BINARYSEARCHTREEADAPTED.
    Implementation-only oracle: target = mass of the cell of the chain's own model / intensity; law by integration of
    u -> state; no origin / out-of-grid / zero-probability state; batch sample() against the single-uniform entry points;
    draw sequences in two orders, INVERSION also with a small _max_storage.  INVERSION sequences on exact chains are in
    addition compared with Model/Inversion.v (enumeration zd2_project szudzik, inside = in the box, the probability
    table fed as data)."""
    import itertools
    from rpylib.distribution.sampling import SamplingMethod as SM
    tier = res.tier
    shapes = [(0.5, 1, 1), (0.5, 2, 2), (0.25, 3, 3), (0.5, 1, 3)] if tier == "quick" else \
        [(0.5, 1, 1), (0.5, 2, 2), (0.25, 3, 3), (0.25, 4, 4), (0.125, 6, 6), (0.5, 1, 3), (0.5, 2, 4), (0.25, 3, 1)]
    tol = Fr(1, 10 ** 9)
    g_inv2 = []
    for (h, L, R), copula_name in itertools.product(shapes, ("independent", "dependent")):
        n = L + R + 1
        tot = 1 << 8
        m1 = _composition(rng, tot, n - 1, zero_frac=rng.choice([0.0, 0.3]))
        m2 = _composition(rng, tot, n - 1, zero_frac=rng.choice([0.0, 0.3]))
        if L != R:      # the witness shape of F-C02-7 needs mass on the far right cells
            m1 = [tot // (n - 1)] * (n - 1)
            m1[0] += tot - sum(m1)
            m2 = list(m1)
        masses1 = [Fr(v, tot) for v in m1[:L] + [0] + m1[L:]]
        masses2 = [Fr(v, tot) for v in m2[:L] + [0] + m2[L:]]
        res.bump("chain2d", f"{copula_name} [-{L},{R}]^2")
        for method in (SM.INVERSION, SM.BINARYSEARCHTREEADAPTED):
            name = method.name + "-2d"
            ctx = dict(sampler=name, copula=copula_name, h=h, left=L, right=R, masses1=[str(m) for m in masses1], masses2=[str(m) for m in masses2])
            mk = lambda: build_chain_2d(h, L, masses1, masses2, copula_name, method, right=R)
            try:
                proc, grid = mk()
            except Exception as e:  # noqa
                viol(f"factory raises {type(e).__name__} for a 2-d chain with SamplingMethod.{method.name}", error=str(e)[:200], **ctx)
                continue
            s = proc.sampling
            o = grid.origin_coordinate
            lam = float(proc.intensity_of_jumps)
            lam_fr = Fr(lam)
            exact = lam_fr.numerator & (lam_fr.numerator - 1) == 0       # power-of-two intensity: mass / intensity is exact
            top = ulp_down(1.0) if exact else 1.0 - 2.0 ** -30
            target = {}
            for st in itertools.product(range(-L, R + 1), repeat=2):
                if st == (0, 0):
                    continue
                c = o + st
                v = grid[c]
                a = grid.middle(grid.left_point(c), v)
                b = grid.middle(v, grid.right_point(c))
                target[st] = Fr(float(max(proc.model.mass(a, b), 0) / lam))
            if abs(sum(target.values()) - 1) > tol:
                res.notes.append(f"2-d chain {copula_name} [-{L},{R}]^2: cell masses / intensity sum to {float(sum(target.values()))} (C01/C12 matter); law compared as is")

            def entry(smp):
                if method == SM.INVERSION:
                    return lambda u: tuple(int(x) for x in smp.sample_with_u(u))
                return lambda u: tuple(int(x) for x in smp.sample_with_us(np.array([u], dtype=float))[0])
            one = entry(s)

            from rpylib.distribution import pairing as P
            pz = P.PairingToZd(pairing=P.Szudzik(), dimension=2)
            in_box = lambda st: all(-L <= c_ <= R for c_ in st)
            F_ = int(s.state_manager.max_frontier_indices) if method == SM.INVERSION else 0
            adm = [i for i in range(F_ + 1) if in_box(tuple(int(c_) for c_ in pz.project(i)))] if method == SM.INVERSION else []
            first_state = tuple(int(c_) for c_ in pz.project(adm[0])) if method == SM.INVERSION else (0, -L)

            def check_state(st, u, extra=None):
                if st == (0, 0) or st not in target:
                    viol(f"{name} through the factory returns the origin or a state outside the grid", u=u, got=list(st), **ctx, **(extra or {}))
                elif target[st] == 0 and u == 0.0:
                    viol(f"{name}: the uniform 0.0 is sent to a state of probability zero", finding="F-C02-6", u=u, got=list(st),
                         first_enumerated_state=list(first_state), probability_of_got=str(target[st]), **ctx)
                elif target[st] == 0:
                    viol(f"{name} through the factory returns a zero-probability state", u=u, got=list(st), **ctx, **(extra or {}))

            # batch sample() against the single-uniform entry point
            us = [rng.randrange(0, 1 << 30) / (1 << 30) for _ in range(12)] + [0.0, top]
            orig_u = np.random.uniform
            np.random.uniform = lambda low=0.0, high=1.0, size=None: np.array(us[: size], dtype=float) * (high - low) + low
            try:
                batch = [tuple(int(x) for x in v) for v in s.sample(size=len(us))]
            finally:
                np.random.uniform = orig_u
            fone = entry(mk()[0].sampling)
            for u, st in zip(us, batch):
                res.count(("factory-2d", name, copula_name, h, L, R, u), kind=f"factory {name} sample")
                check_state(st, u)
                if fone(u) != st:
                    viol(f"{name}: batch sample() and the single-uniform entry point disagree for the same uniform", u=u, batch=list(st), single=list(fone(u)), **ctx)

            if method == SM.BINARYSEARCHTREEADAPTED:
                arr = np.array([rng.randrange(0, 1 << 30) / (1 << 30) for _ in range(8)], dtype=float)
                keep = arr.copy()
                r1 = [tuple(int(x) for x in v) for v in s.sample_with_us(arr)]
                r2 = [tuple(int(x) for x in v) for v in s.sample_with_us(arr)]
                res.count(("same-array", name, copula_name, h, L, R), kind="sample_with_us twice with the same array")
                if r1 != r2 or not np.array_equal(arr, keep):
                    viol(f"{name}: sample_with_us overwrites the caller's uniforms: a second call with the same array returns other states",
                         uniforms=[float(x) for x in keep], first=[list(x) for x in r1], second=[list(x) for x in r2], **ctx)

            # law
            one(top)
            hints = [float(c) for c in getattr(s, "_cumulative_probabilities", [])] + [float(c) for c in getattr(s, "_cum_ps", [])]
            lengths, _ = integrate_step_function(one, hints=hints, n0=256, top=1.0 if exact else top)
            res.count(("law-2d", name, copula_name, h, L, R, tuple(masses1), tuple(masses2)), kind=f"oracle-law-{name}")
            for st, pr in target.items():
                if abs(lengths.get(st, Fr(0)) - pr) > tol:
                    viol(f"{name} through the factory: total length of the uniforms sent to a state differs from mass(cell)/intensity",
                         state=list(st), length=float(lengths.get(st, Fr(0))), target=float(pr), **ctx)
                    break
            extra = [st for st, ln in lengths.items() if st not in target or (target[st] == 0 and ln > tol)]
            if extra:
                viol(f"{name} through the factory: origin / out-of-grid / zero-probability state has positive length", state=list(extra[0]), **ctx)

            # histories: two orders (INVERSION: also small _max_storage)
            storages = [None, 1, 2, 3, 5, 9, 12, 16, 20] if method == SM.INVERSION else [None]
            for M in storages:
                nd = rng.choice([3, 10, 30])
                seq = [rng.randrange(0, 1 << 30) / (1 << 30) for _ in range(nd)] + [0.875 + k / 64 for k in range(4)]
                if method == SM.INVERSION and exact and rng.random() < 0.6:
                    for extra_u in (1.25, 1.0625):          # above the sum: exhaustion, random frontier state
                        seq.insert(rng.randrange(len(seq) + 1), extra_u)
                outs, samplers, rows2 = [], [], []
                # wave 6: np.random.choice is an explicit input here too -- position cs[i] of the frontier deque for draw i (the
                # same position in both orders: the output is a function of (u, c) only, also on the exhaustion path)
                fr_len = len(s.state_manager.frontier_states_indices) if method == SM.INVERSION else 1
                cs = [rng.randrange(fr_len) for _ in seq]
                sums_to_one = sum(target.values()) == 1
                for order in (list(range(len(seq))), rng.sample(range(len(seq)), len(seq))):
                    s2 = mk()[0].sampling
                    if M is not None:
                        s2._max_storage = M
                    f2 = entry(s2)
                    got = {}
                    with ScriptedChoice() as ch2:
                        for i in order:
                            ch2.c, before = cs[i], ch2.calls
                            got[i] = f2(seq[i])
                            called = ch2.calls > before
                            if not outs:
                                rows2.append((seq[i], cs[i], called, got[i]))
                            res.count(("hist-2d", name, copula_name, h, L, R, M, seq[i], len(got)), kind=f"{name} sequence")
                            if method == SM.INVERSION and exact and sums_to_one and called != (seq[i] > 1.0):
                                viol(f"{name}: the frontier draw is (not) taken although the uniform is (not) above the sum of the probabilities",
                                     u=seq[i], got=list(got[i]), choice_called=called, **ctx)
                            if seq[i] > 1.0:
                                fr_idx2 = [int(ix) for ix in s2.state_manager.frontier_states_indices]
                                want = tuple(int(c_) for c_ in pz.project(fr_idx2[cs[i]]))
                                res.bump("inversion2d_exhaustion", "u above the sum")
                                res.bump("inversion2d_frontier_choice", cs[i])
                                if got[i] != want or got[i] == (0, 0) or got[i] not in target:
                                    viol(f"{name}: a uniform above the sum of the probabilities does not give the chosen frontier state of the grid",
                                         u=seq[i], got=list(got[i]), choice=cs[i], chosen_frontier_state=list(want), **ctx)
                            else:
                                check_state(got[i], seq[i], {"max_storage": M})
                    outs.append(got)
                    samplers.append(s2)
                res.bump("inversion2d_max_storage" if method == SM.INVERSION else "bstadapted2d_sequences", M)
                diff = [i for i in range(len(seq)) if outs[0][i] != outs[1][i]]
                if diff:
                    i = diff[0]
                    viol(f"{name}: the state returned for a uniform depends on the earlier draws", max_storage=M, sequence=seq, index=i, choices=cs,
                         first=list(outs[0][i]), second=list(outs[1][i]), **ctx)
                ref = {i: (one(seq[i]) if seq[i] <= 1.0 else outs[0][i]) for i in range(len(seq))}
                bad = [i for i in range(len(seq)) if outs[0][i] != ref[i]]
                if bad and M is not None:
                    i = bad[0]
                    viol(f"{name}: with a small _max_storage the state returned for a uniform differs from the one returned with the default storage",
                         max_storage=M, u=seq[i], got=list(outs[0][i]), with_default_storage=list(ref[i]), **ctx)
                if method == SM.INVERSION and M is not None:
                    # batch sample(size) with the lowered storage against the single-uniform entry point with the same storage
                    base = [rng.randrange(0, 1 << 30) / (1 << 30) for _ in range(10)] + [top, 0.5 + 2.0 ** -20]
                    for order_b in ("ascending", "descending", "shuffled"):
                        us_b = sorted(base) if order_b == "ascending" else sorted(base, reverse=True) if order_b == "descending" else rng.sample(base, len(base))
                        s4, s5 = mk()[0].sampling, mk()[0].sampling
                        s4._max_storage = M
                        s5._max_storage = M
                        orig_u = np.random.uniform
                        np.random.uniform = _scripted_uniforms(us_b)
                        try:
                            batch_b = [tuple(int(x) for x in v) for v in s4.sample(size=len(us_b))]
                        finally:
                            np.random.uniform = orig_u
                        f5 = entry(s5)
                        for u, o in zip(us_b, batch_b):
                            res.count(("inv2d-batch", copula_name, h, L, R, M, order_b, u), kind="InversionMethod-2d.sample (batch, lowered storage)")
                            if o != f5(u):
                                viol(f"{name}: batch sample() with a full storage and the single-uniform entry point disagree for the same uniform",
                                     max_storage=M, order=order_b, u=u, batch=list(o), single=list(f5(u)), **ctx)
                                break
                if method == SM.INVERSION and exact:
                    # wave 6: Model/InversionFrontierNd.v -- states as lists, the deque (IN ORDER) and max_frontier_indices of the
                    # implementation must be dom_nd's, every draw (u, c) must return exactly what inv_step_f returns
                    zl = lambda st_: lst([zlit(int(v_)) for v_ in st_])
                    tab = lst([f"({zl(st_)}, {qlit(pr)})" for st_, pr in sorted(target.items())])
                    draws = lst([f"({qlit(u_)}, {zlit(c_)}, {'true' if cl_ else 'false'}, {zl(o_)})" for u_, c_, cl_, o_ in rows2])
                    sm = samplers[0].state_manager
                    frl = lst([zlit(int(ix)) for ix in sm.frontier_states_indices])
                    final_cum = lst([qlit(float(c_)) for c_ in samplers[0]._cumulative_probabilities])
                    g_inv2.append(f"({lst([zlit(n), zlit(n)])}, {zlit(L)}, {zlit(int(sm.max_frontier_indices))}, {tab}, {zlit(1_000_000 if M is None else M)}, "
                                  f"{draws}, {final_cum}, ({zlit(int(sm._last_projected_index))}, {zlit(int(sm._last_logged_index))}), {frl})")
    groups.append(("inversion2d", "list Z * Z * Z * list (list Z * Q) * Z * list (Q * Z * bool * list Z) * list Q * (Z * Z) * list Z", "chk_invnd_f", g_inv2))


# ----------------------------------------------------------------------------- n-d adapted tree: exact tie + wider oracle
def build_table_chain(h, L, R, mass, method):
    """2-d chain on [-L*h, R*h]^2 whose Levy measure has a piecewise-constant density with the given cell masses
    (harness/stepmeasure.py Table2 + its own Levy copula): every rectangle mass is an exact dyadic float."""
    import warnings
    import stepmeasure as SMh
    from rpylib.grid.spatial import CTMCGrid
    from rpylib.process.markovchain.markovchainlevycopula import MarkovChainLevyCopula
    hq = Fr(h)
    axis = [k * hq for k in range(-L, R + 1)]
    n = len(axis)

    def bounds(k):
        return (axis[max(0, k - 1)] + axis[k]) / 2, (axis[k] + axis[min(n - 1, k + 1)]) / 2
    pieces = []
    for (i, j), m in mass.items():
        if m == 0:
            continue
        (a1, b1), (a2, b2) = bounds(i), bounds(j)
        xs = [a1, b1] if not (a1 < 0 < b1) else [a1, Fr(0), b1]
        ys = [a2, b2] if not (a2 < 0 < b2) else [a2, Fr(0), b2]
        dens = m / ((b1 - a1) * (b2 - a2))
        for x0, x1 in zip(xs, xs[1:]):
            for y0, y1 in zip(ys, ys[1:]):
                pieces.append((x0, x1, y0, y1, dens))
    model = SMh.table_copula_model(SMh.Table2(pieces), strict=False)
    grid = CTMCGrid(h=float(hq), origin_coordinate=L, axes=[np.array([float(x) for x in axis]), np.array([float(x) for x in axis])])
    with warnings.catch_warnings():
        warnings.simplefilter("ignore")
        proc = MarkovChainLevyCopula(model, grid, method)
    return proc, grid


def _bucket_case(sampler, dim, n, L):
    """(d, n, o, the implementation's bucket boxes, its is-cached-axis flags) for Model/BstAdaptedNd.v buckets / is_axis_bucket"""
    bks = lst([lst([f"({zlit(int(l_))}, {zlit(int(r_))})" for l_, r_ in bk]) for bk in sampler._buckets_coordinates])
    flags = lst(["true" if f_ else "false" for f_ in sampler._is_axis])
    return f"({dim}%nat, {zlit(n)}, {zlit(L)}, {bks}, {flags})"


def chain_nd_table(res, rng, groups, viol):
    """BINARYSEARCHTREEADAPTED (n-d) against Model/BstAdaptedNd.v, exactly: 2-d chains with arbitrary dyadic cell masses
    (mass in all four quadrants, on the axes, zeros), centred and non-centred grids; uniforms = every multiple of the
    mass unit -/+ one ulp (all break points) + random dyadics; the same array passed twice, two orders, batch."""
    from rpylib.distribution.sampling import SamplingMethod as SM
    tier = res.tier
    shapes = [(0.5, 1, 1), (0.5, 2, 2), (0.25, 3, 3), (0.5, 1, 3), (0.5, 3, 2)] if tier == "quick" else \
        [(0.5, 1, 1), (0.5, 2, 2), (0.25, 3, 3), (0.5, 1, 3), (0.5, 3, 2), (0.25, 5, 5), (0.25, 2, 6), (0.125, 8, 8)]
    g_nd, g_bk = [], []
    for (h, L, R) in shapes:
        n = L + R + 1
        for variant in ("generic", "sparse"):
            tot = 1 << 8
            cells = [(i, j) for i in range(n) for j in range(n) if (i, j) != (L, L)]
            ints = _composition(rng, tot, len(cells), zero_frac=0.0 if variant == "generic" else 0.6)
            mass = {c: Fr(v, tot) for c, v in zip(cells, ints)}
            ctx = dict(sampler="BINARYSEARCHTREEADAPTED-2d", copula="table", h=h, left=L, right=R,
                       masses=[[i - L, j - L, str(m)] for (i, j), m in mass.items() if m])
            try:
                proc, grid = build_table_chain(h, L, R, mass, SM.BINARYSEARCHTREEADAPTED)
            except Exception as e:  # noqa
                viol(f"factory raises {type(e).__name__} for a 2-d table-copula chain", error=str(e)[:200], **ctx)
                continue
            if Fr(float(proc.intensity_of_jumps)) != 1:
                res.broke("table chain intensity", f"{proc.intensity_of_jumps} != 1")
                continue
            s = proc.sampling
            g_bk.append(_bucket_case(s, 2, n, L))
            res.bump("chain_nd_table", f"[-{L},{R}]^2 {variant}")
            target = {(i - L, j - L): m for (i, j), m in mass.items()}
            us = {0.0, ulp_down(1.0)}
            for k in range(1, tot):
                b_ = k / tot
                us |= {b_, ulp_down(b_), ulp_up(b_)}
            us = pick(rng, sorted(us), 160 if tier == "quick" else 600) + [rng.randrange(0, 1 << 30) / (1 << 30) for _ in range(24)]
            outs = []
            arr = np.array(us, dtype=float)
            r1 = [tuple(int(x) for x in v) for v in s.sample_with_us(arr)]
            r2 = [tuple(int(x) for x in v) for v in s.sample_with_us(arr)]
            if r1 != r2 or not np.array_equal(arr, np.array(us, dtype=float)):
                viol("BINARYSEARCHTREEADAPTED-2d: sample_with_us overwrites the caller's uniforms: a second call with the same array returns other states",
                     uniforms=us[:8], **ctx)
            singles = [tuple(int(x) for x in s.sample_with_us(np.array([u], dtype=float))[0]) for u in reversed(us)][::-1]
            orig_u = np.random.uniform
            np.random.uniform = _scripted_uniforms(us)
            try:
                batch = [tuple(int(x) for x in v) for v in s.sample(size=len(us))]
            finally:
                np.random.uniform = orig_u
            for u, st, st1, st2 in zip(us, r1, singles, batch):
                res.count(("nd-table", h, L, R, variant, u), kind="BinarySearchTreeAdapted.sample_with_us (table copula)")
                if st1 != st or st2 != st:
                    viol("BINARYSEARCHTREEADAPTED-2d: the state for a uniform differs between one array call, single calls in another order and batch sample()",
                         u=u, array_call=list(st), single=list(st1), batch=list(st2), **ctx)
                    break
                if st == (0, 0) or st not in target:
                    viol("BINARYSEARCHTREEADAPTED-2d through the factory returns the origin or a state outside the grid", u=u, got=list(st), **ctx)
                elif target[st] == 0 and u == 0.0:
                    viol("BINARYSEARCHTREEADAPTED-2d: the uniform 0.0 is sent to a state of probability zero", finding="F-C02-6", u=u, got=list(st),
                         first_enumerated_state=[0, -L], probability_of_got="0", **ctx)
                elif target[st] == 0:
                    viol("BINARYSEARCHTREEADAPTED-2d through the factory returns a zero-probability state", u=u, got=list(st), **ctx)
                outs.append((u, st))
            # exact law
            one = lambda u: tuple(int(x) for x in s.sample_with_us(np.array([u], dtype=float))[0])
            lengths, _ = integrate_step_function(one, hints=[k / tot for k in range(1, tot)], n0=64)
            res.count(("nd-table-law", h, L, R, variant), kind="oracle-law-BINARYSEARCHTREEADAPTED-2d-table")
            badl = [st for st, pr in target.items() if lengths.get(st, Fr(0)) != pr]
            if badl or set(lengths) - set(target):
                st = (badl or list(set(lengths) - set(target)))[0]
                viol("BINARYSEARCHTREEADAPTED-2d: total length of the uniforms sent to a state differs from mass(cell)/intensity",
                     state=list(st), length=float(lengths.get(st, Fr(0))), target=float(target.get(st, 0)), **ctx)
            tab = lst([f"({lst([zlit(i), zlit(j)])}, {qlit(m)})" for (i, j), m in sorted(mass.items()) if m])
            draws = lst([f"({qlit(u)}, {lst([zlit(st[0]), zlit(st[1])])})" for u, st in outs])
            g_nd.append(f"(2%nat, {zlit(n)}, {zlit(L)}, {tab}, {draws})")

    # ---- rpylib's own copulas (independent / completely dependent), d = 2 and d = 3, exact when the intensity is a power of two
    import itertools
    import warnings
    from c02_stepmodel import C02StepModel, measure_from_cell_masses
    from rpylib.grid.spatial import CTMCGrid
    from rpylib.distribution import levycopula as LC
    from rpylib.model.levycopulamodel import LevyCopulaModel
    from rpylib.process.markovchain.markovchainlevycopula import MarkovChainLevyCopula
    real = [("independent", 2, 0.5, 2, 2, (2, 2)), ("independent", 3, 0.5, 1, 1, (2, 4, 4)), ("independent", 2, 0.5, 1, 3, (2, 2)),
            ("dependent", 2, 0.5, 2, 2, None), ("independent", 3, 0.5, 1, 2, (4, 4, 2))]
    if tier != "quick":
        real += [("independent", 3, 0.25, 2, 2, (2, 4, 4)), ("dependent", 3, 0.5, 1, 1, None), ("independent", 2, 0.25, 4, 4, (2, 2))]
    for cop, dim, h, L, R, shares in real:
        n = L + R + 1
        tot = 1 << 8
        margins = []
        base = _composition(rng, tot, n - 1, zero_frac=rng.choice([0.0, 0.25]))
        for j in range(dim):
            ints = base if cop == "dependent" else _composition(rng, tot, n - 1, zero_frac=rng.choice([0.0, 0.25]))
            share = Fr(1) if shares is None else Fr(1, shares[j])
            margins.append([Fr(v, tot) * share for v in ints[:L] + [0] + ints[L:]])
        ctx = dict(sampler=f"BINARYSEARCHTREEADAPTED-{dim}d", copula=cop, h=h, left=L, right=R, margins=[[str(m) for m in mm] for mm in margins])

        def mk():
            axis = np.array([k * h for k in range(-L, R + 1)], dtype=float)
            grid = CTMCGrid(h=h, origin_coordinate=L, axes=[axis.copy() for _ in range(dim)])
            models = [C02StepModel(measure_from_cell_masses(axis, L, mm)) for mm in margins]
            copula = LC.IndependentComponentsCopula() if cop == "independent" else LC.DependentComponentsCopula()
            with warnings.catch_warnings():
                warnings.simplefilter("ignore")
                return MarkovChainLevyCopula(LevyCopulaModel(models, copula), grid, SM.BINARYSEARCHTREEADAPTED), grid
        try:
            proc, grid = mk()
        except Exception as e:  # noqa
            viol(f"factory raises {type(e).__name__} for a {dim}-d {cop} chain with SamplingMethod.BINARYSEARCHTREEADAPTED", error=str(e)[:200], **ctx)
            continue
        g_bk.append(_bucket_case(proc.sampling, dim, n, L))
        res.count(("buckets", cop, dim, n, L), kind="bucket classification (is_axis flags)")
        lam = Fr(float(proc.intensity_of_jumps))
        o = grid.origin_coordinate
        cellp = {}
        for st in itertools.product(range(n), repeat=dim):
            if all(c_ == L for c_ in st):
                continue
            c = o + tuple(c_ - L for c_ in st)
            v = grid[c]
            a = grid.middle(grid.left_point(c), v)
            b = grid.middle(v, grid.right_point(c))
            cellp[st] = Fr(float(proc.model.mass(a, b))) / lam
        exact = lam.numerator & (lam.numerator - 1) == 0 and lam.denominator & (lam.denominator - 1) == 0 and sum(cellp.values()) == 1 \
            and all(v >= 0 and v.denominator & (v.denominator - 1) == 0 for v in cellp.values())
        res.bump("chain_nd_real", f"{cop} {dim}d [-{L},{R}] {'exact' if exact else 'inexact: oracle only'}")
        if not exact:
            continue
        s = proc.sampling
        unit = max(v.denominator for v in cellp.values())
        us = {0.0, ulp_down(1.0)}
        for k in pick(rng, range(1, unit), 80):
            b_ = k / unit
            us |= {b_, ulp_down(b_), ulp_up(b_)}
        us = sorted(us) + [rng.randrange(0, 1 << 30) / (1 << 30) for _ in range(24)]
        outs = []
        for u in us:
            st = tuple(int(x) for x in s.sample_with_us(np.array([u], dtype=float))[0])
            res.count(("nd-real", cop, dim, h, L, R, u), kind=f"BinarySearchTreeAdapted.sample_with_us ({cop} {dim}d)")
            key = tuple(c_ + L for c_ in st)
            if not any(st) or key not in cellp:
                viol(f"BINARYSEARCHTREEADAPTED-{dim}d through the factory returns the origin or a state outside the grid", u=u, got=list(st), **ctx)
            elif cellp[key] == 0 and u == 0.0:
                viol(f"BINARYSEARCHTREEADAPTED-{dim}d: the uniform 0.0 is sent to a state of probability zero", finding="F-C02-6", u=u, got=list(st),
                     first_enumerated_state=[0] * (dim - 1) + [-L], probability_of_got="0", **ctx)
            elif cellp[key] == 0:
                viol(f"BINARYSEARCHTREEADAPTED-{dim}d through the factory returns a zero-probability state", u=u, got=list(st), **ctx)
            outs.append((u, st))
        tab = lst([f"({lst([zlit(c_) for c_ in cell])}, {qlit(m)})" for cell, m in sorted(cellp.items()) if m])
        draws = lst([f"({qlit(u)}, {lst([zlit(c_) for c_ in st])})" for u, st in outs])
        g_nd.append(f"({dim}%nat, {zlit(n)}, {zlit(L)}, {tab}, {draws})")
    # Clayton chains are not exact, but their bucket lists and cached-axis flags are compared all the same (d = 2, 3)
    for dim, L, R in ((3, 1, 1), (3, 2, 2), (2, 3, 3), (3, 2, 1)):
        n = L + R + 1
        axis = np.array([k * 0.5 for k in range(-L, R + 1)], dtype=float)
        mm = [Fr(1, 2 * (n - 1))] * L + [Fr(0)] + [Fr(1, 2 * (n - 1))] * R
        try:
            with warnings.catch_warnings():
                warnings.simplefilter("ignore")
                pr = MarkovChainLevyCopula(LevyCopulaModel([C02StepModel(measure_from_cell_masses(axis, L, mm)) for _ in range(dim)],
                                                           LC.ClaytonCopula(theta=0.7, eta=0.3)),
                                           CTMCGrid(h=0.5, origin_coordinate=L, axes=[axis.copy() for _ in range(dim)]), SM.BINARYSEARCHTREEADAPTED)
            g_bk.append(_bucket_case(pr.sampling, dim, n, L))
            res.count(("buckets", "clayton", dim, n, L), kind="bucket classification (is_axis flags)")
        except Exception as e:  # noqa
            viol(f"factory raises {type(e).__name__} for a {dim}-d Clayton chain with SamplingMethod.BINARYSEARCHTREEADAPTED", error=str(e)[:200], left=L, right=R)
    groups.append(("bstadaptednd", "nat * Z * Z * list (list Z * Q) * list (Q * list Z)", "chk_nd", g_nd))
    groups.append(("ndbuckets", "nat * Z * Z * list (list (Z * Z)) * list bool", "chk_buckets", g_bk))


# ----------------------------------------------------------------------------- wave 6: 3-d adapted tree on density tables, exact
def build_table_chain_nd(h, L, R, mass, method, dim=3):
    """dim-d chain on [-L*h, R*h]^dim whose Levy measure has a piecewise-constant density with the given cell masses
    (harness/c01_table3.py TableN + its own Levy copula; cells straddling a coordinate plane are split at 0 so that every piece
    lies in one closed orthant): every box mass is an exact dyadic float, mass in all octants / on the planes / on the axes."""
    import itertools
    import warnings
    from c01_table3 import TableN, table_copula_model_nd
    from rpylib.grid.spatial import CTMCGrid
    from rpylib.process.markovchain.markovchainlevycopula import MarkovChainLevyCopula
    hq = Fr(h)
    axis = [k * hq for k in range(-L, R + 1)]
    n = len(axis)

    def bounds(k):
        return (axis[max(0, k - 1)] + axis[k]) / 2, (axis[k] + axis[min(n - 1, k + 1)]) / 2
    pieces = []
    for cell, m in mass.items():
        if m == 0:
            continue
        bs = [bounds(k) for k in cell]
        vol = Fr(1)
        for a, b in bs:
            vol *= b - a
        splits = [[a, b] if not (a < 0 < b) else [a, Fr(0), b] for a, b in bs]
        for combo in itertools.product(*[list(zip(x, x[1:])) for x in splits]):
            pieces.append(tuple(v for lo_hi in combo for v in lo_hi) + (m / vol,))
    model = table_copula_model_nd(TableN(pieces, dim), strict=False)
    grid = CTMCGrid(h=float(hq), origin_coordinate=L, axes=[np.array([float(x) for x in axis]) for _ in range(dim)])
    with warnings.catch_warnings():
        warnings.simplefilter("ignore")
        proc = MarkovChainLevyCopula(model, grid, method)
    return proc, grid


def chain_3d_table(res, rng, groups, viol):
    """BINARYSEARCHTREEADAPTED in d = 3 against Model/BstAdaptedNd.v, EXACTLY: chains built by the public factory on 3-d density
    tables with arbitrary dyadic cell masses (all octants, coordinate planes, axes, zeros; 26 buckets, 0 / 6 / 12 of them -- depending on the shape -- served from
    the cached axis vectors, the others by the axis-cycling bisection over 3 axes), centred and non-centred grids; uniforms = multiples
    of the mass unit -/+ one ulp + random dyadics; one array call, single calls in reverse order, batch sample(); exact law."""
    import itertools
    from rpylib.distribution.sampling import SamplingMethod as SM
    tier = res.tier
    shapes = [(0.5, 1, 1), (0.5, 1, 2), (0.5, 2, 2)] if tier == "quick" else [(0.5, 1, 1), (0.5, 1, 2), (0.5, 2, 2), (0.5, 2, 1), (0.25, 3, 3), (0.5, 2, 3)]
    g_nd, g_bk = [], []
    name = "BINARYSEARCHTREEADAPTED-3d"
    for (h, L, R) in shapes:
        n = L + R + 1
        for variant in ("generic", "sparse"):
            tot = 1 << 8
            cells = [c for c in itertools.product(range(n), repeat=3) if c != (L, L, L)]
            ints = _composition(rng, tot, len(cells), zero_frac=0.0 if variant == "generic" else 0.6)
            mass = {c: Fr(v, tot) for c, v in zip(cells, ints)}
            ctx = dict(sampler=name, copula="table3", h=h, left=L, right=R,
                       masses=[[c[0] - L, c[1] - L, c[2] - L, str(m)] for c, m in mass.items() if m])
            try:
                proc, grid = build_table_chain_nd(h, L, R, mass, SM.BINARYSEARCHTREEADAPTED)
            except Exception as e:  # noqa
                viol(f"factory raises {type(e).__name__} for a 3-d table-copula chain", error=str(e)[:200], **ctx)
                continue
            if Fr(float(proc.intensity_of_jumps)) != 1:
                res.broke("3-d table chain intensity", f"{proc.intensity_of_jumps} != 1")
                continue
            s = proc.sampling
            g_bk.append(_bucket_case(s, 3, n, L))
            res.count(("buckets", "table3", 3, n, L, variant), kind="bucket classification (is_axis flags)")
            res.bump("chain_3d_table", f"[-{L},{R}]^3 {variant}")
            res.bump("chain_3d_table_cached_buckets", sum(1 for f_ in s._is_axis if f_))
            target = {tuple(c_ - L for c_ in c): m for c, m in mass.items()}
            us = {0.0, ulp_down(1.0)}
            for k in range(1, tot):
                b_ = k / tot
                us |= {b_, ulp_down(b_), ulp_up(b_)}
            us = pick(rng, sorted(us), 110 if tier == "quick" else 400) + [rng.randrange(0, 1 << 30) / (1 << 30) for _ in range(16)]
            arr = np.array(us, dtype=float)
            r1 = [tuple(int(x) for x in v) for v in s.sample_with_us(arr)]
            if not np.array_equal(arr, np.array(us, dtype=float)):
                viol(f"{name}: sample_with_us overwrites the caller's uniforms", uniforms=us[:8], **ctx)
            singles = [tuple(int(x) for x in s.sample_with_us(np.array([u], dtype=float))[0]) for u in reversed(us)][::-1]
            orig_u = np.random.uniform
            np.random.uniform = _scripted_uniforms(us)
            try:
                batch = [tuple(int(x) for x in v) for v in s.sample(size=len(us))]
            finally:
                np.random.uniform = orig_u
            outs = []
            for u, st, st1, st2 in zip(us, r1, singles, batch):
                res.count(("3d-table", h, L, R, variant, u), kind="BinarySearchTreeAdapted.sample_with_us (3-d table copula)")
                if st1 != st or st2 != st:
                    viol(f"{name}: the state for a uniform differs between one array call, single calls in another order and batch sample()",
                         u=u, array_call=list(st), single=list(st1), batch=list(st2), **ctx)
                    break
                if st == (0, 0, 0) or st not in target:
                    viol(f"{name} through the factory returns the origin or a state outside the grid", u=u, got=list(st), **ctx)
                elif target[st] == 0 and u == 0.0:
                    viol(f"{name}: the uniform 0.0 is sent to a state of probability zero", finding="F-C02-6", u=u, got=list(st),
                         first_enumerated_state=[0, 0, -L], probability_of_got="0", **ctx)
                elif target[st] == 0:
                    viol(f"{name} through the factory returns a zero-probability state", u=u, got=list(st), **ctx)
                outs.append((u, st))
            # exact law: every u = k/tot - one ulp identifies the cell owning ((k-1)/tot, k/tot]; the count per cell must be its mass
            owners = {}
            for k in range(1, tot + 1):
                st = tuple(int(x) for x in s.sample_with_us(np.array([ulp_down(k / tot)], dtype=float))[0])
                owners[st] = owners.get(st, 0) + 1
            res.count(("3d-table-law", h, L, R, variant), kind="oracle-law-BINARYSEARCHTREEADAPTED-3d-table")
            badl = [st for st, pr in target.items() if Fr(owners.get(st, 0), tot) != pr] + [st for st in owners if st not in target]
            if badl:
                st = badl[0]
                viol(f"{name}: total length of the uniforms sent to a state differs from mass(cell)/intensity",
                     state=list(st), length=owners.get(st, 0) / tot, target=float(target.get(st, 0)), **ctx)
            tab = lst([f"({lst([zlit(c_) for c_ in c])}, {qlit(m)})" for c, m in sorted(mass.items()) if m])
            draws = lst([f"({qlit(u)}, {lst([zlit(c_) for c_ in st])})" for u, st in outs])
            g_nd.append(f"(3%nat, {zlit(n)}, {zlit(L)}, {tab}, {draws})")
    groups.append(("bstadapted3d", "nat * Z * Z * list (list Z * Q) * list (Q * list Z)", "chk_nd", g_nd))
    groups.append(("ndbuckets3d", "nat * Z * Z * list (list (Z * Z)) * list bool", "chk_buckets", g_bk))


def chain_nd_inversion_factory(res, groups, viol):
    """wave 8 (audit 5a B11 / A1): the n-d INVERSION sampler of the factory with the enumeration the factory REALLY picks
    (Szudzik for d = 2, Rosenberg-Strong for d = 3: Model/InversionFrontierFactory.v fac_project / frfac / maxffac), tied EXACTLY in
    d = 3 on density tables with dyadic cell masses and intensity 1: the implementation's deque IN ORDER, max_frontier_indices, every
    draw of a scripted history (uniforms below the sum and above it, position of np.random.choice scripted, was it called?), the
    final cumulative sums and the StatesManager state, for the default and for small _max_storage.
    Second part, implementation-only oracle on ROUNDED probabilities (intensity 3, d = 2 and d = 3, every end point of a line along
    the last axis has positive mass): for u = 1 - 2^-53 and every position c of the deque the frontier draw is taken iff u exceeds the
    float sum, and the state is project(deque[c]): in the grid, not the origin, of positive probability.  Own random stream."""
    import itertools
    from rpylib.distribution.sampling import SamplingMethod as SM
    from rpylib.distribution import pairing as P
    rng = random.Random(res.seed * 7919 + 18)
    tier = res.tier
    name = "INVERSION-3d"
    zl = lambda st_: lst([zlit(int(v_)) for v_ in st_])
    g_fac = []
    shapes = [(0.5, 1, 1), (0.5, 1, 2), (0.5, 2, 2)] if tier == "quick" else [(0.5, 1, 1), (0.5, 1, 2), (0.5, 2, 2), (0.5, 2, 1), (0.25, 3, 3), (0.5, 2, 3)]
    for (h, L, R), variant in itertools.product(shapes, ("generic", "sparse")):
        n = L + R + 1
        if tier == "quick" and n >= 5 and variant == "sparse":
            continue                                         # quick tier: the 5 x 5 x 5 grid once (a pass over its 124 states costs ~1 s)
        tot = 1 << 8
        cells = [c for c in itertools.product(range(n), repeat=3) if c != (L, L, L)]
        ints = _composition(rng, tot, len(cells), zero_frac=0.0 if variant == "generic" else 0.6)
        mass = {c: Fr(v, tot) for c, v in zip(cells, ints)}
        ctx = dict(sampler=name, copula="table3", h=h, left=L, right=R, masses=[[c[0] - L, c[1] - L, c[2] - L, str(m)] for c, m in mass.items() if m])
        mk = lambda: build_table_chain_nd(h, L, R, mass, SM.INVERSION)[0].sampling
        try:
            s = mk()
        except Exception as e:  # noqa
            viol(f"factory raises {type(e).__name__} for a 3-d table-copula chain with SamplingMethod.INVERSION", error=str(e)[:200], **ctx)
            continue
        pz = s.state_manager.pairing
        if not isinstance(pz.n_pairing, P.RosenbergStrong):
            res.broke("factory pairing in d = 3", f"{type(pz.n_pairing).__name__} is not RosenbergStrong: Model/InversionFrontierFactory.v fac_pair no longer follows the code")
            continue
        res.bump("inversion3d", f"[-{L},{R}]^3 {variant}")
        target = {tuple(c_ - L for c_ in c): m for c, m in mass.items()}
        # a draw with a small _max_storage recomputes the probabilities up to the state it returns (3-d table masses: ~1 s to the top of
        # 124 states): small storages on the 3 x 3 x 3 grids (quick), short sequences on the larger ones
        storages = [None] + (([2, 7] if n == 3 else [7] if n == 4 and variant == "generic" else []) if tier == "quick" else ([1, 2, 7, 20] if n <= 4 else [7]))
        for M in storages:
            nrand = rng.choice([6, 14]) if M is None or n == 3 else 2
            seq = [rng.randrange(0, 1 << 30) / (1 << 30) for _ in range(nrand)] + ([0.875 + k / 64 for k in range(4)] if M is None or n == 3 else []) + [0.0, ulp_down(1.0), 1.0]
            for extra_u in (1.25, 1.0625, 1.0 + 2.0 ** -40):          # above the sum: exhaustion, random frontier state
                seq.insert(rng.randrange(len(seq) + 1), extra_u)
            fr_len = len(s.state_manager.frontier_states_indices)
            cs = [rng.randrange(fr_len) for _ in seq]
            outs, rows, smp0 = [], [], None
            for order in (list(range(len(seq))), rng.sample(range(len(seq)), len(seq))):
                s2 = mk()
                if M is not None:
                    s2._max_storage = M
                got = {}
                with ScriptedChoice() as ch:
                    for i in order:
                        ch.c, before = cs[i], ch.calls
                        got[i] = tuple(int(x) for x in s2.sample_with_u(seq[i]))
                        called = ch.calls > before
                        if not outs:
                            rows.append((seq[i], cs[i], called, got[i]))
                        res.count(("hist-3d", name, h, L, R, variant, M, seq[i], len(got)), kind=f"{name} sequence (Rosenberg-Strong deque in the model)")
                        if called != (seq[i] > 1.0):
                            viol(f"{name}: the frontier draw is (not) taken although the uniform is (not) above the sum of the probabilities",
                                 u=seq[i], got=list(got[i]), choice_called=called, max_storage=M, **ctx)
                        if seq[i] > 1.0:
                            fr_idx = [int(ix) for ix in s2.state_manager.frontier_states_indices]
                            want = tuple(int(c_) for c_ in pz.project(fr_idx[cs[i]]))
                            res.bump("inversion3d_frontier_choice", cs[i])
                            if got[i] != want or got[i] == (0, 0, 0) or got[i] not in target:
                                viol(f"{name}: a uniform above the sum of the probabilities does not give the chosen frontier state of the grid",
                                     u=seq[i], got=list(got[i]), choice=cs[i], chosen_frontier_state=list(want), max_storage=M, **ctx)
                        elif got[i] == (0, 0, 0) or got[i] not in target:
                            viol(f"{name} through the factory returns the origin or a state outside the grid", u=seq[i], got=list(got[i]), max_storage=M, **ctx)
                        elif target[got[i]] == 0 and seq[i] == 0.0:
                            viol(f"{name}: the uniform 0.0 is sent to a state of probability zero", finding="F-C02-6", u=seq[i], got=list(got[i]),
                                 first_enumerated_state=list(got[i]) if got[i] == tuple(int(c_) for c_ in pz.project(0)) else None, probability_of_got="0", **ctx)
                        elif target[got[i]] == 0:
                            viol(f"{name} through the factory returns a zero-probability state", u=seq[i], got=list(got[i]), max_storage=M, **ctx)
                outs.append(got)
                smp0 = smp0 or s2
            diff = [i for i in range(len(seq)) if outs[0][i] != outs[1][i]]
            if diff:
                i = diff[0]
                viol(f"{name}: the state returned for a uniform depends on the earlier draws", max_storage=M, sequence=seq, index=i, choices=cs,
                     first=list(outs[0][i]), second=list(outs[1][i]), **ctx)
            sm = smp0.state_manager
            tab = lst([f"({zl(st_)}, {qlit(pr)})" for st_, pr in sorted(target.items()) if pr])
            draws = lst([f"({qlit(u_)}, {zlit(c_)}, {'true' if cl_ else 'false'}, {zl(o_)})" for u_, c_, cl_, o_ in rows])
            frl = lst([zlit(int(ix)) for ix in sm.frontier_states_indices])
            final_cum = lst([qlit(float(c_)) for c_ in smp0._cumulative_probabilities])
            g_fac.append(f"({lst([zlit(n)] * 3)}, {zlit(L)}, {zlit(int(sm.max_frontier_indices))}, {tab}, {zlit(1_000_000 if M is None else M)}, "
                         f"{draws}, {final_cum}, ({zlit(int(sm._last_projected_index))}, {zlit(int(sm._last_logged_index))}), {frl})")
    groups.append(("inversion3d", "list Z * Z * Z * list (list Z * Q) * Z * list (Q * Z * bool * list Z) * list Q * (Z * Z) * list Z", "chk_invfac_f", g_fac))

    # ---- rounded probabilities in d = 2 and d = 3: the exhaustion path on a FLOAT run (audit 5a A1: never observed in n-d before) ----
    u = ulp_down(1.0)
    for dim, (h, L, R) in [(2, (0.5, 1, 1)), (2, (0.5, 1, 2)), (2, (0.25, 3, 3)), (3, (0.5, 1, 1)), (3, (0.5, 1, 2))] + ([] if tier == "quick" else [(2, (0.25, 4, 2)), (3, (0.5, 2, 2))]):
        n = L + R + 1
        cells = [c for c in itertools.product(range(n), repeat=dim) if c != (L,) * dim]
        ends = [c for c in cells if c[-1] in (0, n - 1)]
        proc = None
        for attempt in range(10 if dim == 2 else 4):         # tables are redrawn until the float sum ends below 1 - 2^-53 (else the last is kept)
            lam_i = rng.choice([3, 5, 7])
            tot = lam_i << 8                                 # total mass 3, 5 or 7: intensity not a power of two, mass / intensity is rounded
            ints = _composition(rng, tot - len(ends), len(cells), zero_frac=0.3)
            mass = {c: Fr(v + (1 if c in ends else 0), 1 << 8) for c, v in zip(cells, ints)}
            ctx = dict(sampler=f"INVERSION-{dim}d", copula=f"table{dim}", h=h, left=L, right=R, masses=[[*(c_ - L for c_ in c), str(m)] for c, m in mass.items() if m])
            mkr = lambda: build_table_chain_nd(h, L, R, mass, SM.INVERSION, dim=dim)
            try:
                proc, _ = mkr()
                with ScriptedChoice():
                    proc.sampling.sample_with_u(u)
            except Exception as e:  # noqa
                viol(f"factory / first draw raises {type(e).__name__} for a {dim}-d table-copula chain with SamplingMethod.INVERSION", error=str(e)[:200], **ctx)
                proc = None
                break
            if float(proc.sampling._cumulative_probabilities[-1]) < u:
                break
        if proc is None:
            continue
        if Fr(float(proc.intensity_of_jumps)) != lam_i:
            res.broke(f"{dim}-d rounded table chain intensity", f"{proc.intensity_of_jumps} != {lam_i}")
            continue
        s = proc.sampling
        target = {tuple(c_ - L for c_ in c): m for c, m in mass.items()}
        fr_idx = [int(ix) for ix in s.state_manager.frontier_states_indices]
        if len(fr_idx) != 2 * n ** (dim - 1):
            viol(f"INVERSION-{dim}d: the frontier deque does not hold the two end points of every line along the last axis", deque=fr_idx, **ctx)
        fresh_at = {0, len(fr_idx) - 1, rng.randrange(len(fr_idx)), rng.randrange(len(fr_idx))}     # a fresh sampler at 2-4 positions, the warm one at all
        for c in range(len(fr_idx)):
            for smp in ((mkr()[0].sampling, s) if c in fresh_at else (s,)):
                with ScriptedChoice() as ch:
                    ch.c = c
                    oc = tuple(int(x) for x in smp.sample_with_u(u))
                top = float(smp._cumulative_probabilities[-1])
                res.count(("float-sum-frontier-nd", dim, h, L, R, c, smp is s), kind=f"INVERSION-{dim}d at 1 - 2^-53 (rounded probabilities), frontier choice scripted")
                res.bump(f"float_sum_nd_{dim}d", "u above the float sum" if top < u else "u at or below the float sum")
                want = tuple(int(c_) for c_ in smp.state_manager.pairing.project(fr_idx[c]))
                if ch.calls != (1 if top < u else 0):
                    viol(f"INVERSION-{dim}d: the frontier draw is taken iff the uniform exceeds the float sum of the probabilities -- not so",
                         u=u, float_sum=top, got=list(oc), choice=c, choice_calls=ch.calls, **ctx)
                elif ch.calls and (oc != want or oc == (0,) * dim or oc not in target or want[-1] not in (-L, R)):
                    viol(f"INVERSION-{dim}d: on exhaustion (rounded probabilities) the state returned is not the chosen frontier state of the grid",
                         u=u, float_sum=top, got=list(oc), choice=c, chosen_frontier_state=list(want), **ctx)
                elif oc == (0,) * dim or oc not in target or target[oc] == 0:
                    viol(f"INVERSION-{dim}d: the uniform 1 - 2^-53 gives the origin, a zero-probability state or a state outside the grid (rounded probabilities)",
                         u=u, float_sum=top, got=list(oc), choice=c, choice_calls=ch.calls, **ctx)


def chain_nd_wide(res, rng, viol):
    """implementation-only oracle on wider n-d chains: Clayton copula in 2-d (tolerance), a 3-d independent-copula chain,
    larger grids in the thorough tier; INVERSION and BINARYSEARCHTREEADAPTED: law against mass(cell)/intensity of the
    chain's own model, no origin / out-of-grid state, two orders."""
    import itertools
    import warnings
    from c02_stepmodel import C02StepModel, measure_from_cell_masses
    from rpylib.grid.spatial import CTMCGrid
    from rpylib.distribution import levycopula as LC
    from rpylib.distribution.sampling import SamplingMethod as SM
    from rpylib.model.levycopulamodel import LevyCopulaModel
    from rpylib.process.markovchain.markovchainlevycopula import MarkovChainLevyCopula
    tier = res.tier
    cases = [("clayton", 2, 0.5, 2, 2), ("clayton", 2, 0.5, 1, 3), ("independent", 3, 0.5, 1, 1),
             ("clayton", 3, 0.5, 1, 1), ("dependent", 3, 0.5, 1, 1), ("clayton", 3, 0.5, 2, 2), ("dependent", 3, 0.5, 2, 1)]
    if tier != "quick":
        cases += [("clayton", 2, 0.25, 5, 5), ("independent", 3, 0.5, 2, 2), ("dependent", 3, 0.5, 1, 1), ("clayton", 2, 0.25, 3, 6)]
    for cop, dim, h, L, R in cases:
        n = L + R + 1
        tot = 1 << 8
        margins = []
        for _ in range(dim):
            ints = _composition(rng, tot, n - 1, zero_frac=0.0)
            margins.append([Fr(v, tot) for v in ints[:L] + [0] + ints[L:]])
        for method in (SM.INVERSION, SM.BINARYSEARCHTREEADAPTED):
            name = f"{method.name}-{dim}d"
            ctx = dict(sampler=name, copula=cop, h=h, left=L, right=R, margins=[[str(m) for m in mm] for mm in margins])

            def mk():
                axis = np.array([k * h for k in range(-L, R + 1)], dtype=float)
                grid = CTMCGrid(h=h, origin_coordinate=L, axes=[axis.copy() for _ in range(dim)])
                models = [C02StepModel(measure_from_cell_masses(axis, L, mm)) for mm in margins]
                copula = {"independent": LC.IndependentComponentsCopula, "dependent": LC.DependentComponentsCopula}.get(cop)
                copula = copula() if copula else LC.ClaytonCopula(theta=0.7, eta=0.3)
                with warnings.catch_warnings():
                    warnings.simplefilter("ignore")
                    return MarkovChainLevyCopula(LevyCopulaModel(models, copula), grid, method), grid
            try:
                proc, grid = mk()
            except Exception as e:  # noqa
                viol(f"factory raises {type(e).__name__} for a {dim}-d {cop} chain with SamplingMethod.{method.name}", error=str(e)[:200], **ctx)
                continue
            s = proc.sampling
            lam = float(proc.intensity_of_jumps)
            o = grid.origin_coordinate
            target = {}
            for st in itertools.product(range(-L, R + 1), repeat=dim):
                if not any(st):
                    continue
                c = o + st
                v = grid[c]
                a = grid.middle(grid.left_point(c), v)
                b = grid.middle(v, grid.right_point(c))
                target[st] = max(float(proc.model.mass(a, b)), 0.0) / lam
            tsum = sum(target.values())
            res.bump("chain_nd_wide", f"{cop} {dim}d [-{L},{R}]")
            if abs(tsum - 1) > 1e-6:
                res.notes.append(f"{dim}-d {cop} chain [-{L},{R}]: cell masses / intensity sum to {tsum} (C01/C12 matter); law compared on [0, sum)")
            ent = (lambda smp: (lambda u: tuple(int(x) for x in smp.sample_with_u(u)))) if method == SM.INVERSION else \
                (lambda smp: (lambda u: tuple(int(x) for x in smp.sample_with_us(np.array([u], dtype=float))[0])))
            one = ent(s)
            top = min(1.0, tsum) * (1 - 1e-9)
            one(top)
            hints = [float(c) for c in getattr(s, "_cumulative_probabilities", [])] + [float(c) for c in getattr(s, "_cum_ps", [])]
            try:
                lengths, _ = integrate_step_function(one, hints=hints, n0=512, top=top)
            except RuntimeError as e:
                viol(f"{name}: the sampler is not a step function of the uniform with few pieces", error=str(e), **ctx)
                continue
            res.count(("law-wide", name, cop, h, L, R), kind=f"oracle-law-{name}-{cop}")
            for st, pr in target.items():
                if abs(float(lengths.get(st, Fr(0))) - pr) > 1e-6:
                    viol(f"{name} through the factory: total length of the uniforms sent to a state differs from mass(cell)/intensity",
                         state=list(st), length=float(lengths.get(st, Fr(0))), target=pr, **ctx)
                    break
            extra = [st for st, ln in lengths.items() if st not in target or (target[st] == 0 and ln > 1e-9)]
            if extra:
                viol(f"{name} through the factory: origin / out-of-grid / zero-probability state has positive length", state=list(extra[0]), **ctx)
            seq = [rng.random() * top for _ in range(20)]
            a1 = [one(u) for u in seq]
            f2 = ent(mk()[0].sampling)
            a2 = [f2(u) for u in reversed(seq)][::-1]
            for u, x1, x2 in zip(seq, a1, a2):
                res.count(("wide-seq", name, cop, h, L, R, u), kind=f"{name} sequence ({cop})")
                if x1 != x2:
                    viol(f"{name}: the state returned for a uniform depends on the earlier draws", u=u, first=list(x1), second=list(x2), **ctx)
                    break


# ----------------------------------------------------------------------------- Coq header (check functions)
HEADER = r"""
From Coq Require Import List ZArith QArith Qabs Bool.
From RV Require Import Proofs.C02_Alias.
From RV Require Import Base.QB Base.Corr Gen.GenPairing Model.Pairing Model.StepLaw Model.Bst Model.Alias Model.Huffman Model.Table Model.StatesManager Model.Inversion Model.BstAdapted Model.Factory Model.BstAdaptedNd Model.Stateful Model.Domain Model.InversionFrontier Model.InversionFrontierNd Model.InversionFrontierFactory.
Import ListNotations.
Open Scope Q_scope.

Definition all_draws (f : Q -> Z) (l : list (Q * Z)) : bool := forallb (fun c => Z.eqb (f (fst c)) (snd c)) l.
Definition znat_eqb (a : list nat) (b : list Z) : bool := zlist_eqb (map Z.of_nat a) b.

Definition chk_alias (c : list Q * (list Z * list Q) * list (Q * Z)) : bool :=
  let '(p, (J, q), draws) := c in
  let t := create_alias p in
  znat_eqb (fst t) J && qlist_eqb (snd t) q
  && all_draws (fun u => Z.of_nat (alias_draw (length p) (snd t) (fst t) u)) draws.

Definition chk_bst (c : list Q * list Q * list (Q * Z)) : bool :=
  let '(p, arr, draws) := c in
  match create_bst p with
  | Some b => qlist_eqb b arr && all_draws (bst_sample (length p - 1) b) draws
  | None => false
  end.

Definition zq_eqb (a b : Z * Q) : bool := Z.eqb (fst a) (fst b) && Qeq_bool (snd a) (snd b).
Definition chk_huffman (c : list Q * list (Z * Q) * list (Q * Z)) : bool :=
  let '(p, pre, draws) := c in
  match create_huffman p with
  | Some t => list_eqb zq_eqb (huff_preorder t) pre && all_draws (huff_sample t) draws
  | None => false
  end.

Definition chk_table (c : list Q * list Z * bool * option (list Z * list Q) * list (Z * Z)) : bool :=
  let '(p, J, exact, al, draws) := c in
  let t := create_table p in
  (match t, al with
   | TableAlias J' aJ aq, Some (iJ, iq) =>
       zlist_eqb J' J
       && (if exact then znat_eqb aJ iJ && qlist_eqb aq iq
           else (* thetas / sum is rounded: the implementation's embedded tables (iJ, iq), read as exact rationals, must give
                   every state thetas_k / sum within 2^-40 (tie-breaking may legitimately differ from the exact model) *)
             let th := table_thetas p in let sm := qsum th in let K := length iq in
             forallb (fun k => Qle_bool (Qabs (len_of (Z.of_nat k) (alias_segs K iq (map Z.to_nat iJ)) - nth k th 0 / sm)) (1 # 1099511627776))
                     (seq 0 K))
   | TableOnly J', None => zlist_eqb J' J
   | _, _ => false
   end)
  && forallb (fun d => option_eqb Z.eqb (table_draw_word t (fst d)) (Some (snd d))) draws.

(* the cost counters of Model/Stateful.v: BinarySearchTree.sampling_cost (true) / the cost returned by huffmantree.sample_with_u (false) *)
Definition chk_costs (c : list Q * bool * list (Q * Z * Z)) : bool :=
  let '(p, is_bst, draws) := c in
  if is_bst then
    match create_bst p with
    | Some b => forallb (fun d => let '(u, o, cost) := d in zpair_eqb (bst_sample_st (length p - 1) b 0 u) (o, cost)) draws
    | None => false
    end
  else
    match create_huffman p with
    | Some t => forallb (fun d => let '(u, o, cost) := d in zpair_eqb (huff_sample_st t 0 u) (o, cost)) draws
    | None => false
    end.

Definition chk_factory_vec (c : list Q * Q * Z * list Q * list Z) : bool :=
  let '(qv, lam, o, jv, stmap) := c in
  qlist_eqb (vec_jump qv lam (Z.to_nat o)) jv
  && zlist_eqb (map (fun k => states_map o (Z.of_nat k)) (seq 0 (length qv))) stmap.

(* probability_to_jump_to_state of the factory on a step measure: max(mass(cell), 0) / intensity *)
Definition cell_prob (axis : list Q) (o : Z) (pieces : list (Q * Q * Q)) (lam : Q) (s : Z) : Q :=
  let m := step_mass pieces (ba_cell_a axis mid_arith (o + s)) (ba_cell_b axis mid_arith (o + s)) in
  Qmaxb m 0 / lam.

(* one history of (u, c, choice called?, state) against Model/InversionFrontier.v: inv_step_f resolves the exhaustion path with
   the scripted position c of np.random.choice in the deque fr; inv_uses_choice = whether np.random.choice was called *)
Definition run_inv_f {S : Type} (eqb : S -> S -> bool) (proj : Z -> S) (outside : S -> bool) (F : Z) (prob : S -> Q) (M : Z) (fr : list Z) :=
  fix go (st : @ist S) (l : list (Q * Z * bool * S)) : bool * @ist S :=
    match l with
    | [] => (true, st)
    | (u, c, called, want) :: r =>
        let so := inv_step_f proj outside F prob M fr st u (Z.to_nat c) in
        if option_eqb eqb (snd so) (Some want) && Bool.eqb (inv_uses_choice proj outside F prob M st u) called
           && (0 <=? c)%Z && (c <? Z.of_nat (length fr))%Z
        then go (fst so) r else (false, fst so)
    end.

Definition chk_inversion (c : list Q * Z * Z * list (Q * Q * Q) * Q * Z * list (Q * Z * bool * Z) * list Q * (Z * Z) * list Z) : bool :=
  let '(axis, o, F, pieces, lam, M, draws, final_cum, final_sm, fr) := c in     (* F = max_frontier_indices, fr = frontier_states_indices *)
  let L := o in let R := (Z.of_nat (length axis) - o - 1)%Z in
  let proj := z1d_project (- L) R 1 in
  let prob := cell_prob axis o pieces lam in
  (* the deque and max_frontier_indices are those of Model/Domain.v (dom_1d / dom_maxf), is_outside = outside the grid *)
  zlist_eqb fr (fr1d L R) && Z.eqb F (maxf1d L R) &&
  match inv_init proj (outside1d L R) F prob with
  | None => false
  | Some st0 =>
      let '(ok, st) := run_inv_f Z.eqb proj (outside1d L R) F prob M fr st0 draws in
      ok && qlist_eqb (i_cum st) final_cum && zpair_eqb (i_sm st) final_sm      (* (_last_projected_index, _last_logged_index) *)
  end.

(* InversionMethod built DIRECTLY (public constructor) on a real StatesManager with a probability table given as data:
   tables whose sum is below 1 by 2^-52 .. 2^-4 (what rounding does to rate/intensity) drive the frontier draw with
   uniforms in (sum, 1), e.g. 1 - 2^-53 *)
Fixpoint lookup1 (t : list (Z * Q)) (s : Z) : Q :=
  match t with [] => 0 | (a, q) :: r => if Z.eqb a s then q else lookup1 r s end.
Definition chk_inv_direct (c : Z * Z * list (Z * Q) * Z * list (Q * Z * bool * Z) * list Q * (Z * Z) * list Z) : bool :=
  let '(L, R, tab, M, draws, final_cum, final_sm, fr) := c in
  let proj := z1d_project (- L) R 1 in
  zlist_eqb fr (fr1d L R) &&
  match inv_init proj (outside1d L R) (maxf1d L R) (lookup1 tab) with
  | None => false
  | Some st0 =>
      let '(ok, st) := run_inv_f Z.eqb proj (outside1d L R) (maxf1d L R) (lookup1 tab) M fr st0 draws in
      ok && qlist_eqb (i_cum st) final_cum && zpair_eqb (i_sm st) final_sm
  end.

(* wave 6 -- n-d INVERSION of the factory with the frontier deque INSIDE the model (Model/InversionFrontierNd.v): states are lists,
   enumeration sznd_project (PairingToZd over Szudzik), is_outside = outside the box; the implementation's deque (in order) and
   max_frontier_indices must be dom_nd's / dom_maxf's (Model/Domain.v), and every draw (u, scripted position c of np.random.choice,
   choice called?, state) must be what inv_step_f / inv_uses_choice give; final cumulative sums and StatesManager state too *)
Definition chk_invnd_f (c : list Z * Z * Z * list (list Z * Q) * Z * list (Q * Z * bool * list Z) * list Q * (Z * Z) * list Z) : bool :=
  let '(sizes, o, F, tab, M, draws, final_cum, final_sm, fr) := c in
  let proj := sznd_project (length sizes) in
  let outside := outsidend sizes o in
  let prob := lookupn tab in
  zlist_eqb fr (frnd sizes o) && Z.eqb F (maxfnd sizes o) &&
  match inv_init proj outside F prob with
  | None => false
  | Some st0 =>
      let '(ok, st) := run_inv_f zl_eqb proj outside F prob M fr st0 draws in
      ok && qlist_eqb (i_cum st) final_cum && zpair_eqb (i_sm st) final_sm
  end.

(* wave 8 -- the same with the enumeration the factory REALLY picks (Model/InversionFrontierFactory.v: Szudzik iff d = 2, Rosenberg-Strong
   otherwise); used for the 3-d chains: deque in order, max_frontier_indices, every draw, final sums and StatesManager state *)
Definition chk_invfac_f (c : list Z * Z * Z * list (list Z * Q) * Z * list (Q * Z * bool * list Z) * list Q * (Z * Z) * list Z) : bool :=
  let '(sizes, o, F, tab, M, draws, final_cum, final_sm, fr) := c in
  let proj := fac_project (length sizes) in
  let outside := outsidend sizes o in
  let prob := lookupn tab in
  zlist_eqb fr (frfac sizes o) && Z.eqb F (maxffac sizes o) &&
  match inv_init proj outside F prob with
  | None => false
  | Some st0 =>
      let '(ok, st) := run_inv_f zl_eqb proj outside F prob M fr st0 draws in
      ok && qlist_eqb (i_cum st) final_cum && zpair_eqb (i_sm st) final_sm
  end.

(* _pre_computation: the bucket list (itertools.product order) and which buckets are served from the cached axis vectors *)
Definition chk_buckets (c : nat * Z * Z * list (list (Z * Z)) * list bool) : bool :=
  let '(dim, n, o, bks, flags) := c in
  list_eqb (list_eqb zpair_eqb) (buckets dim n o) bks
  && list_eqb Bool.eqb (map (is_axis_bucket dim n) (buckets dim n o)) flags.

Definition chk_nd (c : nat * Z * Z * list (list Z * Q) * list (Q * list Z)) : bool :=
  let '(dim, n, o, tab, draws) := c in
  forallb (fun d => option_eqb zlist_eqb (nd_sample (table_bm tab) dim n o (fst d)) (Some (snd d))) draws.

Definition chk_ba1d (c : list Q * Z * list (Q * Q * Q) * Q * Q * list (Q * Z)) : bool :=
  let '(axis, o, pieces, lam, h, draws) := c in
  all_draws (ba_sample axis o mid_arith (step_mass pieces) lam h (nth 0 axis 0 - 1)) draws.
"""


def _tie_spot(res):
    """cross-cutting TIE layer (DESIGN 2.2a): the GENERATED GenTie* definitions of GEN_DEPS (just regenerated and compiled by the driver)
    against the RUNNING Python functions on real objects, dyadic inputs, exact, one coqc (harness/tie_selftest.py: bst, alias_draw)"""
    try:
        import tie_selftest
        out = tie_selftest.selftest_spotchecks([m for m in GEN_DEPS if m.startswith("GenTie")], res.seed, name=PROP)
    except Exception as e:  # noqa: BLE001 -- the implementation raised on a spot-check input, or the case file does not compile
        res.broke("correspondence TIE spot check", f"could not run: {type(e).__name__}: {str(e)[-1500:]}")
        return
    if not out:
        res.broke("correspondence TIE spot check", "no spot-check group of harness/tie_selftest.py is covered by the GenTie modules of GEN_DEPS")
    for g, (n, bad) in sorted(out.items()):
        for i in range(n):
            res.count(("tie_spot", g, res.seed, i), kind="tie_spot")
            res.bump("tie_spot", g)
        if bad:
            res.broke(f"correspondence TIE {g}", f"generated definition(s) of group {g} disagree with the running Python function on "
                                                 f"{len(bad)} of {n} spot-check cases: indices {bad[:10]} (build/TIE/{PROP}.v)")


def correspond(res):
    rng = random.Random(res.seed)
    _tie_spot(res)
    groups = []

    def viol(what, **kw):
        res.violation(what, dict(kw))

    direct_samplers(res, rng, groups, viol)
    chains(res, rng, groups, viol)
    inversion_direct(res, rng, groups, viol)
    chain_probability_step(res, rng, viol)
    chain_float_sum(res, rng, groups, viol)
    chain_exponential(res, random.Random(res.seed * 7919 + 17), viol)          # wave 7: own random stream
    chain_2d(res, rng, groups, viol)
    chain_nd_table(res, rng, groups, viol)
    chain_nd_wide(res, rng, viol)
    chain_3d_table(res, rng, groups, viol)          # wave 6 (after the others: their random streams are unchanged)
    chain_nd_inversion_factory(res, groups, viol)   # wave 8: own random stream

    # ---------- Coq side: the models must compute exactly what the implementation returned ----------
    from concurrent.futures import ThreadPoolExecutor
    jobs = []
    for g, ty, chk, cases in groups:
        shard = 12 if g in ("alias", "bst", "huffman", "table", "costs") else 40
        if not cases:
            continue
        for k in range(0, max(len(cases), 1), shard):
            jobs.append((g, ty, chk, cases[k:k + shard], k))
    res.case_lemmas += len(jobs)

    def work(job):
        g, ty, chk, cases, k = job
        if not cases:
            return job, []
        r = coq_bad_indices(PROP, f"cases_{g}_{k}", HEADER, [(g, ty, chk, cases)], timeout=900)
        return job, r[g]

    with ThreadPoolExecutor(max_workers=12) as ex:
        results = list(ex.map(lambda j: _safe(work, j), jobs))
    for job, bad in results:
        g, ty, chk, cases, k = job
        if isinstance(bad, Exception):
            res.broke(f"correspondence {g}", str(bad))
        elif bad:
            res.broke(f"correspondence {g}", f"model and implementation differ on {len(bad)} case(s), first: {cases[bad[0]][:1500]}")
        else:
            res.case_ok += 1


def _safe(f, job):
    try:
        return f(job)
    except CoqError as e:
        return job, e


def _rerun_frontier_finding(r, kid):
    """F-C02-13 / F-C02-14: INVERSION through the factory on ROUNDED probabilities, a uniform in (float sum, 1), the frontier draw.
    Re-runs the draw on $RPYLIB_REPO and requires, on the RECOMPUTED quantities (each also equal to the recorded one):
      - intensity = sum of the cell masses, not a power of two; the float sum s of the probabilities is below 1 by at most
        len(masses) * 2^-53 (rounding of rate / intensity and of the additions -- NOT a lost part of the mass);
      - s < u < 1 and np.random.choice is called exactly once;
      - the deque projects to [right, -left] (Model/Domain.v dom_1d), the state returned is project(deque[choice]);
      - F-C02-13: that state is in the grid, is not the origin and its cell mass is exactly 0;
      - F-C02-14: the axis is edge-origin (left = 0 < right or right = 0 < left), the deque entry is pair(0) = -1 and the state is 0."""
    from rpylib.distribution.sampling import SamplingMethod as SM
    L, R, h, u, c = r["left"], r["right"], r["h"], r["u"], r["choice"]
    if r.get("sampler") != "INVERSION" or not all(isinstance(v, int) and not isinstance(v, bool) for v in (L, R, c)) or L < 0 or R < 0:
        return False
    if not isinstance(u, float) or not isinstance(r.get("float_sum"), float) or not isinstance(r.get("intensity"), float):
        return False
    masses = [Fr(x) for x in r["masses"]]
    if len(masses) != L + R + 1 or masses[L] != 0 or any(m < 0 for m in masses):
        return False
    lam = sum(masses)
    rounded = not (lam.numerator & (lam.numerator - 1) == 0 and lam.denominator & (lam.denominator - 1) == 0)
    proc = build_chain(h, L, masses, SM.INVERSION, right=R)[0]
    s = proc.sampling
    sm = s.state_manager
    fr_idx = [int(ix) for ix in sm.frontier_states_indices]
    fr_states = [int(sm.pairing.project(ix)) for ix in fr_idx]
    if not (0 <= c < len(fr_idx)):
        return False
    with ScriptedChoice() as ch:
        ch.c = c
        o = int(s.sample_with_u(u))
    top = float(s._cumulative_probabilities[-1])
    common_ok = (rounded and lam > 0 and Fr(float(proc.intensity_of_jumps)) == lam and r["intensity"] == float(proc.intensity_of_jumps)
                 and len(s._cumulative_probabilities) == L + R and r["float_sum"] == top
                 and 0 <= Fr(1) - Fr(top) <= len(masses) * Fr(1, 1 << 53) and top < u < 1.0 and ch.calls == 1
                 and fr_states == [R, -L] and r.get("frontier_states") == fr_states and r.get("frontier_indices", fr_idx) == fr_idx
                 and o == fr_states[c] and r.get("got") == o)
    if not common_ok:
        return False
    if kid == "F-C02-13":
        return o != 0 and -L <= o <= R and masses[o + L] == 0 and r.get("probability_of_got") == "0"
    return ((L == 0) != (R == 0)) and fr_idx[c] == -1 and o == 0


def matches_known(v, known):
    """a violation tagged with a recorded finding is accepted only if it IS that finding (witness class + the behaviour the
    faithful model predicts); anything else carrying the tag is a new violation.  NEVER raises (harness/common.py calls it without a
    try/except): a record it cannot read is not the finding."""
    try:
        return bool(_matches_known(v, known))
    except Exception:  # noqa
        return False


def _matches_known(v, known):
    r = v["replay"]
    if not isinstance(r, dict):
        return False
    if known["id"] == "F-C02-6":
        # only the right-closed samplers, only the uniform 0.0 exactly, only the first enumerated state, only if that state has
        # probability zero.  For alias / table / bst / huffman the same symptom contradicts C02_*_law: never matched.
        got = r.get("got")
        first = r.get("first_enumerated_state")
        return (r.get("sampler") in RIGHT_CLOSED and r.get("u") == 0.0 and first is not None and got == first
                and r.get("probability_of_got") == "0")
    if known["id"] in ("F-C02-13", "F-C02-14"):
        # audit 4, A1: nothing self-reported is trusted.  The chain is REBUILT from (h, left, right, masses) through the public factory
        # and the draw is RE-RUN with the recorded position of np.random.choice; accepted only if the re-run reproduces the record and
        # the record is the finding: see _rerun_frontier_finding
        try:
            return _rerun_frontier_finding(r, known["id"])
        except Exception:  # noqa  (a malformed record is not the finding)
            return False
    if known["id"] == "F-C02-8":
        # only BST / Huffman built on ROUNDED probabilities (intensity not a power of two), only a uniform at or above the float
        # sum of the vector, only the last leaf in in-order (the catch-all of the descent), only if that leaf is the origin
        # or a zero-probability state
        lam = r.get("intensity")
        if not isinstance(lam, float) or lam <= 0:
            return False
        fr = Fr(lam)
        rounded = not (fr.numerator & (fr.numerator - 1) == 0 and fr.denominator & (fr.denominator - 1) == 0)
        return (r.get("sampler") in ("BINARYSEARCHTREE", "HUFFMANNTREE") and rounded and isinstance(r.get("float_sum_of_probabilities"), float)
                and isinstance(r.get("u"), float) and isinstance(r.get("got"), int) and not isinstance(r.get("got"), bool)
                and r["float_sum_of_probabilities"] < 1.0 and r["float_sum_of_probabilities"] <= r["u"] < 1.0
                and r.get("got") == r.get("last_inorder_leaf"))
    return False


def _direct(name, p):
    from rpylib.distribution.variate.alias import AliasMethod
    from rpylib.distribution.variate.binarysearchtree import BinarySearchTree
    from rpylib.distribution.variate import huffmantree as H
    from rpylib.distribution.variate.table import TableMethod
    pf = [float(x) for x in p]
    if name == "alias":
        a = AliasMethod(pf, ident)
        return (lambda u: int(a._draw_with_u(u))), _alias_hints(a), a
    if name == "bst":
        b = BinarySearchTree(pf, ident)
        return (lambda u: int(b.sample_with_u(u))), [float(v) for v in b.bst], b
    if name == "huffman":
        h = H.HuffmanTree(pf, ident)
        return (lambda u: int(H.sample_with_u(u, h.head)[0])), [float(v) for v in _huff_breaks(h.head)], h
    t = TableMethod(pf, ident)
    return None, None, t


def replay(path):
    """re-executes the recorded input on the implementation of $RPYLIB_REPO; exit code 1 = the failure is still there"""
    from rpylib.distribution.sampling import SamplingMethod as SM
    data = json.load(open(path))
    print(json.dumps({k: v for k, v in data.items() if k != "sequence"}, indent=1)[:3000])
    what, name = data.get("what", ""), data.get("sampler", "")
    try:
        if data.get("input_array_mutated") and name in ("alias", "bst", "huffman", "table"):
            from rpylib.distribution.variate.alias import AliasMethod
            from rpylib.distribution.variate.binarysearchtree import BinarySearchTree
            from rpylib.distribution.variate import huffmantree as H
            from rpylib.distribution.variate.table import TableMethod
            arr = np.array([float(x) for x in data["p"]], dtype=np.float64)
            ref, rc = arr.copy(), 0
            for nm, mk_ in (("alias", lambda: AliasMethod(arr, ident)._draw_with_u(0.3)), ("bst", lambda: BinarySearchTree(arr, ident).sample_with_u(0.3)),
                            ("huffman", lambda: H.sample_with_u(0.3, H.HuffmanTree(arr, ident).head)), ("table", lambda: TableMethod(arr, ident).sample(size=2))):
                try:
                    mk_()
                except Exception as e:  # noqa
                    print("replay:", nm, "raises", type(e).__name__)
                changed = arr.tobytes() != ref.tobytes()
                print("replay:", nm, "constructor + draw on the shared float64 array -> array", "CHANGED" if changed else "unchanged")
                rc |= int(changed)
                arr[...] = ref
            return rc
        if name in ("alias", "bst", "huffman", "table"):
            p = [Fr(x) if "/" in x or x.isdigit() else Fr(float(x)) for x in data["p"]]
            f, hints, obj = _direct(name, p)
            if "u" in data and f is not None:
                o = f(data["u"])
                print("replay: state for u =", data["u"], "->", o, "p[state] =", p[o] if 0 <= o < len(p) else None)
                return 1 if not (0 <= o < len(p)) or p[o] == 0 else 0
            if "word" in data:
                import random as _random
                orig = _random.getrandbits
                _random.getrandbits = lambda nb: data["word"]
                try:
                    o = int(obj.sample(size=1)[0])
                finally:
                    _random.getrandbits = orig
                print("replay: state for word", data["word"], "->", o)
                return 1 if not (0 <= o < len(p)) or p[o] == 0 else 0
            if f is not None:
                lengths, _ = integrate_step_function(f, hints=hints)
                s = sum(p)
                bad = [k for k in range(len(p)) if abs(lengths.get(k, Fr(0)) - p[k] / s) > Fr(1, 10 ** 9)]
                print("replay: states whose length differs from p:", bad[:10])
                return 1 if bad else 0
            return 1
        if data.get("exp_case"):
            lengths, target, tol, cut = exp_case_law(data["model"], data["params"], data["exponential"], data["h"], data["nb_of_points"], name, random.Random(1))
            k = data.get("state")
            bad = [k_ for k_ in target if abs(float(lengths.get(k_, Fr(0))) - target[k_]) > tol] + [k_ for k_ in lengths if k_ not in target and lengths[k_] > 0]
            print("replay: state", k, "length", float(lengths.get(k, Fr(0))) if k is not None else None, "target", target.get(k), "states off target:", bad[:10])
            return 1 if bad else 0
        if name.endswith("-2d"):
            method = SM[name[:-3]]
            m1 = [Fr(x) for x in data["masses1"]]
            m2 = [Fr(x) for x in data["masses2"]]
            mk = lambda: build_chain_2d(data["h"], data["left"], m1, m2, data["copula"], method, right=data["right"])[0].sampling
            ent = (lambda s_: (lambda u: tuple(int(x) for x in s_.sample_with_u(u)))) if method == SM.INVERSION else \
                (lambda s_: (lambda u: tuple(int(x) for x in s_.sample_with_us(np.array([u], dtype=float))[0])))
            if data.get("finding") == "F-C02-7" or "max_storage" in data and "u" in data:
                s1, s2 = mk(), mk()
                s2._max_storage = data["max_storage"]
                for v in [0.875 + k / 64 for k in range(4)] + [data["u"]]:
                    r2 = ent(s2)(v)
                r1 = ent(s1)(data["u"])
                print("replay: default storage ->", r1, " _max_storage =", data["max_storage"], "->", r2)
                return 1 if r1 != r2 else 0
            o = ent(mk())(data["u"])
            print("replay: state for u =", data["u"], "->", o)
            return 1 if list(o) == data.get("got") else 0
        if data.get("finding") in ("F-C02-13", "F-C02-14") or (name == "INVERSION" and "choice" in data and "left" in data):
            masses = [Fr(x) for x in data["masses"]]
            s = build_chain(data["h"], data["left"], masses, SM.INVERSION, right=data["right"])[0].sampling
            with ScriptedChoice() as ch:
                ch.c = data["choice"]
                o = int(s.sample_with_u(data["u"]))
            pr = masses[o + data["left"]] if -data["left"] <= o <= data["right"] else None
            print("replay: float sum", float(s._cumulative_probabilities[-1]), "u =", data["u"], "np.random.choice called:", ch.calls,
                  "position", data["choice"], "-> state", o, "probability", pr)
            return 1 if ch.calls and (pr is None or pr == 0 or o == 0) else 0
        if name in SM.__members__:
            masses = [Fr(x) for x in data["masses"]]
            proc, grid, meas = build_chain(data["h"], data.get("half", data.get("left")), masses, SM[name], right=data.get("right"))
            s = proc.sampling
            if "u" in data and name in ("INVERSION", "BINARYSEARCHTREEADAPTED1D", "BINARYSEARCHTREE"):
                o = int(s.sample_with_u(data["u"]))
                print("replay: state for u =", data["u"], "->", o)
                return 1 if o == data.get("got") else 0
    except Exception as e:  # noqa
        print("replay: the implementation raises", type(e).__name__, e)
        return 1
    print("replay: this kind of witness is re-evaluated by ./check C02 (deterministic for VERIF_SEED)")
    return 1



"""C03 -- level coupling keeps the coarse path in the previous level's law: correspondence + implementation oracle."""
import copy
import itertools
import json
import random
import warnings
from fractions import Fraction as Fr

import numpy as np

from common import qlit, natlit, zlit, blit, lst, tup, opt, coq_bad_indices, parallel_coq_bad, CoqError

PROP = "C03"
PROPERTY_FILE = "Properties/C03.v"
GEN_DEPS = ["GenC01Trunc", "GenC04Triplet", "GenTieChain", "GenTieCoupling"]
RULE = ("cases: CouplingMarkovChain(StepModel in 4 representations x variation flag, dyadic grids with 1..5 states per side) driven "
        "through initialisation / pre_computation / next_level for 1..4 levels, next_level called BOTH with the engine's path managers and with "
        "path_managers=None (CouplingSDE's call), each on finite- and infinite-variation drivers; at every level every fine increment: "
        "probability_to_right_jump (relative 2^-48), coupling_state at uniforms on both sides of the threshold and at random ones "
        "(exact), zero-rate states (ZeroDivisionError <-> None); the level state machine compared field by field (axes, h, origin, "
        "fine/coarse squared diffusion coefficient, fine drift, frozen coarse drift) at EVERY level (groups levels and, for CouplingSDE's driver, "
        "sdelevels), and the two coefficients against chains built afresh on the level-l / level-(l-1) grids (oracle); every SamplingMethod the constructor accepts is "
        "simulated; copula coupling: __coupling_state for every fine increment of 2-d grids on density-table Levy copulas (exact) at "
        "uniforms around each cumulative corner probability; the two-measure models (rates from one table, corner masses from another: groups "
        "inflownd2m, jointnd) and the joint rule on the implementation PATCHED with a candidate repair (group statejoint, stream nd-repaired: the "
        "oracle must find the identity, tables and Clayton x HEM).  oracle: brute-force sum_fine rate*P(fine->y) vs the rate of the chain "
        "built on the un-refined grid (1-d step models exact-ish 1e-12; 2-d table copulas and Clayton x real margins).  "
        "real stream: HEM/Merton/VG/CGMY on probability-step, geometric, with-bounds and uniform grids, levels 1-3, same brute-force "
        "oracle incl. the mass coupled to 0 (1e-8 of the intensity).  jump-time stream: 1-d CouplingSimulationWithJumpTimes / MaximumStep "
        "(levels 1-2) and the copula CouplingLevyCopulaSimulationWithJumpTimes / MaximumStep (equal and unequal axes) simulated end to end; "
        "on every path: the coarse component moves only when the fine one does, by the same state (even coordinate) or a neighbour on its own "
        "axis (odd), and the two diffusion parts are the same Brownian increments times the two coefficients / matrices (1e-9).  "
        "SDE stream: CouplingSDE (StepModel driver, a = Constant / DiagX) at levels 1-3: level bookkeeping oracle; one real coupled driver path per level "
        "recorded (fine increments + coupling uniforms at coupling_state, times, jump / diffusion rows) and the object's StochasticSDEPath compared with "
        "the Coq composition coupling_state -> driver steps -> stacked Euler recursion (group sde, 1e-9); Libor model: sde drift at level 2 vs the level-1 process.  "
        "SDE own-grid stream (F-C03-2): real coupled driver paths of CouplingSDE (finite-variation StepModel driver, DiagX and Constant on the same driver and seeds, "
        "level 1; thorough: 1-2): end value of the object's COARSE row vs the REAL level-(l-1) MarkovChainSDE run on the coarse path restricted to its own time grid "
        "(coarse jump times + maturity) with the same coarse jump / diffusion values, both also against the closed forms (1e-9).  "
        "non-trivial = distinct (chain, level, increment) with an odd increment; a simulated path with at least one jump.  "
        "TIE spot check (wave 8): the generated TIE definitions are spot-checked against the running Python on every run -- groups prob_right (relative 2^-50: one float division), q_vector, intensity_1d, dispatch_c1d, dispatch_nd2 of harness/tie_selftest.py (12 cases each, kind tie_spot): the GenTieCoupling / GenTieChain definitions evaluated by vm_compute against CouplingSimulation.probability_to_right_jump, create_q_vector, compute_intensity_of_jumps and left_point / right_point / middle / grid[position] called on real CTMCGrid and Coordinate objects (Coordinate1D and CoordinateND variants, two-axis grids of unequal lengths included)")
MODELLED = ["CouplingSimulation.probability_to_right_jump / coupling_state / coupling_states_for_a_slice (exact correspondence groups state1d, "
            "prob1d, slice1d), next_level bookkeeping = run_levels of C03_drift_diffusion_frozen (group levels: every level, both call modes "
            "path managers / None, finite and infinite variation; group sdelevels: the driver of CouplingSDE at levels 1-3), CouplingSimulation.simulate_diffusion_with_coupling of the fixed-dates "
            "simulation (group diffusion, 1e-12); coupling_index is tied to coupling_state by theorem C03_coupling_state_is_index; the "
            "jump-time / maximum-step simulators (1-d and copula, incl. the fresh-normals simulate_diffusion_with_coupling override) have no Coq "
            "model: they are driven end to end and checked by the oracle check_coupled_path (copy / adjacency per coordinate, same Brownian increments)",
            "CouplingLevyCopulaSimulation.__coupling_state in dimension 2 (Model/CouplingNd.v: coupling_state2 / prob_to2 = the code as it is, exact "
            "correspondence on density tables, equal-length axes with equal or different points); coupling_state2_joint / prob_to2_joint = the REPAIRED rule "
            "(joint corner masses), a SPECIFICATION no code in /repo implements: it is evaluated by cases only against the harness's candidate repair "
            "(_repaired_coupling_state patched over __coupling_state: groups statejoint, jointnd, stream nd-repaired). TWO MEASURES "
            "(Model/CouplingNdTwoMeasures.v, audit4 B1): rates = fine_process.model.mass (deep copy with margins truncated to the grid, "
            "markovchainlevycopula.py:95-96), corner masses = coupling_process.model.mass (un-truncated, couplinglevycopula.py:177): inflow2_code / "
            "inflow2_joint_2m keep them apart (group inflownd2m on pairs of tables; on the implementation the two are its own mass functions, stream nd-real). "
            "Axes of different LENGTHS are outside the model: CTMCGrid.right_point(CoordinateND) clamps every axis with len(axes[0]) (spatial.py:93) where "
            "Model/Grid.v clamps each axis with its own length; no library constructor builds such a grid. Dimension 3 (oracle only) and the diffusion "
            "matrices (scipy.linalg.sqrtm) are not modelled",
            "Poisson thinning / 'same law' of the coarse path: the probabilistic step from equal rates, drift and diffusion to equal "
            "law is on paper, not formalised; C03_same_generator_1d packages the three equalities (rates, diffusion coefficient, drift) on the "
            "level machine's own state for every level, so the only paper step left is 'equal generator data => equal law'",
            "couplingsde.py with a 1-d driver (Model/CouplingSde.v): the level machine sde_run (mc_drift_h / mc_drift_2h / driver state / the sde drift "
            "closure set once at level 0) and simulate_one_path_with_coupling = coupled driver steps (coupling_state of the fine increments, one Brownian "
            "increment times the two coefficients) fed to C16's stacked Euler recursion ceuler_st; exact-structure correspondence group sde (1e-9) on "
            "real CouplingSDE objects at levels 1-3 with the real driver path recorded (increments and coupling uniforms at coupling_state). Copula "
            "driver of the SDE coupling, sqrt(dt) and the normals (fed as data) are not modelled. Wave 8: own_grid (the coarse path on the grid of its own jump "
            "times + maturity = the level-(l-1) grid when no merged step exceeds the cap epsilon_(l-1)), end_value, dY; sde_run / sde_init / sde_next / sde_single / "
            "sde_coupled are evaluated by vm_compute in C03_sde_grid_dependence_refuted and the Examples only, the correspondence group sde evaluates "
            "step_sde_coupled (the same composition with the object's own coefficients and drifts as data); libor_zz occurs in the F-C03-4 witness only",
            "TIE (wave 6): CouplingSimulation.probability_to_right_jump / coupling_state and CTMCGrid.middle / left_point / right_point are now REGENERATED "
            "from the source on every run (Gen/GenTieCoupling.v, Gen/GenTieChain.v, py2coq loop plug-in) and proved equal to the hand model by "
            "C03_gen_probability_to_right_jump_is_model / C03_gen_coupling_state_is_model / C03_gen_middle_is_model",
            "np.sqrt in the equivalent diffusion coefficient: the model works with squares",
            "TIE spot check (wave 8): the generated TIE definitions are spot-checked against the running Python on every run (correspond -> tie_selftest.selftest_spotchecks on the GenTie modules of GEN_DEPS: the functions are called on real CTMCGrid / Coordinate objects, so the singledispatch variant actually taken, CTMCGrid.__init__ and other caller-visible edits the translator cannot see are exercised); a disagreement is a broken obligation 'correspondence TIE <group>'"]
ASSUMPTIONS = ["mass a b = fine_process.model.mass, additive and non-negative on intervals NOT containing 0, respects == "
               "(C01_step_mass_is_a_measure for step measures; C09 is not formally composed)",
               "two middles mc (coarse level: used by refine and the coarse chain) and mf (refined level): strictly inside a gap, "
               "middle(x,x)=x at non-zero x; proved instance: both the arithmetic mean",
               "the coupling uniform is uniform on [0,1) and independent of the fine increment (C08)",
               "2-d: mass2 a b = model.mass(a, b) additive in each coordinate and non-negative on boxes one of whose coordinate intervals "
               "avoids 0, respects ==; both axes admissible with the same origin index (CTMCGrid has one origin_coordinate) and OF EQUAL LENGTH "
               "(spatial.py:93 clamps with len(axes[0])); middle = arithmetic mean",
               "C03_telescoping_nd_joint: rate2 = fine_process.model.mass with the properties above and same_measure: the corner masses are read from "
               "that same measure (forall a b, cmass2 a b == rate2 a b). The code does NOT meet same_measure (second cause of F-C03-1); the harness's "
               "candidate repair does"]
THEOREM_NOTES = {
    "number system": "proved over Q inside a Section with an abstract additive non-negative interval mass (simplification of DESIGN 2.1)",
    "known finding F-C03-2": "matches_known_sde_grid re-computes from the replay's input fields (driver spec, a, c, x0, level, seed): rebuilds CouplingSDE and the real "
                             "level-(l-1) MarkovChainSDE, draws the same path, and accepts only DiagX + exact own grid + at least one dropped time + recomputed end values "
                             "equal to the reported ones AND to the closed forms on their grids + different + mc_drift_2h = level-(l-1) drift != 0 + the Constant control on "
                             "the same seed agrees. Anything else (Constant differing, no dropped time, closed form missed) is an unlisted violation",
    "known finding": "F-C03-1 has TWO causes: (1) one odd axis: corner masses from the MARGIN over that axis instead of the joint mass half cell x cell; "
                     "(2) every corner mass is read from coupling_process.model (un-truncated, couplinglevycopula.py:177) while the rates come from "
                     "fine_process.model (margins truncated to the grid): this also hits 'both coordinates odd'. The oracle reports per input which cause is "
                     "active (fields cause / causes = worst deviation of the two single-cause models from the coarse rates; tables whose support the grid "
                     "covers: margin rule only; Clayton x HEM: both, 5.4e-2 and 7.8e-4). matches_known RE-COMPUTES: it rebuilds the objects from the "
                     "replay's input fields, measures the implementation's inflow of the reported coarse state again, and accepts only if that inflow is "
                     "the reported one, equals the prediction of the faithful two-measure model of the code (Python re-statement tied to Coq's inflow2 / "
                     "inflow2_code_tab by the groups inflownd / inflownd2m), the prediction violates the property, one of the two causes is active and the "
                     "repaired rule gives the coarse rate there; any other mismatch is a new violation",
    "C03_coupling_law": "links prob_to/inflow to coupling_index/coupling_state: target p+1 iff u < pr, p-1 iff u >= pr",
    "C03_telescoping_nd_refuted": "F-C03-1: the faithful 2-d model of __coupling_state violates the identity on an explicit density table "
                                  "(vm_compute witness: inflow 23/36 vs coarse rate 1/4 at coarse state (1,0)); the implementation is replayed on the same table",
    "n-d positive theorems": "C03_copy_rule_nd, C03_adjacency_nd, C03_corner1_is_law, C03_corner2_is_law (corner probabilities are a law when the "
                             "denominator is not 0), C03_frozen_nd (any number of next_level calls)",
    "C03_telescoping_nd_joint": "RESTATED (audit4 B1) with the code's two measures. GENERAL (dimension 2): for any rate measure rate2 additive per "
                                "coordinate and non-negative on boxes avoiding the origin, any corner measure cmass2 with same_measure (cmass2 a b == rate2 a b "
                                "for all boxes), any two admissible axes of EQUAL LENGTH (their points may differ) with the common origin index, and every "
                                "coarse state other than the origin: sum_fine rate2(fine cell) x P_joint(fine -> y) == rate2(coarse cell of y), P_joint = "
                                "prob_to2_joint over cmass2 (corner probabilities of one odd axis from the JOINT mass half-cell x cell).  It is a theorem about "
                                "a SPECIFICATION of a repair, not about code in /repo: the code fails it twice (margin masses: C03_telescoping_nd_refuted; "
                                "second measure: C03_telescoping_nd_second_measure_refuted).  The specification is evaluated against the harness's candidate "
                                "repair patched over __coupling_state (statejoint, jointnd, nd-repaired).  length xs = length ys is not used by the proof; it "
                                "keeps the statement inside the grids on which the model's cells are the code's (spatial.py:93).  cmarg is a dummy parameter "
                                "(the joint rule never reads margins).  Proof: extensionality of prob_to2_joint in its mass function, then rate x P = mass of "
                                "(part sent along axis 1) x (part sent along axis 2) (flow2) and the 1-d tiling lemma (strip) along each axis.  Dimension >= 3 "
                                "is not proved",
    "C03_telescoping_nd_second_measure_refuted": "second cause of F-C03-1, isolated: JOINT rule, rates from a non-negative table psr, corner masses from "
                                                 "another non-negative table psc of the same total mass: inflow 1 vs coarse rate 1/4 at coarse state (1,0) "
                                                 "(fine state (3/2,1/2), both coordinates odd, goes to (1,0) with probability 1 instead of 1/4); with psc := psr "
                                                 "the identity holds at the same state (vm_compute). On the implementation the two measures are "
                                                 "coupling_process.model / fine_process.model (stream nd-real: 7.8e-4 at coarse state (0,0.1))",
    "C03_coupling_law_nd_*": "(_odd_even / _even_odd hold BY CONSTRUCTION: coupling_state2 and prob_to2 are written from the same corner1, the proof "
                             "is a case split on the thresholds and uses no property of the masses; what pins them to the code is the exact correspondence "
                             "statend / statejoint.  _odd_odd uses corner2_is_law.)  They link prob_to2 / prob_to2_joint (used by the inflow) to coupling_state2 / coupling_state2_joint as functions of the coupling "
                             "uniform, for both rules (parameter joint): one odd axis -> left neighbour iff u <= pl, right iff pl < u <= pl+pr; both "
                             "odd -> corner k iff cum_(k-1) < u <= cum_k (itertools.product([-1,1]) order); all other targets have probability 0. "
                             "The thresholds are '<=' as in the code (u <= probability); u = 0 has probability 0",
    "C03_telescoping_nd_joint_instance": "kept: the witness table, all 24 coarse states by vm_compute (now an instance of C03_telescoping_nd_joint; "
                                         "that step_mass2 of a non-negative table satisfies the hypotheses of the general theorem is NOT proved in Coq; "
                                         "C03_two_measures_nonvacuous discharges them for the area measure instead)",
    "C03_same_generator_1d": "for CTMCGrid's arithmetic middle, any well-formed 1-d grid and any number n of next_level calls: jump rates of the "
                             "coarse component (coupled inflow on the state's own grid) == q_entry of the level-n chain, c_sig2_coarse = sig2_of(level-n "
                             "grid), frozen drift == drift_of(level-n grid).  Composition of C13 refine_n_grid_wf, C03_telescoping_1d and "
                             "C03_drift_diffusion_frozen (a repackaging: sig2_of and drift_of are arbitrary functions of the grid, so two of the "
                             "three equalities are bookkeeping of run_levels).  The n-d analogue is not stated (the code's n-d rates do not telescope: F-C03-1)",
    "C03_sde": "RELABELLED (audit5a B3, top-10 #6): BOOKKEEPING of sde_run (conjuncts 1-8, for arbitrary functions sig2_of / drift_of / b_of of the grid) plus a "
               "COROLLARY OF C16 (stacked_rows + coupled_rows) for the rows clause. The rows clause holds at ANY record with s_mu_2h = Some _ and for any event list "
               "the totalised driver accepts: no hypothesis dt > 0, increment on the axis (nthq is totalised where Python raises IndexError) or sig2 >= 0 - the "
               "auditor's instance (sig2 = -7, dt = -3, increment 1000 on a 3-point axis) is accepted; cf, cc are free parameters, NOT tied to c_sig2_fine / "
               "c_sig2_coarse (the group sde feeds the object's own coefficients). I did not add well-formedness hypotheses: none of them would be used by the proof "
               "(decorative), so the statement is labelled for what it is instead. Content: the coarse rows are euler a b [mc_drift_2h] on the coarse driver steps "
               "ON THE FINE DRIVER'S TIME GRID. It does not state equality of driver laws or of solutions (DESIGN's sentence is wrong). Not covered: copula driver",
    "C03_sde_driver_step": "near-definitional: unfolding of driver_cstep + C03_copy_or_adjacent_1d",
    "C03_sde_same_scheme": "REPACKAGING of C16 (conjunct 1 by reflexivity; in conjuncts 2-3 the steps cs are existentially quantified and not tied to es): coarse "
                           "component of level n+1, fine component of level n >= 1 and MarkovChainSDE.simulate_one_path at level 0 apply one function (a, b_of g, driver "
                           "drift of level n) to SOME driver steps. It is not a telescoping statement: the time grids differ (F-C03-2)",
    "C03_sde_constant_grid_independent": "for ALL paths and any constant matrix A (b = 0): the end value on own_grid steps = the end value on steps (veq). Corollary of "
                                         "C16_constant_a + 'own_grid keeps the sums of dt, dL, dW' (induction). So for Constant the grid of F-C03-2 is harmless",
    "C03_sde_grid_dependence": "the name DESIGN.md promised; for ALL mu, x0, prefixes, suffixes, steps p s and components k, a = diag(x), b = 0: end value on "
                               "pre ++ p :: s :: post minus end value on pre ++ merge p s :: post == x0_k * growth(pre) * dY_k(p) * dY_k(s) * growth(post) (from C16_diag's "
                               "closed form). A statement about the Euler scheme (C16's model), quantitative: the size of the effect",
    "C03_sde_grid_dependence_refuted": "F-C03-2 on the FAITHFUL model (sde_run level machine + coupling_state driver + stacked recursion, vm_compute witness): level 1, DiagX, "
                                       "x0 = 2, fine increment +1 coupled to the origin at t = 1/4 then -2 at t = 1/2: coarse row ends at 333/512, the level-0 process "
                                       "(sde_run 0: same driver drift -3/8, same sde drift, same a) on the coarse path's own grid {0, 1/2} at 7/8; Constant(3/2) control "
                                       "equal. On the implementation: stream sde-grid (real path, real level-(l-1) MarkovChainSDE object). own_grid is the level-(l-1) "
                                       "grid only while no merged step exceeds epsilon_(l-1) (finite-variation drivers: always); with an infinite-variation driver the "
                                       "level-(l-1) cap inserts other times whose Brownian values the coupled path does not contain: not modelled, not driven. What is NOT "
                                       "proved: the size of E[coarse_l] - E[fine_(l-1)] (audit5a measured +6.7 s.e. on VG/DiagX); the theorem and oracle are pathwise",
    "C03_sde_libor_drift_not_of_level_refuted": "F-C03-4 (assessment of the C16 observation): MarkovChainLevyLiborModel.sde_drift closes over zz(h) computed at "
                                                "fine_process.initialisation, which CouplingSDE calls at level 0 only; from level 2 on the coarse component has the "
                                                "driver drift and coefficient of level l-1 but the sde drift of level 0, not that of the level-(l-1) process built on "
                                                "the refined grid (vm_compute witness; confirmed on the real objects by _sde_libor_observation). The telescoping sum is "
                                                "NOT broken (both components of every level use the same stale drift: C03_sde_same_scheme), so the oracle records it as "
                                                "an observation, not a violation; the defect is the bias of the FINE component of levels >= 1 (C16's subject)",
    "C03_gen_*_is_model": "restated from Proofs/Tie_Coupling.v / Tie_Chain.v: the hand model returns None exactly where Python raises ZeroDivisionError",
    "expected coarse payoff = expected fine payoff at level l-1": "derived on paper from C03_telescoping_1d + C03_drift_diffusion_frozen + "
                                                                  "C03_same_brownian_increments + Poisson thinning; not formalised",
}
LEVEL_TEXT = ("Proof: 34 Coq theorems + 7 examples (closed under the global context). One-dimensional coupling, for every admissible axis, every middle "
              "function with the stated properties and every additive non-negative mass: after refine the coarse grid is the even "
              "indices and the coarse cells are bounded by the odd states; coupling_state copies even increments and moves odd ones to "
              "an adjacent coarse state; sum over fine states of rate x P(fine -> y) equals the coarse chain's rate of y (states of "
              "rate 0 excluded), and the mass coupled to 0 is the old central cell minus the new one; in every state of the level "
              "machine the coarse diffusion coefficient and frozen drift are the fine ones of level l-1 and both components use the "
              "same Brownian increments; C03_same_generator_1d packages rates + diffusion + drift of the coarse component as equal to the "
              "level-(l-1) chain's generator data at every level. Copula coupling (dimension 2): the faithful model of the code REFUTES the "
              "identity for two independent reasons (finding F-C03-1, replayed on the implementation, the oracle says which reason is active per input): "
              "margin instead of joint corner masses for one odd axis (C03_telescoping_nd_refuted) and corner masses read from the un-truncated "
              "coupling_process.model while the rates come from the truncated fine_process.model (C03_telescoping_nd_second_measure_refuted; also wrong "
              "when both coordinates are odd). For a SPECIFICATION of a repair (joint corner masses read from the rate measure itself) the identity is "
              "proved in general (C03_telescoping_nd_joint: two measures with the hypothesis same_measure, any additive non-negative rate measure, any two "
              "admissible axes of equal length); no code in /repo implements that rule, it is evaluated by cases against the harness's candidate repair "
              "patched over __coupling_state (exact on tables; the oracle finds the identity on tables and on Clayton x HEM). The law of coupling_state2 "
              "as a function of the coupling uniform is linked to prob_to2 for both rules (C03_coupling_law_nd_*; one odd axis: by construction). Axes "
              "of different lengths are outside the model (CTMCGrid.right_point clamps with len(axes[0]), spatial.py:93). Tied to /repo by exact vm_compute correspondence on step-measure chains and density-table copulas; "
              "jump-time / maximum-step coupled simulators (1-d and copula) driven end to end by an oracle. SDE coupling (1-d driver): C03 IS VIOLATED for a non-constant coefficient (finding "
              "F-C03-2): couplingsde.py advances the coarse component on the time grid of the level-l fine driver, the level-(l-1) process advances on its own; with "
              "a = DiagX the coarse row differs on one coupled driver path from the real level-(l-1) process run on the coarse path's own grid with the same coarse "
              "driver increments (C03_sde_grid_dependence_refuted on the faithful model: 333/512 vs 7/8; oracle stream sde-grid on real objects; exact size of the "
              "effect of merging two steps for all paths: C03_sde_grid_dependence), so the expected coarse payoff of level l is not the expected fine payoff of level "
              "l-1 (measured by audit5a: +6.7 s.e., VG driver); for Constant the end value does not depend on the grid (C03_sde_constant_grid_independent, all paths). "
              "C03_sde / C03_sde_same_scheme are bookkeeping of the level machine plus corollaries of C16 (the coarse rows are the Euler recursion with mc_drift_2h on the "
              "coarse driver steps on the FINE grid; holds at any record, coefficients cf, cc free), tied on real CouplingSDE objects at levels 1-3; the Libor sde drift "
              "keeps the level-0 zz (C03_sde_libor_drift_not_of_level_refuted, observation F-C03-4). probability_to_right_jump / coupling_state / middle are regenerated from the source and linked to the hand model by theorem "
              "(C03_gen_*_is_model). Partial: dimension >= 3, the SDE coupling on a copula driver, the own grid of an "
              "infinite-variation driver (cap insertions of level l-1), the size of the F-C03-2 bias in expectation "
              "and the probabilistic step 'equal generator data => equal law' are not proved.")
LEVEL_NOTE = ("Trusted: Coq kernel + vm_compute; py2coq (truncation, triplet conversions); floats modelled as Q (exact on dyadic inputs); "
              "Section hypotheses on mass/mid; uniformity/independence of the coupling uniform (C08).")
TECHNIQUE = "Coq proof over Q (sum localisation + interval additivity per coordinate, induction on levels) + vm_compute refutation witness + exact vm_compute correspondence"

REP_VAL = {"ZERO": 1, "CENTER": 2, "ONEONE": 3, "TILDE": 4}
ACCEPTED_1D = ["INVERSION", "ALIAS", "TABLE", "BINARYSEARCHTREE", "HUFFMANNTREE", "BINARYSEARCHTREEADAPTED1D"]


def make_product():
    from rpylib.product.product import Product
    from rpylib.product.payoff import Forward
    from rpylib.product.underlying import Spot
    return Product(payoff_underlying=Spot(), payoff=Forward(strike=1.0), maturity=1.0)


def build_coupling_1d(model, grid, method="INVERSION", product=None):
    from rpylib.process.coupling.couplingmarkovchain import CouplingMarkovChain
    from rpylib.distribution.sampling import SamplingMethod
    from rpylib.montecarlo.path import MLMCPath
    product = product or make_product()
    c = CouplingMarkovChain(model=model, method=SamplingMethod[method], grid=grid)
    c.initialisation(product)
    pms = [MLMCPath(deterministic_path=c.fine_process.deterministic_path, activate_spot_underlying=False)]
    c.pre_computation(mc_paths=2, product=product)
    return c, pms, product


class fixed_uniform:
    """the coupling uniform is the only source of randomness of coupling_state: feed it"""

    def __init__(self, uniform_obj, u):
        self.obj, self.u = uniform_obj, u

    def __enter__(self):
        self.old = self.obj.sample
        self.obj.sample = lambda *a, **k: self.u

    def __exit__(self, *a):
        self.obj.sample = self.old


class uniform_sequence:
    """feeds a given sequence of coupling uniforms (one per call of uniform.sample)"""

    def __init__(self, uniform_obj, us):
        self.obj, self.us = uniform_obj, list(us)

    def __enter__(self):
        self.old = self.obj.sample
        it = iter(self.us)
        self.obj.sample = lambda *a, **k: next(it)

    def __exit__(self, *a):
        self.obj.sample = self.old


def prob_right_impl(c, inc):
    from rpylib.process.coupling.couplingmarkovchain import CouplingSimulation
    try:
        return float(CouplingSimulation.probability_to_right_jump(c.grid, c.fine_process.model.mass, inc))
    except ZeroDivisionError:
        return None


def coupling_state_impl(c, inc, u):
    sim = c._path_coupling_simulation
    with fixed_uniform(c.uniform, u):
        try:
            return float(sim.coupling_state(inc))
        except ZeroDivisionError:
            return None


def oracle_level_1d(viol, c, q_coarse, axis_coarse, o_coarse, ctx, tol=Fr(1, 10 ** 12), central_coarse=None):
    """brute-force telescoping + copy/adjacent on the implementation's outputs at the current (refined) level;
    central_coarse = (h_left, h_right) of the un-refined grid (its own grid.middle, taken before refine): the mass coupled
    to a coarse increment 0 must be the mass of that old central cell outside the new one"""
    from rpylib.distribution.samplingfactory import create_q_vector
    grid = c.grid
    axis = [Fr(float(x)) for x in grid.axes[0]]
    o = grid.origin_coordinate.value
    n = len(axis)
    qf = [Fr(float(x)) for x in create_q_vector(c.fine_process.model.levy_triplet.nu, grid)]
    coarse_vals = [Fr(float(x)) for x in axis_coarse]
    if axis[0::2] != coarse_vals or o != 2 * o_coarse:
        viol("the coarse grid is not the even indices of the refined grid", **ctx)
        return
    inflow = [Fr(0)] * len(coarse_vals)
    for p in range(n):
        if p == o:
            continue
        inc = p - o
        if inc % 2 == 0:
            v = coupling_state_impl(c, inc, 0.5)
            if v is None or Fr(v) != axis[p]:
                viol("a fine jump landing on a coarse-grid state is not copied unchanged", increment=inc, **ctx)
                return
            inflow[p // 2] += qf[p]
            continue
        pr = prob_right_impl(c, inc)
        if pr is None:
            if qf[p] != 0:
                viol("probability_to_right_jump divides by zero for a state of positive rate", increment=inc, **ctx)
                return
            continue
        if pr != pr:      # 0.0/0.0 with numpy floats (closed forms whose two half-cell masses cancel to exactly 0.0): nan, no exception
            if qf[p] != 0:
                viol("probability_to_right_jump is nan for a state of positive rate", increment=inc, **ctx)
                return
            continue      # a state of (float) rate 0 is never sampled, like the ZeroDivisionError case
        if not 0.0 <= pr <= 1.0:
            viol("probability_to_right_jump is not a probability", increment=inc, got=pr, **ctx)
            return
        lo, hi = coupling_state_impl(c, inc, min(0.999999, pr + 2.0 ** -20) if pr < 1 else 0.9999999), coupling_state_impl(c, inc, max(0.0, pr - 2.0 ** -20))
        if pr < 1 and (lo is None or Fr(lo) != axis[p - 1]) or pr > 2.0 ** -20 and (hi is None or Fr(hi) != axis[p + 1]):
            viol("an odd fine jump is not moved to the adjacent coarse state (left above / right below the threshold)", increment=inc, **ctx)
            return
        inflow[(p + 1) // 2] += qf[p] * Fr(pr)
        inflow[(p - 1) // 2] += qf[p] * (1 - Fr(pr))
    scale = 1 + sum(Fr(float(x)) for x in q_coarse)
    if central_coarse is not None:
        mass = c.fine_process.model.mass
        hl_new = float(grid.middle(float(grid.axes[0][o - 1]), 0.0))
        hr_new = float(grid.middle(0.0, float(grid.axes[0][o + 1])))
        want0 = Fr(float(mass(central_coarse[0], hl_new))) + Fr(float(mass(hr_new, central_coarse[1])))
        if abs(inflow[o_coarse] - want0) > tol * scale:
            viol("fine mass coupled to a coarse increment 0 is not the old central cell minus the new one",
                 got=float(inflow[o_coarse]), want=float(want0), **ctx)
            return
    for j, want in enumerate(q_coarse):
        if j == o_coarse:
            continue
        want = Fr(float(want))
        if abs(inflow[j] - want) > tol * (scale if central_coarse is not None else 1 + want):
            viol("sum over fine states of rate x P(coupled to y) differs from the previous level's rate of y", coarse_state=j,
                 got=float(inflow[j]), want=float(want), **ctx)
            return


def _tie_spot(res):
    """cross-cutting TIE layer (DESIGN 2.2a): the GENERATED GenTie* definitions of GEN_DEPS (just regenerated and compiled by the driver)
    against the RUNNING Python functions on real objects, dyadic inputs, exact, one coqc (harness/tie_selftest.py: prob_right, q_vector, intensity_1d, dispatch_c1d, dispatch_nd2)"""
    try:
        import tie_selftest
        out = tie_selftest.selftest_spotchecks([m for m in GEN_DEPS if m.startswith("GenTie")], res.seed, name=PROP)
    except Exception as e:  # noqa: BLE001 -- the implementation raised on a spot-check input, or the case file does not compile
        res.broke("correspondence TIE spot check", f"could not run: {type(e).__name__}: {str(e)[-1500:]}")
        return
    if not out:
        res.broke("correspondence TIE spot check", "no spot-check group of harness/tie_selftest.py is covered by the GenTie modules of GEN_DEPS")
    for g, (n, bad) in sorted(out.items()):
        for i in range(n):
            res.count(("tie_spot", g, res.seed, i), kind="tie_spot")
            res.bump("tie_spot", g)
        if bad:
            res.broke(f"correspondence TIE {g}", f"generated definition(s) of group {g} disagree with the running Python function on "
                                                 f"{len(bad)} of {n} spot-check cases: indices {bad[:10]} (build/TIE/{PROP}.v)")


def correspond(res):
    rng = random.Random(res.seed)
    _tie_spot(res)

    def viol(what, **kw):
        res.violation(what, dict(kw))
    groups = []
    _one_d(res, rng, viol, groups)
    _real_grids(res, rng, viol)
    _samplers(res, rng, viol)
    _n_d(res, rng, viol, groups)
    _jump_time_simulators(res, rng, viol)
    _sde(res, rng, viol, groups)
    _sde_grid(res, rng, viol)
    header = ("From Coq Require Import ZArith QArith Qabs List Bool.\nFrom RV Require Import Base.QB Model.Grid Gen.GenC01Trunc Gen.GenC04Triplet "
              "Model.Chain Model.Drift Model.Coupling1d Model.CouplingNd Model.CouplingNdTwoMeasures Base.QVec Model.Euler Model.CouplingSde.\nImport ListNotations.\nOpen Scope Q_scope.\n" + SDE_HEADER +
              "Definition oq_eqb (a b : option Q) : bool := match a, b with Some x, Some y => Qeq_bool x y | None, None => true | _, _ => false end.\n"
              "Definition oq_close (a b : option Q) : bool := match a, b with Some x, Some y => Qle_bool (Qabs (x - y)) ((1 + Qabs y) * (1 # 281474976710656)) "
              "| None, None => true | _, _ => false end.\n"
              "Definition oqq_eqb (a b : option (Q * Q)) : bool := match a, b with Some x, Some y => Qeq_bool (fst x) (fst y) && Qeq_bool (snd x) (snd y) "
              "| None, None => true | _, _ => false end.")
    res.case_lemmas += len(groups)
    for gname, ty, chk, cases in groups:
        if not cases:
            res.broke(f"correspondence {gname}", "the generator produced no case for this group")
            continue
        bad, _ = parallel_coq_bad(PROP, f"cases_{gname}", header, ty, chk, cases, shard=40, jobs=14)
        if bad:
            res.broke(f"correspondence {gname}", f"model and implementation differ on {len(bad)} case(s), first: {cases[bad[0]][:1500]}")
        else:
            res.case_ok += 1


# ------------------------------------------------------------------------------------------ one-dimensional coupling
_CLOSE = "(fun x y => Qle_bool (Qabs (x - y)) ((1 + Qabs y) * (1 # 17592186044416)))"
LEVELS_TY = "list (Q * Q * Q) * list Q * nat * Q * Q * Z * bool * Q * Q * nat * (list Q * Q * nat * Q * Q * Q * Q)"
LEVELS_CHECK = ("fun c => match c with (ps, xs, o, h, md, rep, fv, a, sigma, n, (xs2, h2, o2, sf, sc, df, dc)) => "
                "let s := run_levels amid (step_sig2_of ps sigma fv) (step_drift_of ps md rep fv a) 0 n (mk_grid h o [xs]) in "
                "Nat.eqb (c_level s) n && qll_eqb (g_axes (c_grid s)) [xs2] && Qeq_bool (g_h (c_grid s)) h2 && Nat.eqb (g_o (c_grid s)) o2 && "
                f"{_CLOSE} sf (c_sig2_fine s) && {_CLOSE} sc (c_sig2_coarse s) && Qeq_bool df (c_drift_fine s) && "
                "match c_drift_coarse s with Some d => Qeq_bool dc d | None => false end end")


def level_chain_sigma(c):
    """equivalent diffusion coefficient of a chain built afresh by the library on a copy of the coupling's current grid: what the level-l
    component of the pair must use, whatever next_level did to the coupling's own fields"""
    from rpylib.process.markovchain.markovchain import MarkovChainProcess
    with warnings.catch_warnings():
        warnings.simplefilter("ignore")
        return float(MarkovChainProcess(c.model, method=c.method, grid=copy.deepcopy(c.grid)).equivalent_diffusion_coefficient)


def oracle_sigma_1d(viol, c, sig_chain, sig_chain_prev, ctx):
    """the Brownian part of the pair: fine coefficient = that of the chain of level l, coarse coefficient = that of the chain of level l-1
    (both recomputed on chains built afresh by the library; implementation only)"""
    sig_f, sig_c = float(c.equivalent_diffusion_coefficient_fine), float(c.equivalent_diffusion_coefficient_coarse)
    if sig_f != sig_chain or sig_f != float(c.fine_process.equivalent_diffusion_coefficient):
        viol("fine diffusion coefficient of the coupled pair is not the coefficient of the chain built on the refined grid (level l)",
             got=sig_f, want=sig_chain, **ctx)
    if sig_c != sig_chain_prev:
        viol("coarse diffusion coefficient is not the previous level's fine coefficient", got=sig_c, want=sig_chain_prev, **ctx)


def _one_d(res, rng, viol, groups):
    from rpylib.distribution.samplingfactory import create_q_vector
    from stepmeasure import random_step_measure, random_dyadic_axis, make_grid, step_spec, build_model
    thorough = res.tier == "thorough"
    state_cases, prob_cases, level_cases, slice_cases, diff_cases = [], [], [], [], []
    n_chains = 24 if not thorough else 240
    for it in range(n_chains):
        h = Fr(rng.choice([1, 1, 2]), rng.choice([2, 4]))
        nl, nr = rng.randrange(1, 6), rng.randrange(1, 6)
        axis, o = random_dyadic_axis(rng, nl, nr, h, bits=2)
        nu = random_step_measure(rng, axis[0], axis[-1], bits=2, cover=True, max_pieces=5, zero_prob=0.25)
        supp = rng.choice(["cover", "exceed", "inside"])
        if supp == "exceed":
            nu.breaks[0] -= Fr(rng.randrange(1, 5), 2)
            nu.breaks[-1] += Fr(rng.randrange(1, 5), 2)
        if nu.moment_q(axis[0], (axis[o - 1] + axis[o]) / 2, 0) + nu.moment_q((axis[o] + axis[o + 1]) / 2, axis[-1], 0) == 0:
            continue
        rng.random()
        # next_level is called in BOTH ways its callers use: with the engine's list of path managers (it % 2 == 0) and with path_managers=None
        # (CouplingSDE's call: it % 2 == 1); each way gets finite- and infinite-variation drivers (the equivalent diffusion coefficient depends on h
        # only for the latter)
        with_managers, fv = it % 2 == 0, (it // 2) % 2 == 1
        rep = rng.choice(["ZERO", "CENTER", "ONEONE", "TILDE"] if fv else ["CENTER", "ONEONE", "TILDE"])   # ZERO requires finite variation (ValueError otherwise)
        nu.finite_variation = fv
        a, sigma = Fr(rng.randrange(-8, 9), 8), Fr(rng.randrange(0, 5), 4)
        spec = step_spec(nu, a=a, sigma=sigma, representation=rep)
        grid = make_grid(axis, o, h)
        nlevels = rng.randrange(1, 5) if nl + nr <= 5 else rng.randrange(1, 3)
        ctx0 = dict(kind="1d", model=spec, axis=[float(x) for x in axis], o=o, h=float(h), path_managers=with_managers)
        try:
            with warnings.catch_warnings():
                warnings.simplefilter("ignore")
                c, pms, product = build_coupling_1d(build_model(spec), grid)
                if not with_managers:
                    pms = None
        except Exception as e:  # noqa
            viol(f"building the coupling raises {type(e).__name__}", reason=str(e)[:200], **ctx0)
            continue
        alias_grid = c.grid
        sig_chain_prev = level_chain_sigma(c)
        for level in range(1, nlevels + 1):
            ctx = dict(ctx0, level=level)
            axis_coarse = c.grid.axes[0].copy()
            o_coarse = c.grid.origin_coordinate.value
            q_coarse = create_q_vector(c.fine_process.model.levy_triplet.nu, c.grid).copy()
            drift_prev = float(c.fine_process.process_drift())
            sig_prev = float(c.equivalent_diffusion_coefficient_fine)
            try:
                with warnings.catch_warnings():
                    warnings.simplefilter("ignore")
                    c.next_level(mc_paths=2, path_managers=pms, product=product)
                    sig_chain = level_chain_sigma(c)
            except Exception as e:  # noqa
                viol(f"next_level raises {type(e).__name__}", reason=str(e)[:200], **ctx)
                break
            if with_managers:
                path = np.asarray(pms[-1].deterministic_path(np.array([0.0, 1.0])), dtype=float)
                drift_fine, drift_coarse = float(path[0][1] - path[0][0]), float(path[1][1] - path[1][0])
            else:       # no path manager: the caller freezes the drift itself (CouplingSDE: mc_drift_2h = the process_drift() read before the call)
                drift_fine, drift_coarse = float(c.fine_process.process_drift()), drift_prev
            sig_f, sig_c = float(c.equivalent_diffusion_coefficient_fine), float(c.equivalent_diffusion_coefficient_coarse)
            res.bump("next_level_call", f"{'path managers' if with_managers else 'path_managers=None'}, {'finite' if fv else 'INFINITE'} variation, "
                                        f"coefficient {'changes' if sig_f != sig_prev else 'unchanged'} with h")
            # ---- oracle: frozen drift / diffusion, level bookkeeping
            if c.level != level or c.grid is not alias_grid or c.fine_process.grid is not c.grid:
                viol("next_level: level counter / grid identity broken", **ctx)
            oracle_sigma_1d(viol, c, sig_chain, sig_chain_prev, ctx)
            if sig_c != sig_prev:
                viol("coarse diffusion coefficient is not the previous level's fine coefficient", got=sig_c, want=sig_prev, **ctx)
            sig_chain_prev = sig_chain
            if drift_coarse != drift_prev or drift_fine != float(c.fine_process.process_drift()):
                viol("coarse drift is not the previous level's (frozen) fine drift", got=drift_coarse, want=drift_prev, **ctx)
            oracle_level_1d(viol, c, q_coarse, axis_coarse, o_coarse, ctx)
            # ---- correspondence cases at this level
            xs = [float(x) for x in c.grid.axes[0]]
            o2 = c.grid.origin_coordinate.value
            incs = [p - o2 for p in range(len(xs)) if p != o2]
            if len(incs) > 24:
                incs = sorted(rng.sample(incs, 24))
            for inc in incs:
                res.count(("1d", it, level, inc), nontrivial=inc % 2 == 1, kind="coupling_state 1d")
                if inc % 2 == 0:
                    us = [0.5]
                else:
                    pr = prob_right_impl(c, inc)
                    prob_cases.append(f"({nu.coq()}, {lst([qlit(x) for x in xs])}, {natlit(o2)}, {zlit(inc)}, {opt(pr, qlit)})")
                    res.bump("odd_state", "zero rate" if pr is None else "pr=0" if pr == 0 else "pr=1" if pr == 1 else "interior")
                    us = [rng.randrange(0, 2 ** 20) / 2 ** 20]
                    if pr is not None:
                        us += [max(0.0, pr - 2.0 ** -24), min(1 - 2.0 ** -30, pr + 2.0 ** -24)]
                for u in us:
                    v = coupling_state_impl(c, inc, u)
                    state_cases.append(f"({nu.coq()}, {lst([qlit(x) for x in xs])}, {natlit(o2)}, {zlit(inc)}, {qlit(u)}, {opt(v, qlit)})")
            # the level machine (run_levels, C03_drift_diffusion_frozen) at EVERY level, for both ways of calling next_level
            md = float(c.fine_process.model.drift())
            res.count(("levels", it, level, with_managers), kind="next_level bookkeeping vs run_levels")
            level_cases.append(
                f"({nu.coq()}, {lst([qlit(float(x)) for x in axis])}, {natlit(o)}, {qlit(h)}, {qlit(md)}, {zlit(REP_VAL[rep])}, {blit(fv)}, "
                f"{qlit(a)}, {qlit(sigma)}, {natlit(level)}, ({lst([qlit(x) for x in xs])}, {qlit(float(c.grid.h))}, {natlit(o2)}, "
                f"{qlit(sig_f ** 2)}, {qlit(sig_c ** 2)}, {qlit(drift_fine)}, {qlit(drift_coarse)}))")
            if level == nlevels:
                sim = c._path_coupling_simulation
                # coupling_states_for_a_slice: a run of increments with its sequence of coupling uniforms
                all_incs = [p - o2 for p in range(len(xs)) if p != o2]
                sl = [rng.choice(all_incs) for _ in range(rng.randrange(1, 7))]
                us_seq = [rng.randrange(0, 2 ** 16) / 2 ** 16 for _ in sl]
                with uniform_sequence(c.uniform, us_seq):
                    try:
                        vals = [float(v) for v in sim.coupling_states_for_a_slice(list(sl))]
                    except ZeroDivisionError:
                        vals = None
                res.count(("slice", it, tuple(sl)), kind="coupling_states_for_a_slice")
                slice_cases.append(f"({nu.coq()}, {lst([qlit(x) for x in xs])}, {natlit(o2)}, {lst([zlit(i) for i in sl])}, "
                                   f"{lst([qlit(u) for u in us_seq])}, {opt(vals, lambda vs: lst([qlit(v) for v in vs]))})")
                # simulate_diffusion_with_coupling: the same Brownian increments w for both components
                nb = rng.randrange(1, 5)
                sq = [rng.randrange(1, 9) / 8 for _ in range(nb)]
                w = [rng.randrange(-16, 17) / 8 for _ in range(nb)]
                c.fine_process._path_simulation._brownian_increments.appendleft([list(w)])
                dfine, dcoarse = sim.simulate_diffusion_with_coupling(np.array(sq))
                res.count(("diffusion", it, tuple(w)), kind="simulate_diffusion_with_coupling")
                diff_cases.append(f"({qlit(sig_f)}, {qlit(sig_c)}, {lst([qlit(x) for x in sq])}, {lst([qlit(x) for x in w])}, "
                                  f"{lst([qlit(float(x)) for x in np.ravel(dfine)])}, {lst([qlit(float(x)) for x in np.ravel(dcoarse)])})")
                res.bump("levels", nlevels)
    groups.append(("state1d", "list (Q * Q * Q) * list Q * nat * Z * Q * option Q",
                   "fun c => match c with (ps, xs, o, inc, u, e) => oq_eqb (step_coupling_state ps xs o inc u) e end", state_cases))
    groups.append(("prob1d", "list (Q * Q * Q) * list Q * nat * Z * option Q",
                   "fun c => match c with (ps, xs, o, inc, e) => oq_close e (step_prob_right ps xs o inc) end", prob_cases))
    groups.append(("slice1d", "list (Q * Q * Q) * list Q * nat * list Z * list Q * option (list Q)",
                   "fun c => match c with (ps, xs, o, incs, us, e) => option_eqb qlist_eqb (coupling_slice amid (chain_mass ps xs) xs o incs us 0) e end",
                   slice_cases))
    lclose = "(fun a b => Nat.eqb (length a) (length b) && forallb (fun xy => Qle_bool (Qabs (fst xy - snd xy)) ((1 + Qabs (snd xy)) * (1 # 1000000000000))) (combine a b))"
    groups.append(("diffusion", "Q * Q * list Q * list Q * list Q * list Q",
                   f"fun c => match c with (cf, cc, dts, w, ef, ec) => {lclose} ef (fst (diffusion_pair cf cc dts w)) && "
                   f"{lclose} ec (snd (diffusion_pair cf cc dts w)) end", diff_cases))
    groups.append(("levels", LEVELS_TY, LEVELS_CHECK, level_cases))


def _samplers(res, rng, viol):
    """every sampling method the 1-d coupling constructor accepts must simulate coupled paths (F-C02-4 / F-C02-5)"""
    from stepmeasure import StepMeasure, StepModel, make_grid
    from rpylib.model.levymodel.levymodel import LevyRepresentation
    nu = StepMeasure([Fr(-2), Fr(0), Fr(3)], [Fr(3), Fr(3, 2)])
    axis = [Fr(-2), Fr(-1), Fr(-1, 2), Fr(0), Fr(1, 2), Fr(2), Fr(3)]
    for method in ACCEPTED_1D:
        model = StepModel(nu, a=0.375, sigma=0.5, representation=LevyRepresentation.CENTER)
        grid = make_grid(axis, 3, Fr(1, 2))
        res.count(("sampler", method), kind="simulate_one_path_with_coupling")
        try:
            with warnings.catch_warnings():
                warnings.simplefilter("ignore")
                np.random.seed(res.seed % 2 ** 31)
                c, pms, product = build_coupling_1d(model, grid, method)
                c.next_level(mc_paths=3, path_managers=pms, product=product)
                for _ in range(3):
                    c.simulate_one_path_with_coupling()
                # what the coupling does with increments drawn by THIS sampler: every coupled jump is a coarse-grid state,
                # equal to the fine state when that is a coarse state and one of its two neighbours otherwise
                ax_f = [float(x) for x in c.grid.axes[0]]
                o_f = c.grid.origin_coordinate.value
                incs = [int(i) for i in np.ravel(c.fine_process.sampling.sample(size=60))]
                vals = [float(v) for v in c._path_coupling_simulation.coupling_states_for_a_slice(incs)]
                prev = 0.0
                for inc, v in zip(incs, vals):
                    jump, pidx = v - prev, o_f + inc
                    prev = v
                    ok = (jump == ax_f[pidx]) if inc % 2 == 0 else (jump in (ax_f[pidx - 1], ax_f[pidx + 1]))
                    if not (0 <= pidx < len(ax_f)) or not ok or jump not in ax_f[0::2]:
                        viol(f"coupled simulation with SamplingMethod.{method}: a coupled jump is not the fine state / an adjacent coarse state",
                             kind="sampler", method=method, increment=inc, jump=jump)
                        break
                res.bump("sampler_increments_checked", method)
        except Exception as e:  # noqa
            fid = "F-C02-4" if isinstance(e, OverflowError) else "F-C02-5" if "truth value" in str(e) else None
            viol(f"coupled simulation with SamplingMethod.{method} raises {type(e).__name__}", kind="sampler", method=method,
                 reason=str(e)[:160], **({"finding": fid} if fid else {}))


# ------------------------------------------------------------------------------------------ real models on every grid constructor
def build_real_grid(gname, model, params):
    from rpylib.grid.spatial import CTMCUniformGrid, CTMCGridGeometric, CTMCGridProbabilityStep
    if gname == "probstep":
        return CTMCGridProbabilityStep(h=params["h"], model=model, minimum_probability_step=params["p"])
    if gname == "geometric":
        return CTMCGridGeometric(h=params["h"], model=model, nb_of_points_on_each_side=params["nb"])
    if gname == "bounds":
        return CTMCGridGeometric.create_with_bounds(h=params["h"], truncations=tuple(params["truncations"]), dimension=1,
                                                    nb_of_points_on_each_side=params["nb"])
    return CTMCUniformGrid(h=params["h"], model=model)


def run_real_levels(viol, spec, gname, params, levels, ctx):
    """brute-force telescoping oracle at levels 1..levels on a real model and a grid built by its public constructor"""
    from rpylib.distribution.samplingfactory import create_q_vector
    from stepmeasure import build_model
    model = build_model(spec)
    with warnings.catch_warnings():
        warnings.simplefilter("ignore")
        grid = build_real_grid(gname, model, params)
        c, pms, product = build_coupling_1d(model, grid)
        for level in range(1, levels + 1):
            g = c.grid
            o = g.origin_coordinate.value
            axis_coarse = g.axes[0].copy()
            central = (float(g.middle(float(axis_coarse[o - 1]), 0.0)), float(g.middle(0.0, float(axis_coarse[o + 1]))))
            q_coarse = create_q_vector(c.fine_process.model.levy_triplet.nu, g).copy()
            c.next_level(mc_paths=2, path_managers=pms, product=product)
            oracle_level_1d(viol, c, q_coarse, axis_coarse, o, dict(ctx, level=level), tol=Fr(1, 10 ** 8), central_coarse=central)
    return c


def _real_grids(res, rng, viol):
    from stepmeasure import real_model_specs
    thorough = res.tier == "thorough"
    specs = real_model_specs(rng)          # HEM, MERTON, VG, CGMY (finite var.), CGMY (infinite var.)
    plan = [(0, "probstep", {"h": 0.05, "p": 0.1}, 3), (1, "geometric", {"h": 0.02, "nb": rng.randrange(3, 8)}, 3),
            (2, "uniform", {"h": 0.05}, 2), (3, "bounds", {"h": 0.02, "truncations": [-rng.uniform(0.4, 1.2), rng.uniform(0.4, 1.2)], "nb": rng.randrange(3, 8)}, 3),
            (4, "geometric", {"h": 0.05, "nb": rng.randrange(3, 7)}, 2), (1, "probstep", {"h": 0.05, "p": 0.2}, 2)]
    if thorough:
        plan += [(k, g, dict(p), 3) for k in range(5) for g, p in (("uniform", {"h": 0.05}), ("geometric", {"h": 0.02, "nb": 6}),
                                                                   ("bounds", {"h": 0.02, "truncations": [-0.8, 0.9], "nb": 5}))]
        plan += [(k, "probstep", {"h": 0.05, "p": 0.1}, 3) for k in (1, 2)]
    for k, gname, params, levels in plan:
        spec = specs[k]
        ctx = dict(kind="1d-real", model=spec, grid=gname, params=params, levels=levels)
        res.count(("1d-real", spec["family"], gname, json.dumps(params, sort_keys=True), levels), kind=f"telescoping oracle {spec['family']} on {gname}")
        try:
            run_real_levels(viol, spec, gname, params, levels, ctx)
        except ValueError as e:
            res.bump("real_grid_ValueError", f"{spec['family']}/{gname}: {str(e)[:60]}")
        except Exception as e:  # noqa
            viol(f"coupling on a real grid raises {type(e).__name__}", reason=str(e)[:200], **ctx)


# ------------------------------------------------------------------------------------------ copula coupling (dimension 2)
def build_coupling_nd(model, grid):
    from rpylib.process.coupling.couplinglevycopula import CouplingProcessLevyCopula
    from rpylib.distribution.sampling import SamplingMethod
    product = make_product()
    c = CouplingProcessLevyCopula(levy_copula_model=model, grid=grid, method=SamplingMethod.INVERSION)
    c.initialisation(product)
    c.pre_computation(mc_paths=2, product=product)
    return c, product


def coupling_state_nd_impl(c, inc, u):
    sim = c._path_coupling_simulation
    f = getattr(sim, "_CouplingLevyCopulaSimulation__coupling_state")
    with fixed_uniform(c._uniform, u):
        try:
            with warnings.catch_warnings():
                warnings.simplefilter("ignore")
                v = f(tuple(int(i) for i in inc))
            return tuple(float(x) for x in v)
        except (ZeroDivisionError, ValueError):
            return None


def _repaired_coupling_state(self, increment, axis_coordinates=None):
    """A CANDIDATE REPAIR of F-C03-1, written against the real objects (= Coq coupling_state2_joint under the hypothesis same_measure of
    C03_telescoping_nd_joint): the corner probabilities are the masses of (corner half cells of the odd axes) x (whole cells of the even axes)
    over the mass of the fine cell, ALL read from fine_process.model (the truncated model the rates come from).  Same uniform, same corner
    order (itertools.product([-1, 1])) and same `u <= probability` threshold as the code.  Used only under `repaired_rule()`."""
    cp = self.coupling_process
    grid, dim = cp.grid, len(increment)
    position = grid.origin_coordinate + increment
    value = grid[position]
    odd = [k for k in range(dim) if increment[k] % 2]
    if not odd:
        return value
    mass = cp.fine_process.model.mass
    pos = [position[k] for k in range(dim)]

    def at(k, c):
        axis = grid.axes[k]
        return axis[min(len(axis) - 1, max(0, c))]
    lo = [0.5 * (at(k, pos[k] - 1) + value[k]) for k in range(dim)]
    hi = [0.5 * (value[k] + at(k, pos[k] + 1)) for k in range(dim)]
    total_mass = mass(tuple(lo), tuple(hi))
    u = cp._uniform.sample()
    probability = 0
    for p in itertools.product([-1, 1], repeat=len(odd)):
        a, b, out = list(lo), list(hi), list(value)
        for k, d in zip(odd, p):
            nb = at(k, pos[k] + d)
            m = 0.5 * (nb + value[k])
            a[k], b[k], out[k] = min(value[k], m), max(value[k], m), nb
        probability += mass(tuple(a), tuple(b)) / total_mass
        if u <= probability:
            return np.array(out)
    raise ValueError("repaired rule: probability={:6f}, u={:6f}".format(probability, u))


class repaired_rule:
    """replace CouplingLevyCopulaSimulation.__coupling_state by the candidate repair (class attribute; restored on exit)"""
    NAME = "_CouplingLevyCopulaSimulation__coupling_state"

    def __enter__(self):
        from rpylib.process.coupling.couplinglevycopula import CouplingLevyCopulaSimulation as K
        self.K, self.old = K, getattr(K, self.NAME)
        setattr(K, self.NAME, _repaired_coupling_state)

    def __exit__(self, *a):
        setattr(self.K, self.NAME, self.old)


def corner_law_nd(c, inc, tol_bits=34):
    """law of the coupled coarse value as a function of the uniform, read off the implementation by bisection on u:
    returns {value tuple: probability} (None if the state raises for every u)"""
    first = coupling_state_nd_impl(c, inc, 2.0 ** -40)
    if first is None:
        return None
    law, lo_u, cur = {}, 0.0, first
    while True:
        # largest u that still returns `cur`
        a, b = lo_u, 1.0
        vb = coupling_state_nd_impl(c, inc, 1.0 - 2.0 ** -40)
        if vb == cur:
            law[cur] = law.get(cur, 0.0) + (1.0 - lo_u)
            break
        for _ in range(tol_bits):
            m = 0.5 * (a + b)
            if coupling_state_nd_impl(c, inc, m) == cur:
                a = m
            else:
                b = m
        law[cur] = law.get(cur, 0.0) + (b - lo_u)
        lo_u = b
        nxt = coupling_state_nd_impl(c, inc, min(1.0 - 2.0 ** -40, b + 2.0 ** -30))
        if nxt is None or len(law) > 4:
            break
        cur = nxt
    return law


def cell_nd(axes, idx):
    """axes: one list per coordinate (a single list of floats is used for every coordinate)"""
    if not isinstance(axes[0], (list, tuple, np.ndarray)):
        axes = [axes] * len(idx)
    lo = tuple(0.5 * (float(ax[max(0, k - 1)]) + float(ax[k])) for ax, k in zip(axes, idx))
    hi = tuple(0.5 * (float(ax[k]) + float(ax[min(len(ax) - 1, k + 1)])) for ax, k in zip(axes, idx))
    return lo, hi


def faithful_inflow(axis, o, mass_rate, mass_joint, mass_marg, zero=0, axis2=None, rule="code"):
    """The coupled coarse inflow of the 2-d models of Model/CouplingNd.v / CouplingNdTwoMeasures.v re-stated over arbitrary mass functions,
    with the code's TWO measures kept apart: mass_rate = fine_process.model.mass (rates, truncated model), mass_joint / mass_marg =
    coupling_process.model.mass (corner masses, un-truncated model).
      rule="code"  (Coq inflow2_code; with one measure: inflow2) = what the RECORDED defect F-C03-1 predicts: corner probabilities of ONE odd
                   axis from the margin over that axis, joint quarter masses when both axes are odd;
      rule="joint" (Coq inflow2_joint_2m; with one measure: inflow2_joint) = the repaired rule: ONE odd axis -> joint mass of
                   (half cell of the odd axis) x (cell of the even axis); mass_marg is not used.
    axis = refined axis (list), o = its origin index.  Returns {coarse value pair: inflow}.  Exact when the mass functions return Fractions."""
    axes = (list(axis), list(axis2 if axis2 is not None else axis))
    half = (lambda x, y: (x + y) / 2)
    out = {}

    def add(v, m):
        out[v] = out.get(v, zero) + m

    def cell(d, k):
        ax = axes[d]
        return half(ax[max(0, k - 1)], ax[k]), half(ax[k], ax[min(len(ax) - 1, k + 1)])

    def halfcell(d, k, step):
        ax = axes[d]
        x, m = ax[k], half(ax[k + step], ax[k])
        return (min(x, m), max(x, m))
    for p1 in range(len(axes[0])):
        for p2 in range(len(axes[1])):
            if (p1, p2) == (o, o):
                continue
            (l1, h1), (l2, h2) = cell(0, p1), cell(1, p2)
            rate = mass_rate((l1, l2), (h1, h2))
            if rate == 0:
                continue
            odd1, odd2 = (p1 - o) % 2 == 1, (p2 - o) % 2 == 1
            x1, x2 = axes[0][p1], axes[1][p2]
            if not odd1 and not odd2:
                add((x1, x2), rate)
            elif odd1 and not odd2:
                tot = mass_marg(0, l1, h1) if rule == "code" else mass_joint((l1, l2), (h1, h2))
                if tot == 0:
                    continue
                for d in (-1, 1):
                    a, b = halfcell(0, p1, d)
                    add((axes[0][p1 + d], x2), rate * (mass_marg(0, a, b) if rule == "code" else mass_joint((a, l2), (b, h2))) / tot)
            elif odd2 and not odd1:
                tot = mass_marg(1, l2, h2) if rule == "code" else mass_joint((l1, l2), (h1, h2))
                if tot == 0:
                    continue
                for d in (-1, 1):
                    a, b = halfcell(1, p2, d)
                    add((x1, axes[1][p2 + d]), rate * (mass_marg(1, a, b) if rule == "code" else mass_joint((l1, a), (h1, b))) / tot)
            else:
                tot = mass_joint((l1, l2), (h1, h2))
                if tot == 0:
                    continue
                for d1 in (-1, 1):
                    for d2 in (-1, 1):
                        (a1, b1), (a2, b2) = halfcell(0, p1, d1), halfcell(1, p2, d2)
                        add((axes[0][p1 + d1], axes[1][p2 + d2]), rate * mass_joint((a1, a2), (b1, b2)) / tot)
    return out


def implementation_inflow_nd(c, only=None):
    """brute-force sum_fine rate x P(fine -> y) on the real objects: rate = fine_process.model.mass of the fine cell, P read off
    __coupling_state by bisection on the coupling uniform.  only = a coarse index pair: restrict to the fine states that can reach it.
    Returns ({coarse value pair: inflow}, None) or (None, (reason, increment, value))"""
    grid = c.grid
    faxes = [[float(x) for x in a] for a in grid.axes]
    o = grid.origin_coordinate.value[0]
    inflow = {}
    cells = itertools.product(range(len(faxes[0])), range(len(faxes[1])))
    if only is not None:
        cells = [(p1, p2) for p1 in range(2 * only[0] - 1, 2 * only[0] + 2) for p2 in range(2 * only[1] - 1, 2 * only[1] + 2)
                 if 0 <= p1 < len(faxes[0]) and 0 <= p2 < len(faxes[1])]
    for p in cells:
        if p == (o, o):
            continue
        lo, hi = cell_nd(faxes, p)
        with warnings.catch_warnings():
            warnings.simplefilter("ignore")
            rate = float(c.fine_process.model.mass(lo, hi))
        if rate <= 0:
            continue
        inc = (p[0] - o, p[1] - o)
        law = corner_law_nd(c, inc)
        if law is None:
            return None, ("raises", inc, None)
        for v, pr in law.items():
            if v[0] not in faxes[0][0::2] or v[1] not in faxes[1][0::2]:
                return None, ("off-grid", inc, v)
            inflow[v] = inflow.get(v, 0.0) + rate * pr
    return inflow, None


def cause_label(causes, tol):
    """which of the two recorded causes of F-C03-1 is active on this input (deviation from the coarse rates of the two single-cause models)"""
    a, b = causes.get("margin_rule", 0.0) > tol, causes.get("second_measure", 0.0) > tol
    return "margin rule + second measure" if a and b else "margin rule" if a else "second measure" if b else "none"


def oracle_nd(viol, c, coarse_chain, axis_coarse, o_coarse, ctx, tol=1e-6, predicted=None, alternatives=None):
    """brute-force sum_fine rate x P(fine -> y) (P read off the implementation by bisection on the coupling uniform) against
    (1) the rate of the chain built on the un-refined grid = the property, and (2) `predicted` = what the faithful model of
    the recorded defect F-C03-1 gives for the same input.  A mismatch with (1) that is NOT explained state by state by (2)
    is reported as a new violation; only a mismatch that agrees with (2) everywhere carries the tag F-C03-1.
    alternatives = {"margin_rule": inflow of the code's margin rule with ALL masses from the truncated model (first cause alone),
    "second_measure": inflow of the JOINT rule with corner masses from the un-truncated model (second cause alone)}: their worst deviation
    from the coarse rates goes into the violation (`causes`, `cause`), so that the two causes of F-C03-1 are told apart per input."""
    caxes = axis_coarse if isinstance(axis_coarse[0], (list, tuple, np.ndarray)) else [axis_coarse, axis_coarse]
    caxes = [[float(x) for x in a] for a in caxes]
    faxes = [[float(x) for x in a] for a in c.grid.axes]
    inflow, err = implementation_inflow_nd(c)
    if err is not None:
        reason, inc, v = err
        if reason == "raises":
            viol("copula coupling raises for a fine state of positive rate", increment=list(inc), **ctx)
        else:
            viol("copula coupling: a coupled coarse value is not a state of the coarse grid (own axis of each coordinate)",
                 finding="F-C03-3", increment=list(inc), value=list(v), **ctx)
        return None
    if faxes[0][0::2] != caxes[0] or faxes[1][0::2] != caxes[1]:
        viol("copula grid: the even indices of the refined axes are not the coarse axes", **ctx)
        return None
    worst, worst_dev = None, None
    causes = {k: 0.0 for k in (alternatives or {})}
    for j in itertools.product(range(len(caxes[0])), range(len(caxes[1]))):
        if j == (o_coarse, o_coarse):
            continue
        lo, hi = cell_nd(caxes, j)
        with warnings.catch_warnings():
            warnings.simplefilter("ignore")
            want = float(coarse_chain.model.mass(lo, hi))
        val = (caxes[0][j[0]], caxes[1][j[1]])
        got = inflow.get(val, 0.0)
        pred = float(predicted.get(val, 0.0)) if predicted is not None else None
        for k, alt in (alternatives or {}).items():
            causes[k] = max(causes[k], abs(float(alt.get(val, 0.0)) - want) / (1 + abs(want)))
        if pred is not None and abs(got - pred) > tol * (1 + abs(want)) and (worst_dev is None or abs(got - pred) > abs(worst_dev[1] - worst_dev[3])):
            worst_dev = (j, got, want, pred)
        if abs(got - want) > tol * (1 + abs(want)) and (worst is None or abs(got - want) > abs(worst[1] - worst[2])):
            worst = (j, got, want, pred)
    if worst_dev is not None:
        j, got, want, pred = worst_dev
        viol("copula coupling: the coupled inflow of a coarse state differs from what the faithful model of the current coupling code predicts",
             coarse_state=list(j), coarse_value=[caxes[0][j[0]], caxes[1][j[1]]], got=got, want=want, predicted=pred, **ctx)
    elif worst is not None:
        j, got, want, pred = worst
        extra = {"finding": "F-C03-1", "predicted": pred, "tol": tol} if pred is not None else {}
        if alternatives:
            extra.update(causes=causes, cause=cause_label(causes, tol))
        viol("copula coupling: sum over fine states of rate x P(coupled to y) differs from the previous level's rate of y",
             coarse_state=list(j), coarse_value=[caxes[0][j[0]], caxes[1][j[1]]], got=got, want=want, **extra, **ctx)
    return causes


KNOWN_TOL = {"nd-table": 1e-6, "nd-real": 1e-5}      # tolerances of the two oracle streams; NOT taken from the violation


def build_nd_from_replay(r):
    """the objects of a copula replay (kind nd-table / nd-real), rebuilt from its fields only: (coupling at level 1, chain on the un-refined grid,
    coarse axes, table or None)"""
    from rpylib.grid.spatial import CTMCGrid
    from rpylib.process.markovchain.markovchainlevycopula import MarkovChainLevyCopula
    from rpylib.distribution.sampling import SamplingMethod
    from stepmeasure import Table2, table_copula_model, build_copula_model
    table = None
    if r["kind"] == "nd-table":
        table = Table2([tuple(Fr(v) for v in p) for p in r["table"]])
        model = table_copula_model(table, sigma=(0.5, 0.25), fv=tuple(r.get("fv", [True, True])))
    else:
        model = build_copula_model(r["models"], "clayton", theta=0.7, eta=0.3)
    ax, ax1 = list(r["axis"]), list(r.get("axis1", r["axis"]))
    grid = CTMCGrid(h=r["h"], origin_coordinate=r["o"], axes=[np.array(ax), np.array(ax1)])
    with warnings.catch_warnings():
        warnings.simplefilter("ignore")
        coarse_chain = MarkovChainLevyCopula(levy_copula_model=model, grid=copy.deepcopy(grid), method=SamplingMethod.INVERSION)
        c, product = build_coupling_nd(model, grid)
        c.next_level(mc_paths=2, path_managers=None, product=product)
    return c, coarse_chain, [ax, ax1], table


def model_predictions_nd(c, table=None):
    """the three model inflows on the real objects' own mass functions (floats; exact Fractions for a table whose support the grid covers):
    code = the faithful two-measure model of the current code; margin_rule / second_measure = the two single-cause models; repaired = joint
    rule with one measure (C03_telescoping_nd_joint: must give the coarse rates)"""
    xs, ys = [float(x) for x in c.grid.axes[0]], [float(x) for x in c.grid.axes[1]]
    o2 = c.grid.origin_coordinate.value[0]
    fm, um = c.fine_process.model, c.model      # rates: the truncated chain model; corner masses: the un-truncated model (couplinglevycopula.py:177)

    def fl(d):
        return {(float(k[0]), float(k[1])): float(v) for k, v in d.items()}
    with warnings.catch_warnings():
        warnings.simplefilter("ignore")
        f_joint = lambda a, b: float(fm.mass(a, b))                                # noqa: E731
        f_marg = lambda k, a, b: float(fm.mass((a,), (b,), [k]))                   # noqa: E731
        u_joint = lambda a, b: float(um.mass(a, b, [0, 1]))                        # noqa: E731
        u_marg = lambda k, a, b: float(um.mass((a,), (b,), [k]))                   # noqa: E731
        kw = dict(zero=0.0, axis2=ys)
        return {"code": fl(faithful_inflow(xs, o2, f_joint, u_joint, u_marg, **kw)),
                "margin_rule": fl(faithful_inflow(xs, o2, f_joint, f_joint, f_marg, **kw)),
                "second_measure": fl(faithful_inflow(xs, o2, f_joint, u_joint, u_marg, rule="joint", **kw)),
                "repaired": fl(faithful_inflow(xs, o2, f_joint, f_joint, f_marg, rule="joint", **kw))}


_KNOWN_CACHE = {}


def matches_known_sde_grid(v, r):
    """F-C03-2 is accepted only if RE-COMPUTED from the replay's input fields (driver spec, a, x0, level, seed): the objects are rebuilt, the same
    path is drawn again, and (a) a = DiagX, the own grid is exact and drops at least one time; (b) the recomputed coarse end value and the recomputed
    end value of the real level-(l-1) process on the own grid are the reported ones; (c) each equals the closed form x0 * prod(1 + dY) on its grid
    (the recorded cause: nothing but the grid differs) and they differ; (d) mc_drift_2h is the level-(l-1) process' driver drift; (e) CONTROL: with
    Constant(c) on the same driver and seed the two end values agree.  The numbers written in the violation are only compared with."""
    if r.get("finding") != "F-C03-2" or r.get("kind") != "sde-grid" or v.get("what") != SDE_GRID_WHAT or r.get("a") != "diag":
        return False
    key = "sde-grid:" + json.dumps(r, sort_keys=True, default=str)
    if key in _KNOWN_CACHE:
        return _KNOWN_CACHE[key]
    ok = False
    try:
        near = lambda x, y: abs(x - y) <= SDE_GRID_TOL * (1 + abs(y))      # noqa
        a = sde_own_grid_run(r["spec"], "diag", r["c"], r["x0"], int(r["level"]), int(r["seed"]))
        c = sde_own_grid_run(r["spec"], "const", float(r["c"]) if r["c"] else 1.0, r["x0"], int(r["level"]), int(r["seed"]))
        ok = (a["exact"] and a["merged"] > 0 and int(r["level"]) >= 1
              and near(a["got"], float(r["got"])) and near(a["want"], float(r["want"]))
              and near(a["got"], a["closed_code"]) and near(a["want"], a["closed_own"]) and not near(a["got"], a["want"])
              and a["mu_2h"] == a["mu_prev"] and a["mu_2h"] != 0.0
              and c["merged"] == a["merged"] and near(c["got"], c["want"]))
    except Exception:  # noqa: a replay that cannot be rebuilt is not the recorded finding
        ok = False
    _KNOWN_CACHE[key] = ok
    return ok


def matches_known(v, known):
    """F-C03-1 is accepted only for a copula telescoping mismatch (kind nd-table / nd-real) that is RE-COMPUTED here from the replay's input
    fields alone: the objects are rebuilt, the implementation's coupled inflow of the reported coarse state is measured again (bisection on
    the coupling uniform), the coarse rate is read again from the chain on the un-refined grid, and the faithful two-measure model of the
    recorded defect (margin masses for one odd axis; corner masses from the un-truncated coupling_process.model, rates from the truncated
    fine_process.model) is evaluated again.  Accepted iff the recomputed inflow (a) is the reported one, (b) equals the model's prediction
    and (c) the prediction violates the property, all at the stream's constant tolerance, and (d) at least one of the two recorded causes is
    active on this input (single-cause models).  The numbers written in the violation are only compared with, never trusted."""
    r = v.get("replay", {})
    if known.get("id") == "F-C03-2":
        return matches_known_sde_grid(v, r)
    if known.get("id") != "F-C03-1" or r.get("finding") != "F-C03-1" or r.get("kind") not in KNOWN_TOL:
        return False
    if "differs from the previous level's rate of y" not in v.get("what", ""):
        return False
    if not all(isinstance(r.get(k), (int, float)) for k in ("predicted", "got", "want")):
        return False
    js = r.get("coarse_state")
    if not (isinstance(js, list) and len(js) == 2 and all(isinstance(x, int) for x in js)) or tuple(js) == (r.get("o"), r.get("o")):
        return False
    key = json.dumps(r, sort_keys=True, default=str)
    if key in _KNOWN_CACHE:
        return _KNOWN_CACHE[key]
    ok = False
    try:
        c, coarse_chain, caxes, table = build_nd_from_replay(r)
        j = tuple(js)
        val = (float(caxes[0][j[0]]), float(caxes[1][j[1]]))
        inflow, err = implementation_inflow_nd(c, only=j)
        if err is None:
            got = inflow.get(val, 0.0)
            with warnings.catch_warnings():
                warnings.simplefilter("ignore")
                want = float(coarse_chain.model.mass(*cell_nd(caxes, j)))
            preds = model_predictions_nd(c, table)
            pred = preds["code"].get(val, 0.0)
            tol = KNOWN_TOL[r["kind"]] * (1 + abs(want))
            reported = all(abs(x - y) <= 1e-9 * (1 + abs(x)) for x, y in ((got, r["got"]), (want, r["want"]), (pred, r["predicted"])))
            causes = {k: abs(preds[k].get(val, 0.0) - want) for k in ("margin_rule", "second_measure")}
            ok = (reported and abs(got - pred) <= tol and abs(pred - want) > tol and max(causes.values()) > tol
                  and abs(preds["repaired"].get(val, 0.0) - want) <= tol)
    except Exception:  # noqa: a replay that cannot be rebuilt is not the recorded finding
        ok = False
    _KNOWN_CACHE[key] = ok
    return ok


WITNESS_TABLE = [(Fr(1, 4), Fr(1, 2), Fr(-1, 4), Fr(0), 4), (Fr(1, 4), Fr(1, 2), Fr(0), Fr(1, 4), 4), (Fr(1, 2), Fr(3, 4), Fr(1, 4), 2, 4)]


def random_table(rng, bound):
    """2-5 dyadic pieces, each inside one quadrant of [-bound, bound]^2, densities multiples of 3/4 or 4"""
    from stepmeasure import Table2
    pieces = []
    for _ in range(rng.randrange(2, 6)):
        def side():
            s = rng.choice([-1, 1])
            a, b = sorted(rng.sample(range(0, int(4 * bound) + 1), 2))
            return (Fr(a, 4), Fr(b, 4)) if s > 0 else (Fr(-b, 4), Fr(-a, 4))
        (l1, h1), (l2, h2) = side(), side()
        pieces.append((l1, h1, l2, h2, Fr(rng.choice([3, 4, 6, 8, 12]), rng.choice([1, 2, 4]))))
    return Table2(pieces)


AXES_POOL = [[-2.0, -1.0, 0.0, 1.0, 2.0], [-2.0, -0.5, 0.0, 0.5, 2.0], [-2.0, -1.5, 0.0, 0.75, 2.0], [-2.0, -0.25, 0.0, 1.25, 2.0]]
AXES_POOL7 = [[-2.0, -1.0, -0.5, 0.0, 0.5, 1.5, 2.0], [-2.0, -1.5, -0.25, 0.0, 1.0, 1.25, 2.0]]


def frozen_check(viol, res, c, pms, product, ctx, label):
    """one next_level with path managers: coarse drift vector and coarse diffusion matrix must be the fine ones of the level left"""
    drift_prev = np.array(c.fine_process.process_drift(), dtype=float).copy()
    dm_prev = np.real(np.array(c._diffusion_matrix_h, dtype=complex)).copy()
    lvl = c.level
    c.next_level(mc_paths=2, path_managers=pms, product=product)
    path = np.asarray(pms[-1].deterministic_path(np.array([0.0, 1.0])), dtype=float)    # [fine, coarse] x dim x time
    res.count(("nd-frozen", label, lvl), kind="copula next_level: frozen drift / diffusion matrix")
    res.bump("nd_frozen_matrix", "non-zero, level-dependent" if np.any(dm_prev != np.real(np.array(c._diffusion_matrix_h, dtype=complex))) else
             ("non-zero" if np.any(dm_prev) else "zero"))
    if c.level != lvl + 1 or not np.array_equal(path[1][:, 1] - path[1][:, 0], drift_prev.ravel()) or \
            not np.array_equal(path[0][:, 1] - path[0][:, 0], np.array(c.fine_process.process_drift(), dtype=float).ravel()):
        viol("copula coupling: the coarse drift is not the previous level's (frozen) fine drift", level=lvl + 1, **ctx)
    if c._diffusion_matrix_2h is None or not np.array_equal(np.real(np.array(c._diffusion_matrix_2h, dtype=complex)), dm_prev) or \
            not np.array_equal(np.array(c._diffusion_matrix_h), np.array(c.fine_process._path_simulation.diffusion_matrix)):
        viol("copula coupling: the coarse diffusion matrix is not the previous level's fine matrix", level=lvl + 1, **ctx)


def slice_check_nd(viol, res, c, rng, ctx, n=25):
    """the copula coupled simulators' inner loop (_coupling_states_for_a_slice): every coupled jump is a coarse-grid state whose
    coordinates are equal (even coordinate) or adjacent on their own axis (odd coordinate) to the fine state's"""
    axes = [[float(x) for x in a] for a in c.grid.axes]
    o = c.grid.origin_coordinate.value[0]
    d = len(axes)
    incs = []
    while len(incs) < n:
        inc = tuple(rng.randrange(-o, len(axes[k]) - o) for k in range(d))
        if any(inc):
            incs.append(inc)
    sim = c._path_coupling_simulation
    try:
        with warnings.catch_warnings():
            warnings.simplefilter("ignore")
            np.random.seed(rng.randrange(2 ** 31))
            vals = sim._coupling_states_for_a_slice(np.array(incs))
    except (ZeroDivisionError, ValueError):
        res.bump("nd_slice", "a sampled increment has total mass 0 (raises): skipped")
        return
    prev = np.zeros(d)
    for inc, v in zip(incs, vals):
        jump = np.array(v, dtype=float) - prev
        prev = np.array(v, dtype=float)
        for k in range(d):
            pk = o + inc[k]
            near = lambda x, y: abs(x - y) <= 1e-12 * (1 + abs(y))      # the slice accumulates floats: differences carry rounding
            ok = near(jump[k], axes[k][pk]) if inc[k] % 2 == 0 else (near(jump[k], axes[k][pk - 1]) or near(jump[k], axes[k][pk + 1]))
            if not ok or not any(near(jump[k], y) for y in axes[k][0::2]):
                viol("copula coupled simulation (_coupling_states_for_a_slice): a coupled jump is not the fine state / an adjacent coarse state of its own axis",
                     finding="F-C03-3", increment=list(inc), coordinate=k, jump=[float(x) for x in jump], **ctx)
                return
    res.count(("nd-slice", d, len(incs)), kind=f"_coupling_states_for_a_slice dim={d}")


def _n_d(res, rng, viol, groups):
    from rpylib.grid.spatial import CTMCGrid, CTMCUniformGrid
    from rpylib.process.markovchain.markovchainlevycopula import MarkovChainLevyCopula
    from rpylib.distribution.sampling import SamplingMethod
    from rpylib.montecarlo.path import MLMCPath
    from stepmeasure import Table2, table_copula_model, real_model_specs, build_copula_model, step_spec, random_step_measure
    thorough = res.tier == "thorough"
    nd_cases, infl_cases, joint_cases, code2m_cases, sj_cases = [], [], [], [], []
    tables = [("witness", Table2(WITNESS_TABLE), AXES_POOL[0], AXES_POOL[0], 2, 1.0)]
    for k in range(3 if not thorough else 14):
        pool = AXES_POOL7 if k % 3 == 2 else AXES_POOL
        ax0 = pool[rng.randrange(len(pool))]
        ax1 = ax0 if k == 0 else pool[rng.randrange(len(pool))]        # unequal axes (same length, same origin index)
        tables.append((f"random{k}", random_table(rng, 2), ax0, ax1, ax0.index(0.0), 0.5))
    for name, table, ax0, ax1, o, h in tables:
        fv = (False, True) if name == "witness" else (rng.random() < 0.5, rng.random() < 0.7)
        model = table_copula_model(table, sigma=(0.5, 0.25), fv=fv)
        grid = CTMCGrid(h=h, origin_coordinate=o, axes=[np.array(ax0), np.array(ax1)])
        ctx = dict(kind="nd-table", table=[[str(v) for v in p] for p in table.pieces], axis=ax0, axis1=ax1, o=o, h=h, fv=list(fv))
        res.bump("nd_axes", "equal" if ax0 == ax1 else "unequal")
        try:
            with warnings.catch_warnings():
                warnings.simplefilter("ignore")
                coarse_chain = MarkovChainLevyCopula(levy_copula_model=model, grid=copy.deepcopy(grid), method=SamplingMethod.INVERSION)
                c, product = build_coupling_nd(model, grid)
                pms = [MLMCPath(deterministic_path=c.fine_process.deterministic_path, activate_spot_underlying=False)]
                frozen_check(viol, res, c, pms, product, ctx, name)
                if name == "witness":      # a second next_level on a copy
                    frozen_check(viol, res, copy.deepcopy(c), copy.deepcopy(pms), product, ctx, name + "-2")
        except Exception as e:  # noqa
            viol(f"building the copula coupling raises {type(e).__name__}", reason=str(e)[:200], **ctx)
            continue
        xs, ys = [float(x) for x in c.grid.axes[0]], [float(x) for x in c.grid.axes[1]]
        o2 = c.grid.origin_coordinate.value[0]
        if c.grid.origin_coordinate.value != (o2, o2) or xs[0::2] != ax0 or ys[0::2] != ax1:
            viol("copula grid: after refine the coarse axes are not the even indices of each axis / origin indices differ", **ctx)
            continue
        slice_check_nd(viol, res, c, rng, ctx)
        # exact correspondence of __coupling_state
        incs = [(p1 - o2, p2 - o2) for p1 in range(len(xs)) for p2 in range(len(ys)) if (p1, p2) != (o2, o2)]
        if len(incs) > 70:
            incs = rng.sample(incs, 70)
        for inc in incs:
            us = [0.5] if inc[0] % 2 == 0 and inc[1] % 2 == 0 else [rng.randrange(1, 2 ** 16) / 2 ** 16, 2.0 ** -12, 1 - 2.0 ** -12]
            odd = (inc[0] % 2) + (inc[1] % 2)
            if odd:   # uniforms next to the cumulative corner probabilities
                law = corner_law_nd(c, inc, tol_bits=30)
                if law:
                    acc = 0.0
                    for v, pr in list(law.items())[:-1]:
                        acc += pr
                        us += [max(2.0 ** -30, acc - 2.0 ** -20), min(1 - 2.0 ** -30, acc + 2.0 ** -20)]
            for u in us:
                v = coupling_state_nd_impl(c, inc, u)
                res.count(("nd", name, inc, u), nontrivial=odd > 0, kind=f"__coupling_state 2d ({odd} odd axes)")
                nd_cases.append(f"({table.coq()}, {lst([qlit(x) for x in xs])}, {lst([qlit(x) for x in ys])}, {natlit(o2)}, {zlit(inc[0])}, "
                                f"{zlit(inc[1])}, {qlit(u)}, {opt(v, lambda t: '(' + qlit(t[0]) + ', ' + qlit(t[1]) + ')')})")
        # the faithful model of the recorded defect F-C03-1, exact Fractions on the table (support inside the grid)
        bigq = table.support_bound() + 1
        pred = faithful_inflow([Fr(x) for x in xs], o2, lambda a, b: table.mass_q(a, b), lambda a, b: table.mass_q(a, b),
                               lambda k, a, b: table.mass_q((a, -bigq), (b, bigq)) if k == 0 else table.mass_q((-bigq, a), (bigq, b)),
                               zero=Fr(0), axis2=[Fr(y) for y in ys])
        js = [(j1, j2) for j1 in range(len(ax0)) for j2 in range(len(ax1)) if (j1, j2) != (o, o)]
        if len(js) > 10 and name != "witness":
            js = rng.sample(js, 10)
        for (j1, j2) in js:       # ties the Python re-statement to the Coq model Model/CouplingNd.v (inflow2)
            infl_cases.append(f"({table.coq()}, {lst([qlit(x) for x in ax0])}, {lst([qlit(x) for x in ax1])}, {natlit(o)}, {natlit(j1)}, {natlit(j2)}, "
                              f"{qlit(pred.get((Fr(ax0[j1]), Fr(ax1[j2])), Fr(0)))})")
        # the JOINT rule (specification of a repair), exact Fractions: with ONE measure it must give the coarse rates (instance of
        # C03_telescoping_nd_joint); tied to Coq's inflow2_joint_tab by the group jointnd
        mq, mg = (lambda a, b: table.mass_q(a, b)), (lambda k, a, b: table.mass_q((a, -bigq), (b, bigq)) if k == 0 else table.mass_q((-bigq, a), (bigq, b)))
        fxs, fys = [Fr(x) for x in xs], [Fr(y) for y in ys]
        pred_joint = faithful_inflow(fxs, o2, mq, mq, mg, zero=Fr(0), axis2=fys, rule="joint")
        for (j1, j2) in [(a, b) for a in range(len(ax0)) for b in range(len(ax1)) if (a, b) != (o, o)]:
            lo, hi = cell_nd([[Fr(x) for x in ax0], [Fr(y) for y in ax1]], (j1, j2))
            if pred_joint.get((Fr(ax0[j1]), Fr(ax1[j2])), Fr(0)) != table.mass_q(lo, hi):
                res.broke("joint rule (specification) on a table", f"inflow of the joint rule differs from the coarse rate at {(j1, j2)} of table {name}")
                break
        # TWO MEASURES on tables: rates from this table, corner masses from ANOTHER table (Coq inflow2_code_tab / inflow2_joint_tab psr psc)
        other = Table2(WITNESS_TABLE) if name != "witness" else random_table(rng, 2)
        oq = (lambda a, b: other.mass_q(a, b))
        obig = other.support_bound() + 1
        og = (lambda k, a, b: other.mass_q((a, -obig), (b, obig)) if k == 0 else other.mass_q((-obig, a), (obig, b)))
        pred_code_2m = faithful_inflow(fxs, o2, mq, oq, og, zero=Fr(0), axis2=fys)
        pred_joint_2m = faithful_inflow(fxs, o2, mq, oq, og, zero=Fr(0), axis2=fys, rule="joint")
        for (j1, j2) in js:
            key = (Fr(ax0[j1]), Fr(ax1[j2]))
            head = f"{lst([qlit(x) for x in ax0])}, {lst([qlit(x) for x in ax1])}, {natlit(o)}, {natlit(j1)}, {natlit(j2)}"
            joint_cases.append(f"({table.coq()}, {table.coq()}, {head}, {qlit(pred_joint.get(key, Fr(0)))})")
            joint_cases.append(f"({table.coq()}, {other.coq()}, {head}, {qlit(pred_joint_2m.get(key, Fr(0)))})")
            code2m_cases.append(f"({table.coq()}, {other.coq()}, {head}, {qlit(pred_code_2m.get(key, Fr(0)))})")
            res.count(("nd-2m", name, j1, j2), kind="two-measure / joint-rule model inflow (Coq vs exact Python re-statement)")
        fl = (lambda d: {(float(k[0]), float(k[1])): float(v) for k, v in d.items()})
        oracle_nd(viol, c, coarse_chain, [ax0, ax1], o, ctx, predicted=fl(pred), alternatives={"margin_rule": fl(pred), "second_measure": fl(pred_joint)})
        # the joint rule EVALUATED ON THE REAL OBJECTS: __coupling_state replaced by the candidate repair; (1) its coupled value as a function of
        # the uniform is Coq's coupling_state2_joint (group statejoint), (2) the oracle must find the identity (any report breaks the obligation)
        with repaired_rule():
            rep = []
            oracle_nd(lambda what, **kw: rep.append((what, kw.get("coarse_state"), kw.get("got"), kw.get("want"))), c, coarse_chain, [ax0, ax1], o, {})
            if rep:
                res.broke("joint rule on the patched implementation (table)", f"table {name}: {rep[0]}")
            res.count(("nd-repaired", name), kind="telescoping oracle on the implementation patched with the joint rule")
            one_odd = [inc for inc in incs if (inc[0] % 2) + (inc[1] % 2) == 1]
            for inc in (one_odd if len(one_odd) <= 24 else rng.sample(one_odd, 24)) + [i2 for i2 in incs if i2[0] % 2 and i2[1] % 2][:4]:
                us = [rng.randrange(1, 2 ** 16) / 2 ** 16, 2.0 ** -12, 1 - 2.0 ** -12]
                law = corner_law_nd(c, inc, tol_bits=30)
                if law:
                    acc = 0.0
                    for vv, pr in list(law.items())[:-1]:
                        acc += pr
                        us += [max(2.0 ** -30, acc - 2.0 ** -20), min(1 - 2.0 ** -30, acc + 2.0 ** -20)]
                for u in us:
                    vv = coupling_state_nd_impl(c, inc, u)
                    res.count(("nd-joint", name, inc, u), kind="repaired __coupling_state 2d (joint rule)")
                    sj_cases.append(f"({table.coq()}, {lst([qlit(x) for x in xs])}, {lst([qlit(x) for x in ys])}, {natlit(o2)}, {zlit(inc[0])}, "
                                    f"{zlit(inc[1])}, {qlit(u)}, {opt(vv, lambda t: '(' + qlit(t[0]) + ', ' + qlit(t[1]) + ')')})")
    groups.append(("inflownd", "list (Q * Q * Q * Q * Q) * list Q * list Q * nat * nat * nat * Q",
                   "fun c => match c with (ps, xs, ys, o, j1, j2, e) => "
                   "Qeq_bool (inflow2 ps (refine_axis amid xs) (refine_axis amid ys) (2 * o) (2 * j1) (2 * j2)) e end", infl_cases))
    two_tab = "list (Q * Q * Q * Q * Q) * list (Q * Q * Q * Q * Q) * list Q * list Q * nat * nat * nat * Q"
    groups.append(("jointnd", two_tab, "fun c => match c with (psr, psc, xs, ys, o, j1, j2, e) => "
                   "Qeq_bool (inflow2_joint_tab psr psc (refine_axis amid xs) (refine_axis amid ys) (2 * o) (2 * j1) (2 * j2)) e end", joint_cases))
    groups.append(("inflownd2m", two_tab, "fun c => match c with (psr, psc, xs, ys, o, j1, j2, e) => "
                   "Qeq_bool (inflow2_code_tab psr psc (refine_axis amid xs) (refine_axis amid ys) (2 * o) (2 * j1) (2 * j2)) e end", code2m_cases))
    groups.append(("statejoint", "list (Q * Q * Q * Q * Q) * list Q * list Q * nat * Z * Z * Q * option (Q * Q)",
                   "fun c => match c with (ps, xs, ys, o, i1, i2, u, e) => oqq_eqb (table_coupling_state2_joint ps xs ys o i1 i2 u) e end", sj_cases))
    groups.append(("statend", "list (Q * Q * Q * Q * Q) * list Q * list Q * nat * Z * Z * Q * option (Q * Q)",
                   "fun c => match c with (ps, xs, ys, o, i1, i2, u, e) => oqq_eqb (table_coupling_state2 ps xs ys o i1 i2 u) e end", nd_cases))
    # real margins with a Clayton copula (tolerance): the experiment of DESIGN section 6, now with path managers
    specs = real_model_specs(rng)
    hem = [s for s in specs if s["family"] == "HEM"][0]
    model = build_copula_model([hem, hem], "clayton", theta=0.7, eta=0.3)
    grid = CTMCUniformGrid.create_from_fixed_nb_of_points(h=0.1, nb_of_points=4, dimension=2)
    ax = [float(x) for x in grid.axes[0]]
    ctx = dict(kind="nd-real", models=[hem, hem], copula="clayton(0.7,0.3)", axis=ax, o=2, h=0.1)
    try:
        with warnings.catch_warnings():
            warnings.simplefilter("ignore")
            coarse_chain = MarkovChainLevyCopula(levy_copula_model=model, grid=copy.deepcopy(grid), method=SamplingMethod.INVERSION)
            c, product = build_coupling_nd(model, grid)
            pms = [MLMCPath(deterministic_path=c.fine_process.deterministic_path, activate_spot_underlying=False)]
            frozen_check(viol, res, c, pms, product, ctx, "real")
        res.count(("nd-real", "HEMxHEM clayton"), kind="copula coupling, real margins")
        # rates from the truncated chain model, corner masses from the un-truncated one (as the code): BOTH causes of F-C03-1 are active here
        preds = model_predictions_nd(c)
        causes = oracle_nd(viol, c, coarse_chain, ax, 2, ctx, tol=1e-5, predicted=preds["code"],
                           alternatives={k: preds[k] for k in ("margin_rule", "second_measure", "repaired")})
        if causes is not None:
            res.bump("nd_real_causes", cause_label(causes, 1e-5))
            if causes.get("repaired", 0.0) > 1e-5:
                res.broke("joint rule (specification) on real margins", f"joint rule with one measure misses the coarse rates by {causes['repaired']:.3g}")
        with repaired_rule():       # the joint rule evaluated on the real objects (truncated HEM x HEM Clayton): the oracle must find the identity
            rep = []
            oracle_nd(lambda what, **kw: rep.append((what, kw.get("coarse_state"), kw.get("got"), kw.get("want"))), c, coarse_chain, ax, 2, {}, tol=1e-5)
            if rep:
                res.broke("joint rule on the patched implementation (real margins)", str(rep[0]))
            res.count(("nd-repaired", "HEMxHEM clayton"), kind="telescoping oracle on the implementation patched with the joint rule")
        with warnings.catch_warnings():
            warnings.simplefilter("ignore")
            np.random.seed(res.seed % 2 ** 31)
            for _ in range(2):
                c.simulate_one_path_with_coupling()       # the fixed-dates coupled simulator end to end
        slice_check_nd(viol, res, c, rng, ctx, n=15)
    except Exception as e:  # noqa
        viol(f"copula coupling with real margins raises {type(e).__name__}", reason=str(e)[:200], **ctx)
    # dimension 3 (no Coq model): copy / adjacency of every coordinate on unequal axes, independent step margins
    try:
        with warnings.catch_warnings():
            warnings.simplefilter("ignore")
            axes3 = [AXES_POOL[0], AXES_POOL[rng.randrange(1, 4)], AXES_POOL[rng.randrange(1, 4)]]
            ms = []
            for k in range(3):
                nu = random_step_measure(rng, Fr(-2), Fr(2), bits=1, cover=True, max_pieces=3, zero_prob=0.0)
                nu.strict = False
                ms.append(step_spec(nu))
            model3 = build_copula_model(ms, "clayton", theta=0.7, eta=0.3)
            grid3 = CTMCGrid(h=float(axes3[0][3]), origin_coordinate=2, axes=[np.array(a) for a in axes3])
            ctx3 = dict(kind="nd-3d", margins=ms, axes=axes3)
            c3, product3 = build_coupling_nd(model3, grid3)
            c3.next_level(mc_paths=2, path_managers=None, product=product3)
            slice_check_nd(viol, res, c3, rng, ctx3, n=40 if not thorough else 300)
    except Exception as e:  # noqa
        viol(f"copula coupling in dimension 3 raises {type(e).__name__}", reason=str(e)[:200], kind="nd-3d")


# ------------------------------------------------------------------------------------------ jump-time / maximum-step coupled simulators
def stochastic_dates_product():
    from rpylib.product.payoff import PayoffDates
    product = make_product()
    product.payoff.payoff_dates_type = PayoffDates.STOCHASTIC      # selects the *WithJumpTimes coupled simulators
    return product


def check_coupled_path(viol, path, axes, o, coef, ctx, tol=1e-9):
    """one coupled path of a jump-time / maximum-step simulator (1-d or copula): between two consecutive times the fine component moves
    by 0 (an inserted time) or by a fine state; the coarse component then moves by 0, by the same state (even coordinate) or by one of
    the two neighbours ON ITS OWN AXIS (odd coordinate); both diffusion parts are the same Brownian increments times the two coefficients.
    axes: one list per coordinate; coef = (fine, coarse) coefficient (1-d floats) or matrices (n-d)"""
    d = len(axes)
    jp = np.asarray(path.jump_path, dtype=float).reshape(2, d, -1)
    df = np.asarray(path.diffusion_path, dtype=float).reshape(2, d, -1)
    times = np.asarray(path.jump_times, dtype=float)
    if jp.shape[2] != times.size or df.shape[2] != times.size or np.any(np.diff(times) < 0):
        viol("coupled jump-time path: times / jump path / diffusion path lengths differ or times decrease", **ctx)
        return 0
    near = lambda x, y: abs(x - y) <= tol * (1 + abs(y))
    moved = 0
    for k in range(times.size - 1):
        dfine, dcoarse = jp[0][:, k + 1] - jp[0][:, k], jp[1][:, k + 1] - jp[1][:, k]
        if all(near(x, 0.0) for x in dfine):
            if not all(near(x, 0.0) for x in dcoarse):
                viol("coupled jump-time path: the coarse component jumps at a time where the fine one does not", step=k, **ctx)
                return moved
            continue
        moved += 1
        for c in range(d):
            ax = axes[c]
            idx = [i for i in range(len(ax)) if near(dfine[c], ax[i])]
            if not idx:
                viol("coupled jump-time path: a fine jump is not a state of the fine grid", step=k, coordinate=c, jump=float(dfine[c]), **ctx)
                return moved
            pk = idx[0]
            ok = near(dcoarse[c], ax[pk]) if (pk - o) % 2 == 0 else (near(dcoarse[c], ax[pk - 1]) or near(dcoarse[c], ax[min(len(ax) - 1, pk + 1)]))
            if not ok:
                viol("coupled jump-time path: a coarse jump is not the fine state (even) / an adjacent coarse state (odd)", step=k, coordinate=c,
                     fine=float(dfine[c]), coarse=float(dcoarse[c]), **ctx)
                return moved
    # same Brownian increments: fine = Mf w, coarse = Mc w  (1-d: cross-multiplication; n-d: solve when Mf is well conditioned)
    incf, incc = np.diff(df[0], axis=1), np.diff(df[1], axis=1)
    if d == 1:
        cf, cc = float(coef[0]), float(coef[1])
        if not np.allclose(incf * cc, incc * cf, rtol=1e-9, atol=1e-12):
            viol("coupled jump-time path: the two diffusion parts are not the same Brownian increments times the two coefficients", **ctx)
    else:
        mf, mc = np.real(np.array(coef[0], dtype=complex)), np.real(np.array(coef[1], dtype=complex))
        if abs(np.linalg.det(mf)) > 1e-6:
            if not np.allclose(mc @ np.linalg.solve(mf, incf), incc, rtol=1e-7, atol=1e-10):
                viol("coupled jump-time path: the two diffusion parts are not the same Brownian increments times the two matrices", **ctx)
    return moved


def _jump_time_simulators(res, rng, viol):
    """audit3 C.3: the coupled simulators no case reached -- 1-d CouplingSimulationWithJumpTimes / MaximumStep and the copula
    CouplingLevyCopulaSimulationWithJumpTimes / MaximumStep (incl. their fresh-normals simulate_diffusion_with_coupling), unequal axes"""
    from stepmeasure import StepMeasure, StepModel, make_grid, Table2, table_copula_model
    from rpylib.model.levymodel.levymodel import LevyRepresentation
    from rpylib.grid.spatial import CTMCGrid
    from rpylib.montecarlo.path import MLMCPath
    thorough = res.tier == "thorough"
    npaths = 4 if not thorough else 40
    nu = StepMeasure([Fr(-2), Fr(0), Fr(3)], [Fr(3), Fr(3, 2)])
    axis = [Fr(-2), Fr(-1), Fr(-1, 2), Fr(0), Fr(1, 2), Fr(2), Fr(3)]
    for mode in ("jumptimes", "maxstep"):
        for levels in (1, 2):
            ctx = dict(kind="jump-time-sim", dim=1, mode=mode, levels=levels)
            try:
                with warnings.catch_warnings():
                    warnings.simplefilter("ignore")
                    np.random.seed(rng.randrange(2 ** 31))
                    model = StepModel(nu, a=0.375, sigma=0.5, representation=LevyRepresentation.CENTER)
                    product = stochastic_dates_product() if mode == "jumptimes" else make_product()
                    eps = 0.125 if mode == "maxstep" else None
                    c, pms, product = build_coupling_1d(model, make_grid(axis, 3, Fr(1, 2)), product=product)
                    for _ in range(levels):
                        c.next_level(mc_paths=3, path_managers=pms, product=product, max_step_epsilon=eps)
                    want = "CouplingSimulationMaximumStep" if mode == "maxstep" else "CouplingSimulationWithJumpTimes"
                    if type(c._path_coupling_simulation).__name__ != want:
                        viol(f"1-d coupling: expected the simulator {want}", got=type(c._path_coupling_simulation).__name__, **ctx)
                        continue
                    ax = [[float(x) for x in c.grid.axes[0]]]
                    coef = (c.equivalent_diffusion_coefficient_fine, c.equivalent_diffusion_coefficient_coarse)
                    for _ in range(npaths):
                        m = check_coupled_path(viol, c.simulate_one_path_with_coupling(), ax, c.grid.origin_coordinate.value, coef, ctx)
                        res.count(("jump-time-sim", 1, mode, levels, m, rng.random()), nontrivial=m > 0, kind=f"1-d {want} path")
                        res.bump("jump_time_sim", f"1d {mode} level {levels}")
            except Exception as e:  # noqa
                viol(f"1-d coupled {mode} simulation raises {type(e).__name__}", reason=str(e)[:200], **ctx)
    table = Table2(WITNESS_TABLE)
    for mode in ("jumptimes", "maxstep"):
        for ax0, ax1 in ((AXES_POOL[0], AXES_POOL[0]), (AXES_POOL[1], AXES_POOL[3])):
            ctx = dict(kind="jump-time-sim", dim=2, mode=mode, axis=ax0, axis1=ax1)
            try:
                with warnings.catch_warnings():
                    warnings.simplefilter("ignore")
                    np.random.seed(rng.randrange(2 ** 31))
                    model = table_copula_model(table, sigma=(0.5, 0.25), fv=(False, True))
                    grid = CTMCGrid(h=float(ax0[3]), origin_coordinate=2, axes=[np.array(ax0), np.array(ax1)])
                    from rpylib.process.coupling.couplinglevycopula import CouplingProcessLevyCopula
                    from rpylib.distribution.sampling import SamplingMethod
                    product = stochastic_dates_product() if mode == "jumptimes" else make_product()
                    eps = 0.125 if mode == "maxstep" else None
                    c = CouplingProcessLevyCopula(levy_copula_model=model, grid=grid, method=SamplingMethod.INVERSION)
                    c.initialisation(product, max_step_epsilon=eps)
                    c.pre_computation(mc_paths=2, product=product)
                    pms = [MLMCPath(deterministic_path=c.fine_process.deterministic_path, activate_spot_underlying=False)]
                    c.next_level(mc_paths=2, path_managers=pms, product=product, max_step_epsilon=eps)
                    want = "CouplingLevyCopulaSimulationMaximumStep" if mode == "maxstep" else "CouplingLevyCopulaSimulationWithJumpTimes"
                    if type(c._path_coupling_simulation).__name__ != want:
                        viol(f"copula coupling: expected the simulator {want}", got=type(c._path_coupling_simulation).__name__, **ctx)
                        continue
                    axes = [[float(x) for x in a] for a in c.grid.axes]
                    for _ in range(npaths):
                        m = check_coupled_path(viol, c.simulate_one_path_with_coupling(), axes, c.grid.origin_coordinate.value[0],
                                               (c._diffusion_matrix_h, c._diffusion_matrix_2h), ctx)
                        res.count(("jump-time-sim", 2, mode, ax0 == ax1, m, rng.random()), nontrivial=m > 0, kind=f"copula {want} path")
                        res.bump("jump_time_sim", f"2d {mode} {'equal' if ax0 == ax1 else 'unequal'} axes")
            except Exception as e:  # noqa
                viol(f"copula coupled {mode} simulation raises {type(e).__name__}", reason=str(e)[:200], **ctx)

# ------------------------------------------------------------------------------------------ SDE coupling (couplingsde.py), levels 1-3
SDE_HEADER = r"""
Definition sde_rows_of (m : nat) (path : list (list Q)) : list (list Q) := map (fun k => map (fun v => nth k v 0) path) (seq 0 m).
Definition sde_mats_eqb (tol : Q) (m : nat) (tms : list (list Q * list Q * list Q)) (e : list (list Q) * list (list Q) * list (list Q)) : bool :=
  match e with (eD, eW, eJ) =>
    mat_eqb tol (sde_rows_of m (path_of m (map fst3 tms))) eD && mat_eqb tol (sde_rows_of m (path_of m (map snd3 tms))) eW
    && mat_eqb tol (sde_rows_of m (path_of m (map thd3 tms))) eJ end.
Definition sde_event (c : Q * Q * option Z * Q * Q) : devent :=
  match c with (t, dt, i, u, sw) => {| e_t := t; e_dt := dt; e_inc := i; e_u := u; e_sw := sw |} end.
Definition sde_case_check (c : option Q * list (Q * Q * Q) * list Q * nat * Q * Q * Q * Q * list (Q * Q * option Z * Q * Q) * Q * Q
                               * (list (list Q) * list (list Q) * list (list Q)) * (list (list Q) * list (list Q) * list (list Q))) : bool :=
  match c with (ak, ps, xs, o, cf, cc, mu_h, mu_2h, es, x0, tol, ef, ec) =>
    let a_st := match ak with Some k => a_st_constant [[k]] | None => a_st_diag end in
    match step_sde_coupled a_st b_zero ps xs o cf cc mu_h mu_2h (map sde_event es) [x0] with
    | None => false
    | Some tms => sde_mats_eqb tol 1 (map fst tms) ef && sde_mats_eqb tol 1 (map snd tms) ec
    end end.
"""


def _sde(res, rng, viol, groups):
    """CouplingSDE (1-d StepModel driver, a = Constant / DiagX) at levels 1-3 through its public entry points: the level bookkeeping
    (oracle), and one REAL coupled driver path per level recorded on its way into the scheme (fine increments and coupling uniforms at
    coupling_state, times / jump / diffusion rows of the driver's path): the Coq model recomputes the coarse jumps with coupling_state,
    the two diffusion parts from one Brownian increment, and the stacked Euler recursion; compared with the object's StochasticSDEPath"""
    import importlib
    from rpylib.process.coupling.couplingsde import CouplingSDE
    from rpylib.montecarlo.path import StochasticJumpPath, MLMCPath
    C16 = importlib.import_module("props.C16")
    cases, lvl_cases = [], []
    thorough = res.tier == "thorough"
    for ip in range(3 if not thorough else 12):
        kind = "diag" if ip % 2 else "const"
        try:
            with warnings.catch_warnings():
                warnings.simplefilter("ignore")
                driver, mkgrid = C16.step_driver(rng, 1, infinite_variation=ip % 3 == 0)
                cval = rng.choice([-1.5, -0.5, 0.5, 1.0, 2.0])
                x0 = rng.randrange(2, 12) / 4
                model = C16.make_model(driver, [x0], C16.make_a(kind, 1, 1, cval))
                cp = CouplingSDE(model, mkgrid(), C16.sampling_method(1))
                prod = C16.the_product()
                cp.initialisation(prod)
                pms = [MLMCPath(cp.fine_process.deterministic_path, False)]
        except Exception as e:  # noqa
            viol(f"CouplingSDE cannot be built: {type(e).__name__}", kind="sde", reason=str(e)[:200])
            continue
        nu = driver.levy_triplet.nu
        dcp = cp.driver_coupling_process
        prev_mu = float(np.ravel(cp.mc_drift_h)[0])
        prev_cf = None
        spec16 = driver.c16_spec
        axis0, o0, h0 = [float(x) for x in dcp.grid.axes[0]], dcp.grid.origin_coordinate.value, float(dcp.grid.h)
        sig_chain_prev = level_chain_sigma(dcp)
        b_before = cp.fine_process.sde_drift
        for level in (1, 2, 3):
            ctx = dict(kind="sde", a=kind, c=cval, x0=x0, level=level)
            try:
                with warnings.catch_warnings():
                    warnings.simplefilter("ignore")
                    prev_axis = [float(x) for x in dcp.grid.axes[0]]
                    cp.next_level(mc_paths=1, path_managers=pms, product=prod)
                    mu_h, mu_2h = float(np.ravel(cp.mc_drift_h)[0]), float(np.ravel(cp.mc_drift_2h)[0])
                    cf, cc = float(dcp.equivalent_diffusion_coefficient_fine), float(dcp.equivalent_diffusion_coefficient_coarse)
                    xs = [float(x) for x in dcp.grid.axes[0]]
                    o2 = dcp.grid.origin_coordinate.value
                    res.count(("sde-level", ip, level), kind="CouplingSDE.next_level bookkeeping")
                    if cp.level != level or dcp.level != level or mu_2h != prev_mu or (prev_cf is not None and cc != prev_cf) or xs[0::2] != prev_axis \
                            or mu_h != float(np.ravel(dcp.fine_process.process_drift())[0]):
                        viol("SDE coupling: the coarse component does not carry the previous level's driver drift / diffusion coefficient / grid",
                             mu_2h=mu_2h, previous_mu_h=prev_mu, cc=cc, previous_cf=prev_cf, **ctx)
                    prev_mu, prev_cf = mu_h, cf
                    # CouplingSDE calls the driver's next_level with path_managers=None: its two coefficients against chains built afresh, and the
                    # driver's level machine against run_levels (group sdelevels)
                    sig_chain = level_chain_sigma(dcp)
                    oracle_sigma_1d(viol, dcp, sig_chain, sig_chain_prev, ctx)
                    sig_chain_prev = sig_chain
                    res.bump("sde_driver", f"{'INFINITE' if spec16['infinite_variation'] else 'finite'} variation, coefficient "
                                           f"{'changes' if cf != cc else 'unchanged'} with h")
                    lvl_cases.append(
                        f"({nu.coq()}, {lst([qlit(x) for x in axis0])}, {natlit(o0)}, {qlit(h0)}, {qlit(float(dcp.fine_process.model.drift()))}, "
                        f"{zlit(REP_VAL['CENTER'])}, {blit(not spec16['infinite_variation'])}, {qlit(spec16['a'])}, {qlit(spec16['sigma'])}, {natlit(level)}, "
                        f"({lst([qlit(x) for x in xs])}, {qlit(float(dcp.grid.h))}, {natlit(o2)}, {qlit(cf ** 2)}, {qlit(cc ** 2)}, {qlit(mu_h)}, {qlit(mu_2h)}))")
                    # ---- one real coupled driver path, recorded
                    np.random.seed(rng.randrange(2 ** 31))
                    dcp.__dict__.pop("simulate_one_path_with_coupling", None)
                    dcp.pre_computation(1, prod)
                    sim = dcp._path_coupling_simulation
                    rec, last_u = [], [0.0]
                    orig_cs, orig_u = sim.coupling_state, dcp.uniform.sample

                    def u_rec(*a, **k):
                        r = orig_u(*a, **k)
                        last_u[0] = float(np.ravel(r)[0])
                        return r

                    def cs_rec(inc):
                        last_u[0] = 0.0
                        v = orig_cs(inc)
                        rec.append((int(np.ravel(inc)[0]), last_u[0], float(np.ravel(v)[0])))
                        return v
                    dcp.uniform.sample, sim.coupling_state = u_rec, cs_rec
                    try:
                        pth = dcp.simulate_one_path_with_coupling()
                    finally:
                        dcp.uniform.sample = orig_u
                        del sim.coupling_state
                    keep = min(len(pth.jump_times), 14)
                    pth = StochasticJumpPath(pth.jump_times[:keep], pth.diffusion_path[:, :keep], pth.jump_path[:, :keep])
                    dcp.simulate_one_path_with_coupling = (lambda pth=pth: pth)
                    sp = cp.simulate_one_path_with_coupling()
                    dcp.__dict__.pop("simulate_one_path_with_coupling", None)
            except Exception as e:  # noqa
                viol(f"SDE coupling raises {type(e).__name__}", reason=str(e)[:200], **ctx)
                break
            times = [Fr(float(t)) for t in pth.jump_times]
            jf, jc = [Fr(float(v)) for v in pth.jump_path[0]], [Fr(float(v)) for v in pth.jump_path[1]]
            wf, wc = [Fr(float(v)) for v in pth.diffusion_path[0]], [Fr(float(v)) for v in pth.diffusion_path[1]]
            events, it, ok = [], iter(rec), True
            for k in range(keep - 1):
                dfine, dcoarse = jf[k + 1] - jf[k], jc[k + 1] - jc[k]
                sw = (wf[k + 1] - wf[k]) / Fr(cf) if cf else Fr(0)
                near = lambda x, y: abs(x - y) <= Fr(1, 10 ** 9) * (1 + abs(y))      # noqa
                if dfine == 0:
                    if dcoarse != 0:
                        viol("SDE coupling: the coarse driver jumps at a time where the fine driver does not", step=k, **ctx)
                        ok = False
                    events.append((times[k], times[k + 1] - times[k], None, Fr(0), sw))
                    continue
                inc, u, v = next(it, (None, 0.0, 0.0))
                if inc is None or not near(dfine, Fr(xs[o2 + inc])) or not near(dcoarse, Fr(v)):
                    viol("SDE coupling: the driver path is not the sequence of fine states / coupling_state values of its increments", step=k, **ctx)
                    ok = False
                    break
                if (o2 + inc) % 2 == 0 and Fr(v) != Fr(xs[o2 + inc]) or (o2 + inc) % 2 == 1 and Fr(v) not in (Fr(xs[o2 + inc - 1]), Fr(xs[o2 + inc + 1])):
                    viol("SDE coupling: a coarse driver jump is not the fine state (even) / an adjacent coarse state (odd)", step=k, increment=inc, **ctx)
                    ok = False
                if not near((wc[k + 1] - wc[k]) * Fr(cf), (wf[k + 1] - wf[k]) * Fr(cc)):
                    viol("SDE coupling: the two diffusion parts are not the same Brownian increment times the two coefficients", step=k, **ctx)
                    ok = False
                events.append((times[k], times[k + 1] - times[k], inc, Fr(u), sw))
            njump = sum(1 for e in events if e[2] is not None)
            res.count(("sde-path", ip, level, keep, njump, rng.random()), nontrivial=njump > 0, kind=f"CouplingSDE path a={kind} level={level}")
            res.bump("sde_events", f"level {level}: {'odd increment coupled' if any(e[2] is not None and e[2] % 2 for e in events) else 'no odd increment'}")
            if not ok:
                continue

            def mat(arr):
                return "[" + lst([qlit(float(v)) for v in np.ravel(arr)]) + "]"
            exp = [", ".join(mat(np.asarray(a3, dtype=float)[comp]) for a3 in (sp.drift, sp.diffusion_path, sp.jump_path)) for comp in (0, 1)]
            ev = lst([f"({qlit(t)}, {qlit(dt)}, {'None' if i is None else 'Some (' + zlit(i) + ')'}, {qlit(u)}, {qlit(sw)})" for t, dt, i, u, sw in events])
            ak = "None" if kind == "diag" else f"(Some {qlit(cval)})"
            cases.append(f"({ak}, {nu.coq()}, {lst([qlit(x) for x in xs])}, {natlit(o2)}, {qlit(cf)}, {qlit(cc)}, {qlit(mu_h)}, {qlit(mu_2h)}, {ev}, "
                         f"{qlit(x0)}, {qlit(Fr(1, 10 ** 9))}, ({exp[0]}), ({exp[1]}))")
        if cp.fine_process.sde_drift != b_before:
            res.bump("sde_drift_object", "replaced between levels")
    groups.append(("sde", "option Q * list (Q * Q * Q) * list Q * nat * Q * Q * Q * Q * list (Q * Q * option Z * Q * Q) * Q * Q "
                          "* (list (list Q) * list (list Q) * list (list Q)) * (list (list Q) * list (list Q) * list (list Q))", "sde_case_check", cases))
    groups.append(("sdelevels", LEVELS_TY, LEVELS_CHECK, lvl_cases))
    _sde_libor_observation(res, rng, viol)


# ------------------------------------------------------------------------------------------ F-C03-2: the time grid of the coarse SDE solution
SDE_GRID_WHAT = ("SDE coupling: on one coupled driver path the coarse row of simulate_one_path_with_coupling differs from the level-(l-1) process "
                 "(MarkovChainSDE.simulate_one_path) run on the coarse path's own time grid with the same coarse driver increments")
SDE_GRID_TOL = 1e-9


def sde_own_grid_run(spec, kind, cval, x0, level, seed):
    """Everything from the INPUT fields alone.  Builds CouplingSDE (1-d StepModel driver of props.C16.driver_from(spec), a = Constant(cval) / DiagX),
    goes to `level` by next_level, builds the level-(l-1) process MarkovChainSDE on a copy of the grid as it was before the last refinement, draws ONE
    real coupled driver path (np.random.seed(seed)), lets the object compute its StochasticSDEPath on it (got = end value of the COARSE row), and
    runs the REAL level-(l-1) process on the coarse driver path restricted to its OWN grid (times at which the coarse driver jumps + maturity; that is the
    level-(l-1) grid exactly when no gap exceeds its cap epsilon_(l-1): field exact) with the same coarse jump / diffusion values (want).
    closed_code / closed_own: x0 * prod(1 + mu dt + dL + dW) on the two grids (DiagX), x0 + c (mu T + L_T + W_T) (Constant)."""
    import importlib
    from rpylib.process.coupling.couplingsde import CouplingSDE
    from rpylib.process.markovchain.markovchainsde import MarkovChainSDE
    from rpylib.montecarlo.path import StochasticJumpPath, MLMCPath
    C16 = importlib.import_module("props.C16")
    with warnings.catch_warnings():
        warnings.simplefilter("ignore")
        driver, mkgrid = C16.driver_from(spec)
        model = C16.make_model(driver, [x0], C16.make_a(kind, 1, 1, cval))
        cp = CouplingSDE(model, mkgrid(), C16.sampling_method(1))
        prod = C16.the_product()
        cp.initialisation(prod)
        pms = [MLMCPath(cp.fine_process.deterministic_path, False)]
        dcp = cp.driver_coupling_process
        prev_grid = None
        for _ in range(level):
            prev_grid = copy.deepcopy(dcp.grid)
            cp.next_level(mc_paths=1, path_managers=pms, product=prod)
        prev = MarkovChainSDE(model=model, method=C16.sampling_method(1), grid=prev_grid)
        prev.initialisation(prod)
        mu_prev = float(np.ravel(prev.markov_chain.process_drift())[0])
        mu_2h = float(np.ravel(cp.mc_drift_2h)[0])
        np.random.seed(seed)
        dcp.__dict__.pop("simulate_one_path_with_coupling", None)
        dcp.pre_computation(1, prod)
        pth = dcp.simulate_one_path_with_coupling()
        dcp.simulate_one_path_with_coupling = (lambda: pth)
        try:
            sp = cp.simulate_one_path_with_coupling()
        finally:
            dcp.__dict__.pop("simulate_one_path_with_coupling", None)
        times = np.asarray(pth.jump_times, dtype=float)
        jc, wc = np.asarray(pth.jump_path[1], dtype=float), np.asarray(pth.diffusion_path[1], dtype=float)
        n = times.size
        keep = [0] + [k for k in range(1, n - 1) if jc[k] != jc[k - 1]] + [n - 1]
        eps_prev = float(prev.epsilon)
        exact = bool(np.all(np.diff(times[keep]) <= eps_prev * (1 + 1e-12)))
        own = StochasticJumpPath(times[keep].copy(), wc[keep].reshape(1, -1).copy(), jc[keep].reshape(1, -1).copy())
        prev.markov_chain.simulate_one_path = (lambda: own)
        sq = prev.simulate_one_path()
        end = lambda q, row: float(x0 + np.ravel(np.asarray(q.drift)[row])[-1] + np.ravel(np.asarray(q.diffusion_path)[row])[-1]   # noqa
                                   + np.ravel(np.asarray(q.jump_path)[row])[-1])
        got, want = end(sp, 1), end(sq, 0)

        def closed(idx):
            t, j, w = times[idx], jc[idx], wc[idx]
            dy = mu_2h * np.diff(t) + np.diff(j) + np.diff(w)
            return float(x0 * np.prod(1.0 + dy)) if kind == "diag" else float(x0 + cval * np.sum(dy))
        return dict(got=got, want=want, closed_code=closed(list(range(n))), closed_own=closed(keep), merged=n - len(keep), steps=n - 1, exact=exact,
                    mu_2h=mu_2h, mu_prev=mu_prev, eps_prev=eps_prev, maturity=float(times[-1]))


def _sde_grid(res, rng, viol):
    """F-C03-2 (audit5a D1).  Real coupled driver paths of CouplingSDE at levels 1-2 (finite-variation StepModel driver: the cap is 1 = maturity, so the own
    grid is exact), a = DiagX and Constant on the SAME driver and seeds.  Oracle on the implementation only: coarse row of the object vs the real
    level-(l-1) process on the coarse path's own grid.  Constant must agree (C03_sde_constant_grid_independent); DiagX disagrees as soon as the path
    has a time at which only the fine driver moves (C03_sde_grid_dependence): reported once per level with the tag F-C03-2."""
    import importlib
    C16 = importlib.import_module("props.C16")
    near = lambda x, y: abs(x - y) <= SDE_GRID_TOL * (1 + abs(y))      # noqa
    drv, _ = C16.step_driver(rng, 1, infinite_variation=False)
    spec = dict(drv.c16_spec)
    x0 = rng.randrange(4, 12) / 4
    cval = rng.choice([-1.5, 0.5, 2.0])
    for level in ((1, 2) if res.tier == "thorough" else (1,)):
        reported, tries = False, (60 if res.tier == "thorough" else 30)
        for _ in range(tries):
            seed = rng.randrange(2 ** 31)
            for kind in ("const", "diag"):
                ctx = dict(kind="sde-grid", spec=spec, a=kind, c=cval, x0=x0, level=level, seed=seed)
                try:
                    r = sde_own_grid_run(spec, kind, cval, x0, level, seed)
                except Exception as e:  # noqa
                    viol(f"SDE coupling (own-grid oracle) raises {type(e).__name__}", reason=str(e)[:200], **ctx)
                    continue
                res.count(("sde-grid", kind, level, seed), nontrivial=r["merged"] > 0, kind=f"CouplingSDE coarse row vs level-(l-1) process on its own grid, a={kind}")
                res.bump("sde_own_grid", f"a={kind} level {level}: {'no time at which only the fine driver moves' if not r['merged'] else 'fine-only times, coarse row ' + ('EQUAL' if near(r['got'], r['want']) else 'DIFFERS')}")
                if r["mu_2h"] != r["mu_prev"]:
                    viol("SDE coupling: mc_drift_2h is not the driver drift of the level-(l-1) process built on the previous grid", **ctx, **r)
                if not (near(r["got"], r["closed_code"]) and near(r["want"], r["closed_own"])):
                    viol("SDE coupling: an end value is not the closed form of the Euler scheme on its grid (harness or scheme changed)", **ctx, **r)
                elif not near(r["got"], r["want"]):
                    if kind == "diag" and r["exact"] and r["merged"] > 0:
                        if not reported:
                            viol(SDE_GRID_WHAT, finding="F-C03-2", **ctx, **r)
                            reported = True
                    else:
                        viol(SDE_GRID_WHAT + " (NOT the recorded shape: constant coefficient, no fine-only time, or own grid not exact)", **ctx, **r)
            if reported:
                break
        if not reported:
            res.bump("sde_own_grid", f"level {level}: no DiagX path with a fine-only time in {tries} seeds")


def _sde_libor_observation(res, rng, viol):
    """F-C03-4 (assessment; theorem C03_sde_libor_drift_not_of_level_refuted): the Libor sde drift of CouplingSDE keeps the zz of the level-0 h.
    The telescoping identity is not affected (both components of every level use it: C03_sde_same_scheme); what differs is the level-(l-1)
    process MarkovChainLevyLiborModel would build on the refined grid.  Recorded in the evidence as an observation, not a violation."""
    import importlib
    from rpylib.process.coupling.couplingsde import CouplingSDE
    from rpylib.process.markovchain.markovchainsde import MarkovChainLevyLiborModel
    from rpylib.model.levydrivensde.levylibormodel import LevyLiborModel
    from rpylib.product.product import Product
    from rpylib.product.payoff import Forward
    from rpylib.product.underlying import Libors
    from rpylib.montecarlo.path import MLMCPath
    C16 = importlib.import_module("props.C16")
    try:
        with warnings.catch_warnings():
            warnings.simplefilter("ignore")
            driver, mkgrid = C16.step_driver(rng, 1, infinite_variation=True)
            model = LevyLiborModel(np.array([0.03125, 0.0625]), [1.0, 1.5, 2.0], np.array([[0.5], [0.25]]), driver)
            prod = Product(Libors(), Forward(1.0), maturity=1.25)
            cp = CouplingSDE(model, mkgrid(), C16.sampling_method(1))
            cp.initialisation(prod)
            pms = [MLMCPath(cp.fine_process.deterministic_path, False)]
            x = np.array([[0.03125], [0.0625]])
            b0 = np.ravel(cp.fine_process.sde_drift(0.0, x)).tolist()
            cp.next_level(mc_paths=1, path_managers=pms, product=prod)
            level1 = MarkovChainLevyLiborModel(model=model, method=C16.sampling_method(1), grid=copy.deepcopy(cp.driver_coupling_process.grid))
            level1.initialisation(prod)
            cp.next_level(mc_paths=1, path_managers=pms, product=prod)
            b2 = np.ravel(cp.fine_process.sde_drift(0.0, x)).tolist()
            b1 = np.ravel(level1.sde_drift(0.0, x)).tolist()
        res.count(("sde-libor-zz",), kind="Libor sde drift of CouplingSDE at level 2 vs the level-1 process")
        if b2 != b0:
            viol("SDE coupling: the sde drift used for both components changed between levels without the coarse one keeping the previous level's",
                 kind="sde-libor", level0=b0, level2=b2)
        res.bump("sde_libor_drift (F-C03-4 observation)", "level-0 zz kept: coarse component of level 2 differs from the level-1 process' sde drift"
                 if b1 != b2 else "equal to the level-1 process' sde drift")
    except Exception as e:  # noqa
        viol(f"SDE coupling (Libor) raises {type(e).__name__}", kind="sde-libor", reason=str(e)[:200])


def search(res):
    pass


def replay(path):
    data = json.load(open(path))
    print(json.dumps(data, indent=1)[:3500])
    from stepmeasure import build_model, make_grid, Table2, table_copula_model, build_copula_model
    from rpylib.distribution.samplingfactory import create_q_vector
    out = []

    def viol(what, **kw):
        out.append((what, {k: kw[k] for k in ("coarse_state", "got", "want", "increment") if k in kw}))
    k = data.get("kind")
    with warnings.catch_warnings():
        warnings.simplefilter("ignore")
        if k == "1d":
            grid = make_grid([Fr(x) for x in data["axis"]], data["o"], Fr(data["h"]))
            c, pms, product = build_coupling_1d(build_model(data["model"]), grid)
            if not data.get("path_managers", True):
                pms = None
            sig_chain_prev = level_chain_sigma(c)
            for level in range(1, data.get("level", 1) + 1):
                axis_coarse, o_coarse = c.grid.axes[0].copy(), c.grid.origin_coordinate.value
                q_coarse = create_q_vector(c.fine_process.model.levy_triplet.nu, c.grid).copy()
                c.next_level(mc_paths=2, path_managers=pms, product=product)
                sig_chain = level_chain_sigma(c)
                oracle_sigma_1d(viol, c, sig_chain, sig_chain_prev, {})
                sig_chain_prev = sig_chain
                oracle_level_1d(viol, c, q_coarse, axis_coarse, o_coarse, {})
        elif k == "1d-real":
            run_real_levels(viol, data["model"], data["grid"], data["params"], data["levels"], {})
        elif k == "sampler":
            _samplers(type("R", (), {"count": lambda *a, **kw: None, "seed": 1})(), random.Random(0),
                      lambda what, **kw: out.append((what, kw.get("method"))) if kw.get("method") == data["method"] else None)
        elif k in ("nd-table", "nd-real"):
            c, coarse_chain, caxes, table = build_nd_from_replay(data)
            preds = model_predictions_nd(c, table)
            tol = KNOWN_TOL[k]
            causes = oracle_nd(viol, c, coarse_chain, caxes, data["o"], {}, tol=tol, predicted=preds["code"],
                               alternatives={n: preds[n] for n in ("margin_rule", "second_measure", "repaired")})
            print("single-cause models, worst deviation from the coarse rates:", causes, "->", cause_label(causes or {}, tol))
            with repaired_rule():
                rep = []
                oracle_nd(lambda what, **kw: rep.append(what), c, coarse_chain, caxes, data["o"], {}, tol=tol)
                print("implementation patched with the joint rule (one measure):", "telescopes" if not rep else rep[:1])
        elif k == "sde-grid":
            r = sde_own_grid_run(data["spec"], data["a"], data["c"], data["x0"], int(data["level"]), int(data["seed"]))
            print("recomputed:", r)
            if abs(r["got"] - r["want"]) > SDE_GRID_TOL * (1 + abs(r["want"])):
                out.append((SDE_GRID_WHAT, {"got": r["got"], "want": r["want"]}))
        else:
            print("replay: re-run ./check C03")
            return 1
    print("still fails:" if out else "no failure on replay", out[:3])
    return 1 if out else 0

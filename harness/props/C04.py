"""C04 -- drift compensation reproduces the mean: correspondence + implementation oracle."""
import json
import random
import warnings
from fractions import Fraction as Fr

import numpy as np

from common import qlit, natlit, zlit, blit, lst, tup, coq_bad_indices, parallel_coq_bad, CoqError

PROP = "C04"
PROPERTY_FILE = "Properties/C04.v"
GEN_DEPS = ["GenC01Trunc", "GenC04Triplet", "GenC04SetRep", "GenTieDrift", "GenTieChain"]   # GenTieChain: for the TIE spot check of compute_mu_h (generated middle) only
RULE = ("cases: MarkovChainProcess(StepModel declared in ZERO/CENTER/ONEONE/TILDE x finite/'infinite' variation flag, dyadic a and sigma), "
        "grids as in C01 (random dyadic, fixed, credit; 0..3 refinements; support covering / exceeding / inside the grid); compared "
        "exactly: compute_mu_h, process_drift() after initialisation (through the GENERATED dispatch), and equivalent_diffusion_coefficient**2 "
        "(relative 2^-48: two float sqrt); exponential-of-Levy wrapper (LOG representation) with the model drift r-d+omega fed as data (1e-12); "
        "LevyTriplet.set_representation driven directly: all 16 (declared, target) pairs x both flags, one and two calls in a row, non-member "
        "targets, truncations on both sides of +-1 -- (a, representation) exact, raise = None; copula chains on step margins: drift vector exact, "
        "variance_matrix (the argument of scipy.linalg.sqrtm, observed) against the assembly model with the quadrature outputs as data "
        "(relative 2^-50), diagonal of D D^T against the step second moments (1e-5 + 1e-4 rel: library nquad); second stream: "
        "HEM/Merton/VG/CGMY in their own declared representation against quadrature of x*nu(x); CGMY y = 1.0 margins in a copula chain against "
        "their 1-d chains (oracle of the repaired F-C04-5); F-C04-6 stream (deterministic): variance added to each margin by the copula chain (diagonal of the "
        "matrix handed to sqrtm - sigma_k^2) against the 1-d chain of the same margin, on 2-d density tables with / without mass in the strip outside "
        "the central cube (exact; also the Coq cube model tab2_vadj against the observed matrix, 1e-5 + 1e-4 rel: library nquad) and on CGMY y = 1.3 "
        "margins under the Clayton, independent and complete-dependence copulas (threshold: 2 % + 1e-6 below the 1-d amount; the deficit is "
        "cross-checked against an independent quadrature of LevyCopulaModel.mass over the strip).  non-trivial = distinct chain with >= 2 states on a side.  "
        "TIE spot check (wave 8): the generated TIE definitions are spot-checked against the running Python on every run -- groups mu_h (GenTieDrift.compute_mu_h over GenTieChain.middle against the real compute_mu_h), q_vector, intensity_1d, dispatch_c1d, dispatch_nd2 of harness/tie_selftest.py (12 cases each, kind tie_spot) on real CTMCGrid / Coordinate objects, dyadic axes of 1..5 points per side, exact")
MODELLED = ["compute_mu_h loop: hand model Model/Drift.v PROVED equal to the py2coq-generated loop Gen/GenTieDrift.v (C04_gen_compute_mu_h_is_model); "
            "vol_adjustment, MarkovChainProcess.__init__/initialisation arithmetic (hand model, exact correspondence)",
            "LevyTriplet.set_representation + the _drift_mapping dict of LevyTriplet.__init__ + the LevyRepresentation enum values: py2coq-generated "
            "(Gen/GenC04SetRep.v, emitter harness/py2coq_c04.py: a state transformer on (a, representation) in the statement order of the source); "
            "the four conversions are py2coq-generated (Gen/GenC04Triplet.v); the hand table a_tilde is PROVED equal to the TILDE instance of the "
            "generated dispatch and the executable chain models are the generated ones",
            "MCLevyCopulaSimulation.__init__: the unpacking loop over the pool's outputs, the per-margin zeroing loop, variance_matrix = adj + "
            "diag(sigma^2), the joint flag LevyCopulaModel.jump_of_finite_variation = all margins of finite variation (repaired d166938; hand model "
            "Model/CopulaDiffusion.v, tied on the observed argument of sqrtm and on the observed flags); "
            "NOT modelled: the quadrature inside vol_adjustment_ij (scipy nquad of the copula mass; its outputs are data / the function vadj), scipy.linalg.sqrtm, the pool",
            "WHAT vol_adjustment_ij integrates (wave 8): on 2-d density tables, tab2_vadj = second moment of x_i (x_i x_j) over the central CUBE "
            "[-h/2,h/2]^2 (hand model Model/CopulaDiffusion.v after markovchainlevycopula.py:50-81; the Fubini step from the nquad integrand to the "
            "cube moment is NOT formalised, it is tied numerically by group copulastrip on the matrix handed to sqrtm); general copulas: data",
            "the error value of the generated conversions is a value, not an exception: center_drift on a mis-declared ZERO triplet of infinite "
            "variation is err + tails in the GENERATED term while the code raises; the observation wrappers step_set_representation(2) make the "
            "error absorbing with the explicit hand-written guard setrep_call_raises (a conversion from or to ZERO with infinite variation), and "
            "the correspondence drives those calls too (wave 8; Example C04_error_value_not_absorbing)",
            "np.sqrt in vol_adjustment / equivalent_diffusion_coefficient: the model works with the squares",
            "first/second moment integrals of the measure: abstract additive m1, non-negative m2 over Q (concrete closed forms: C09)",
            "MarkovChainLevyCopula.initialisation (margins of a copula chain): one drift per margin with the margin's own triplet, flag and axis",
            "TIE spot check (wave 8): the generated TIE definitions are spot-checked against the running Python on every run (correspond -> tie_selftest.selftest_spotchecks on the GenTie modules of GEN_DEPS; GenTieChain is in GEN_DEPS for this purpose only -- the spot check of compute_mu_h evaluates the generated loop over the generated CTMCGrid.middle, and the rates the drift sums are create_q_vector's -- no theorem of Properties/C04.v is about it, so its .vo is built by correspond itself); a disagreement is a broken obligation 'correspondence TIE <group>'"]
ASSUMPTIONS = ["guard of every theorem that quantifies over representations: fv = true or rep <> ZERO (and target <> ZERO), the conversions raise "
               "ValueError otherwise: C04_zero_infinite_variation_is_error, correspondence groups 'raise', 'setrep1', 'setrep2'",
               "m1 a b = int_a^b x nu(dx) is additive and respects ==; m2 a b = int x^2 nu is non-negative (C09 discharges them for the "
               "model families; C04_step_m1_additive for the harness's step measures); C04_set_representation_route_independent and "
               "C04_set_representation_dispatch need NO hypothesis on m1",
               "the truncation bounds are the end points of the axis (C13) and np.inf is any bound >= 1 beyond them (pinf)",
               "LevyRepresentation has exactly the members ZERO=1, CENTER=2, ONEONE=3, TILDE=4 (re-read from the source by the emitter: a change "
               "breaks the generation)",
               "C04_copula_diagonal_is_margin_chain_if_no_strip_mass_partial: vol_adjustment_ij(k,k) returns margin k's second moment over the margin's "
               "central cell -- a hypothesis that on /repo holds only for Levy measures without mass in the strip {|x_k| <= h/2, some |x_j| > h/2} "
               "(independent copula) and is FALSE for copulas with mass off the axes (F-C04-6)",
               "C04_copula_margin_variance_is_1d_chain_refuted: tab2_vadj is what vol_adjustment_ij returns on a density table (checked numerically "
               "on the witness itself by group copulastrip, not proved from the nquad integrand)"]
THEOREM_NOTES = {
    "number system": "proved over Q inside a Section with abstract m1/m2 (simplification of DESIGN 2.1: no R instance; the composition with C09's "
                     "HEM integrals over R -- wave-5 objective (c) -- was not done: Chain.v/Grid.v/Drift.v and C13/C01's lemmas are Q-only, replaying "
                     "them over R is a rewrite of three shared model files)",
    "C04_variance_gap": "proved: |sum_k x_k^2 q_k - int_{outside the central cell} x^2 nu| <= sum_k (sup_k x^2 - inf_k x^2) q_k under the per-cell "
                        "hypothesis inf q_k <= int_cell x^2 nu <= sup q_k (C09's positivity, not formally composed); with C04_variance_added "
                        "this is the variance statement for both variation flags",
    "generated dispatch": "C04_set_representation_dispatch is DEFINITIONAL on the generated term (lands in the target, no-op on the same target, "
                          "idempotent, calls exactly the registered conversion, unknown key = error); since wave 8 (audit 5a B5) its conversion "
                          "conjuncts carry the guard fv = true or neither side ZERO -- outside it the Python call raises and the generated term is a "
                          "number (err is not absorbing: Example C04_error_value_not_absorbing), the wrapper step_set_representation is None there. "
                          "C04_set_representation_route_independent (rep->t1->t2 == rep->t2, no hypothesis on the "
                          "measure) is genuine; C04_set_representation_preserves_mean (any target); C04_mean_identity_generated(+_infinite_variation), "
                          "C04_copula_margins_generated and C04_generated_chain_is_hand_chain are REPACKAGING: the wave-1..4 statements transported "
                          "through the tie C04_generated_dispatch_is_a_tilde (definitional)",
    "copula variance matrix": "C04_copula_variance_matrix_entries (genuine, hand model): every entry of variance_matrix for every dimension (loop invariant of "
                              "the unpacking over the pool's outputs + margin loop), symmetric. C04_copula_diagonal_is_margin_chain_if_no_strip_mass_partial "
                              "(renamed from ..._is_margin_chain_partial; CONDITIONAL + repackaging: entries + a rewrite, m2s/ls/rs/h only occur through the "
                              "hypothesis): IF vol_adjustment_ij(k,k) = margin k's central-cell second moment THEN the diagonal is the 1-d sigma_h^2; "
                              "cross terms with a finite-variation margin vanish (unconditional). The hypothesis is FALSE on /repo for copulas with mass "
                              "off the axes: C04_copula_margin_variance_is_1d_chain_refuted (witness table, finding F-C04-6) and C04_copula_diagonal_gap "
                              "(bookkeeping: diagonal = 1-d sigma_h^2 - (central-cell moment - vol_adjustment_ij(k,k))). Not proved: that the nquad "
                              "integrand of vol_adjustment_ij integrates to the cube moment (Fubini), nor 0 <= strip gap for every table (monotonicity of "
                              "the clipped moments; true, not done). The behaviour before the repair of F-C04-5 survives only as Example "
                              "C04_copula_joint_flag_before_repair",
    "F-C04-6": "the property's literal d-dimensional variance clause still holds (the lost x_k^2 of the strip cells is bounded by their oscillation "
               "(h/2)^2 times their mass); what fails is 'each margin of a copula chain' read as sigma_h^2 of margin k = sigma_k^2 + second moment "
               "of margin k's central cell: the copula chain's margin is under-dispersed relative to its own 1-d chain by the second moment of x_k "
               "over {|x_k| <= h/2, some |x_j| > h/2} (same order h^(2-Y) as the amount added). Recorded as known, not repaired (a repair changes "
               "vol_adjustment_ij's integration domain per entry: not a two-line change, and the cross terms need a decision)",
    "tie": "C04_gen_compute_mu_h_is_model: GenTieDrift.compute_mu_h (the enumerate loop of markovchain.py, regenerated every run) = Drift.compute_mu_h, "
           "for every mass, middle, axis and origin",
    "copula margins": "C04_copula_margins: every margin of the REPAIRED copula chain (per-margin cut-off flag, fix-grid2 9ea0f4f; own axis, "
                      "fix-grid 7d6dfd9) reproduces its mean; C04_joint_flag_bias quantifies the bias of the previous code (F-C04-2)",
    "satisfiability": "total additivity of int x nu is assumed only by the finite-variation theorem; C04_mean_identity_infinite_variation "
                      "(CENTER/ONEONE/TILDE) needs no hypothesis on the first-moment integral; Examples C04_nonvacuous, C04_dispatch_nonvacuous, "
                      "C04_error_value_not_absorbing, C04_copula_matrix_nonvacuous, C04_copula_strip_witness_values, C04_copula_joint_flag_before_repair",
    "cancellation": "C04_mean_identity alone is (X - mu_h) + mu_h = X plus the conversion algebra; its content is C04_mu_h_is_sum (the loop is "
                    "sum x_k q_k with C01's q), C04_mean_rate_explicit (the right-hand side in terms of int_l^r x nu) and "
                    "C04_conversions_preserve_mean (all four generated conversions keep the first cumulant)",
}
LEVEL_TEXT = ("Proof: 26 Coq theorems + 6 examples (closed under the global context): compute_mu_h's running-boundary loop equals sum_k x_k q_k for "
              "every axis and is the py2coq-generated loop of markovchain.py (tie lemma); process_drift + sum_k x_k q_k equals the first cumulant per unit time of (a, sigma, nu|[l,r]) in the declared "
              "representation for all four representations and both variation flags, stated on the py2coq-generated dispatch "
              "LevyTriplet.set_representation (+ _drift_mapping + enum values) and the four generated conversions; the dispatch lands in its "
              "target, is idempotent, route independent and keeps the first cumulant; sigma_h^2 = sigma^2 for finite variation and sigma^2 + "
              "second moment of the central cell otherwise; variance-gap bound; every entry of the copula chain's variance_matrix for every "
              "dimension (loop invariants) with the joint flag = all margins of finite variation; its diagonal equals the 1-d sigma_h^2 of a margin only "
              "under the hypothesis that the measure has no mass in the strip outside the central cube (independent copula) -- REFUTED otherwise "
              "(F-C04-6, known: vol_adjustment_ij(k,k) integrates the central cube; witness table 1/384 against 1/96, Clayton -6.2 % / -3.1 %). Tied to /repo by exact vm_compute correspondence on dyadic step-measure chains in "
              "all 8 configurations, on set_representation for all 16 pairs x 2 flags (one and two calls), on copula drift vectors and on the "
              "observed variance_matrix and joint/margin flags, and on density-table copula chains for the cube model of vol_adjustment_ij. Finding F-C04-5 (joint flag max BG-index <= 1 left CGMY y = 1 margins of a copula "
              "chain without small-jump variance) repaired by d166938; its oracle (CGMY y = 1.0 margins against their 1-d chains) stays in the check.")
LEVEL_NOTE = ("Trusted: Coq kernel + vm_compute; py2coq + emitter py2coq_c04; floats modelled as Q (exact on dyadic inputs); Section hypotheses on "
              "m1/m2 (C09); scipy nquad / sqrtm outside the model.")
TECHNIQUE = ("Coq proof over Q (loop invariants by induction, lra) + py2coq for the LevyTriplet conversions and the set_representation dispatch + "
             "exact vm_compute correspondence on StepModel chains, triplets and copula chains")

REP_VAL = {"ZERO": 1, "CENTER": 2, "ONEONE": 3, "TILDE": 4}


def _product():
    from rpylib.product.payoff import PayoffDates

    class _Payoff:
        payoff_dates_type = PayoffDates.DETERMINISTIC

    class _Product:
        payoff = _Payoff()
    return _Product()


def build_process(model, grid, initialise=True):
    from rpylib.process.markovchain.markovchain import MarkovChainProcess
    from rpylib.distribution.sampling import SamplingMethod
    p = MarkovChainProcess(model=model, method=SamplingMethod.INVERSION, grid=grid)
    if initialise:
        p.initialisation(_product(), max_step_epsilon=0.125)
    return p


def mean_rate_q(nu, l, r, rep, fv, a):
    """first cumulant per unit time of (a, nu|[l,r]) declared in `rep` -- independent Fraction computation"""
    def m1(x, y):
        x, y = max(Fr(x), l), min(Fr(y), r)
        return nu.moment_q(x, y, 1) if x < y else Fr(0)
    allm = m1(l, r)
    tails = m1(l, -1) + m1(1, r)
    if rep == "ZERO":
        return a + allm
    if rep == "CENTER":
        return a
    if rep == "ONEONE":
        return a + tails
    return a + (allm if fv else tails)


def few_bits(x, bits=44):
    fr = Fr(float(x))
    return abs(fr.numerator).bit_length() <= bits


def _tie_spot(res):
    """cross-cutting TIE layer (DESIGN 2.2a): the GENERATED GenTie* definitions of GEN_DEPS (just regenerated and compiled by the driver)
    against the RUNNING Python functions on real objects, dyadic inputs, exact, one coqc (harness/tie_selftest.py: mu_h, q_vector, intensity_1d, dispatch_c1d, dispatch_nd2)"""
    try:
        import tie_selftest
        import common
        ok, log = common.regen_and_make(["Gen/GenTieChain.vo"])      # regenerated by the driver (GEN_DEPS) but no dependency of Properties/C04.vo: compile it
        if not ok:
            res.broke("correspondence TIE spot check", "Gen/GenTieChain.vo does not build: " + log[-1500:])
            return
        out = tie_selftest.selftest_spotchecks([m for m in GEN_DEPS if m.startswith("GenTie")], res.seed, name=PROP)
    except Exception as e:  # noqa: BLE001 -- the implementation raised on a spot-check input, or the case file does not compile
        res.broke("correspondence TIE spot check", f"could not run: {type(e).__name__}: {str(e)[-1500:]}")
        return
    if not out:
        res.broke("correspondence TIE spot check", "no spot-check group of harness/tie_selftest.py is covered by the GenTie modules of GEN_DEPS")
    for g, (n, bad) in sorted(out.items()):
        for i in range(n):
            res.count(("tie_spot", g, res.seed, i), kind="tie_spot")
            res.bump("tie_spot", g)
        if bad:
            res.broke(f"correspondence TIE {g}", f"generated definition(s) of group {g} disagree with the running Python function on "
                                                 f"{len(bad)} of {n} spot-check cases: indices {bad[:10]} (build/TIE/{PROP}.v)")


def correspond(res):
    from rpylib.distribution.samplingfactory import create_q_vector
    from rpylib.process.markovchain.markovchain import compute_mu_h
    from rpylib.model.levymodel.levymodel import LevyRepresentation
    from stepmeasure import StepModel, random_step_measure, random_dyadic_axis, make_grid, step_spec, build_model
    from props.C13 import build_fixed, build_credit
    rng = random.Random(res.seed)
    _tie_spot(res)
    thorough = res.tier == "thorough"

    def viol(what, **kw):
        res.violation(what, dict(kw))

    cases, exp_cases, opt_cases = [], [], []
    n_chains = 120 if not thorough else 1200
    for it in range(n_chains):
        src = rng.choice(["random", "random", "random", "fixed", "credit"])
        if src == "random":
            h = Fr(rng.choice([1, 1, 2, 3]), rng.choice([2, 4, 8]))
            big = rng.random() < 0.1
            nl, nr = (rng.randrange(15, 40), rng.randrange(15, 40)) if big else (rng.randrange(1, 8), rng.randrange(1, 8))
            axis, o = random_dyadic_axis(rng, nl, nr, h)
            grid = make_grid(axis, o, h)
        elif src == "fixed":
            h = Fr(rng.choice([1, 3]), rng.choice([2, 4, 8]))
            grid = build_fixed(float(h), rng.randrange(2, 30), 1)
        else:
            h = Fr(1, rng.choice([4, 8]))
            l, r = -rng.randrange(16, 48) / 8, rng.randrange(8, 48) / 8
            a_lvl = -rng.randrange(int(8 * h) + 2, int(-8 * l) - 1) / 8
            grid = build_credit(l, r, float(h), [a_lvl], False)
        levels = 0 if len(grid.axes[0]) > 31 else rng.choice([0, 0, 1, 1, 2, 3]) if len(grid.axes[0]) <= 9 else rng.choice([0, 1])
        for _ in range(levels):
            grid.refine()
        axis0 = [Fr(float(x)) for x in grid.axes[0]]
        o = grid.origin_coordinate.value
        supp = rng.choice(["cover", "cover", "exceed", "inside"])
        nu = random_step_measure(rng, axis0[0], axis0[-1], bits=rng.choice([2, 3]), cover=True, max_pieces=6)
        if supp == "exceed":
            nu.breaks[0] -= Fr(rng.randrange(1, 9), 4)
            nu.breaks[-1] += Fr(rng.randrange(1, 9), 4)
        elif supp == "inside" and len(nu.breaks) > 2:
            nu.dens[0] = Fr(0)
        if nu.moment_q(axis0[0], (axis0[o - 1] + axis0[o]) / 2, 0) + nu.moment_q((axis0[o] + axis0[o + 1]) / 2, axis0[-1], 0) == 0:
            res.bump("support", "zero-intensity chain skipped")
            continue
        rep = rng.choice(["ZERO", "CENTER", "ONEONE", "TILDE"])
        fv = rng.random() < 0.5
        nu.finite_variation = fv
        a = Fr(rng.randrange(-16, 17), 8)
        sigma = Fr(rng.randrange(0, 9), 8)
        exponential = rng.random() < 0.2
        spec = step_spec(nu, a=a, sigma=sigma, representation=rep)
        ctx = dict(kind="step", model=spec, axis=[float(x) for x in grid.axes[0]], o=o, h=float(grid.h), exponential=exponential)
        if rep == "ZERO" and not fv:
            # the ZERO representation requires jumps of finite variation: set_representation(TILDE) must raise ValueError, and the
            # generated conversion returns its error value (chain_process_drift_opt = None)
            res.count(("zero-iv", tuple(ctx["axis"]), o, str(nu.pieces()), str(a)), kind="ZERO/iv (ValueError expected)")
            raised = None
            try:
                with warnings.catch_warnings():
                    warnings.simplefilter("ignore")
                    build_process(build_model(spec, exponential=exponential, spot=100.0, r=0.03125, d=0.015625), grid)
            except ValueError as e:
                raised = str(e)
            except Exception as e:  # noqa
                raised = f"{type(e).__name__}: {e}"
            if raised is None or "ZERO representation requires jumps of finite variation" not in raised:
                viol("a model declared in the ZERO representation with jumps of infinite variation is not rejected with the documented ValueError",
                     raised=raised, **ctx)
            opt_cases.append(f"({nu.coq()}, {lst([qlit(float(x)) for x in grid.axes[0]])}, {natlit(o)}, {qlit(0)}, {zlit(1)}, false, {qlit(a)}, None)")
            continue
        try:
            model = build_model(spec, exponential=exponential, spot=100.0, r=0.03125, d=0.015625)
            with warnings.catch_warnings():
                warnings.simplefilter("ignore")
                p = build_process(model, grid)
            nu_t = p.model.levy_triplet.nu
            mu_h = compute_mu_h(levy_measure=nu_t, grid=grid, axis=grid.axes[0], origin=o)
            q = create_q_vector(nu_t, grid)
            pd = float(p.process_drift())
            edc2 = float(p.equivalent_diffusion_coefficient) ** 2
            md = float(p.model.drift())
        except Exception as e:  # noqa
            viol(f"building / initialising the chain raises {type(e).__name__}", reason=str(e)[:200], **ctx)
            continue
        n = len(axis0)
        res.count(("chain", tuple(ctx["axis"]), o, str(nu.pieces()), rep, fv, str(a), str(sigma), exponential),
                  nontrivial=o >= 2 and n - o - 1 >= 2, kind=f"{rep}/{'fv' if fv else 'iv'}{'/exp' if exponential else ''}")
        res.bump("levels", levels)
        res.bump("support", supp)
        res.bump("grid", src)
        # ---- oracle (implementation outputs + independent Fraction arithmetic on the measure)
        sum_xq = sum(Fr(float(x)) * Fr(float(qq)) for x, qq in zip(grid.axes[0], q))
        want = Fr(md) + mean_rate_q(nu, axis0[0], axis0[-1], rep, fv, a)
        got = Fr(pd) + sum_xq
        exact = (not exponential) and few_bits(pd) and few_bits(mu_h)
        tol = Fr(0) if exact else Fr(1, 10 ** 12) * (1 + abs(want))
        if abs(got - want) > tol:
            viol("process drift + rate-weighted states differs from the mean of the truncated process in its declared representation",
                 got=float(got), want=float(want), **ctx)
        if Fr(float(mu_h)) != sum_xq and few_bits(mu_h):
            viol("compute_mu_h differs from sum_k x_k q_k", got=float(mu_h), want=float(sum_xq), **ctx)
        hq = Fr(float(grid.h))
        c_h = Fr(0) if fv else nu.moment_q(max(max(-hq / 2, Fr(-1)), axis0[0]), min(min(hq / 2, Fr(1)), axis0[-1]), 2)
        want2 = sigma * sigma + c_h
        if abs(Fr(edc2) - want2) > Fr(1, 2 ** 46) * max(want2, Fr(1, 2 ** 40)):
            viol("equivalent_diffusion_coefficient**2 differs from sigma^2 + (infinite variation: second moment of the central cell)",
                 got=edc2, want=float(want2), **ctx)
        lit = (f"({nu.coq()}, {lst([qlit(float(x)) for x in grid.axes[0]])}, {natlit(o)}, {qlit(md)}, {zlit(REP_VAL[rep])}, {blit(fv)}, "
               f"{qlit(a)}, {qlit(sigma)}, {qlit(float(grid.h))}, {qlit(pd)}, {qlit(float(mu_h))}, {qlit(edc2)})")
        (cases if exact else exp_cases).append(lit)
        if exact and len(opt_cases) < 60:
            opt_cases.append(f"({nu.coq()}, {lst([qlit(float(x)) for x in grid.axes[0]])}, {natlit(o)}, {qlit(md)}, {zlit(REP_VAL[rep])}, "
                             f"{blit(fv)}, {qlit(a)}, (Some {qlit(pd)}))")
        res.bump("exactness", "exact" if exact else "tolerance")

    ty = "list (Q * Q * Q) * list Q * nat * Q * Z * bool * Q * Q * Q * Q * Q * Q"
    sig_ok = "(let s := chain_sig_h2 ps xs sigma fv h in Qle_bool (Qabs (e2 - s)) (s * (1 # 70368744177664) + (1 # 1267650600228229401496703205376)))"
    if not any(c.endswith("None)") for c in opt_cases):     # always exercise the error branch
        opt_cases.append("([(-2, 2, 3)], [-2; -1; 0; 1; 2], 2%nat, 0, 1%Z, false, (1#2), None)")
    groups = [
        ("raise", "list (Q * Q * Q) * list Q * nat * Q * Z * bool * Q * option Q",
         "fun c => match c with (ps, xs, o, md, rep, fv, a, e) => option_eqb Qeq_bool (chain_process_drift_gen_opt ps xs o md rep fv a) e end", opt_cases),
        ("exact", ty, "fun c => match c with (ps, xs, o, md, rep, fv, a, sigma, h, pd, muh, e2) => "
                      "Qeq_bool (chain_process_drift_gen ps xs o md rep fv a) pd && Qeq_bool (chain_mu_h ps xs o) muh && " + sig_ok + " end", cases),
        ("tol", ty, "fun c => match c with (ps, xs, o, md, rep, fv, a, sigma, h, pd, muh, e2) => "
                    "(let m := chain_process_drift_gen ps xs o md rep fv a in Qle_bool (Qabs (pd - m)) ((1 + Qabs m) * (1 # 1000000000000))) && "
                    "(let m := chain_mu_h ps xs o in Qle_bool (Qabs (muh - m)) ((1 + Qabs m) * (1 # 1000000000000))) && " + sig_ok + " end", exp_cases),
    ]

    _real_stream(res, rng, viol, 1 if not thorough else 4)
    _copula_margins(res, rng, viol)
    _copula_drift(res, rng, viol, groups, 10 if not thorough else 80)
    _set_representation(res, rng, viol, groups, 160 if not thorough else 1600)
    _copula_strip(res, rng, viol, groups)

    header = ("From Coq Require Import ZArith QArith Qabs List Bool.\nFrom RV Require Import Base.QB Model.Grid Gen.GenC01Trunc Gen.GenC04Triplet "
              "Gen.GenC04SetRep Model.Chain Model.Drift Model.DriftGen Model.CopulaDiffusion.\nOpen Scope Q_scope.")
    res.case_lemmas += len(groups)
    for gname, ty_, chk, cs in groups:
        if not cs:
            res.broke(f"correspondence {gname}", "the generator produced no case for this group")
            continue
        bad, _ = parallel_coq_bad(PROP, f"cases_{gname}", header, ty_, chk, cs, shard=(2 if gname in ("copuladrift", "copulasig2", "copulavarmatrix", "copulastrip") else 10), jobs=14)
        if bad:
            res.broke(f"correspondence {gname}", f"model and implementation differ on {len(bad)} case(s), first: {cs[bad[0]][:1500]}")
        else:
            res.case_ok += 1


def _quad_x(nu, lo, hi):
    import scipy.integrate
    if not lo < hi:
        return 0.0
    pts = [p for p in (-1.0, -0.1, -0.01, -0.001, 0.001, 0.01, 0.1, 1.0) if lo < p < hi]
    val, err = scipy.integrate.quad(lambda x: x * float(nu(x)), lo, hi, points=pts or None, limit=400, epsabs=1e-13, epsrel=1e-11)
    return val


def real_mean_rate(model, l, r):
    """a_declared + quadrature of x*nu(x) over the part of [l,r] the declared representation does not compensate"""
    t = model.levy_triplet
    nu, rep, a = t.nu, t.representation.name, float(t.a)
    fv = nu.jump_of_finite_variation()

    def tails():
        return _quad_x(nu, l, min(-1.0, r)) + _quad_x(nu, max(1.0, l), r)

    def allm():
        return _quad_x(nu, l, 0.0) + _quad_x(nu, 0.0, r)
    if rep == "CENTER":
        return a
    if rep == "ONEONE" or (rep == "TILDE" and not fv):
        return a + tails()
    return a + allm()


def _real_stream(res, rng, viol, scale):
    from rpylib.distribution.samplingfactory import create_q_vector
    from rpylib.grid.spatial import CTMCUniformGrid, CTMCGridGeometric, CTMCGridProbabilityStep
    from stepmeasure import real_model_specs, build_model
    for rep_i in range(scale):
        # CGMY with y exactly 1 has infinite variation (Blumenthal-Getoor index 1): the central cell's variance must be added
        extra = [{"family": "CGMY", "kwargs": dict(c=rng.uniform(0.02, 0.2), g=rng.uniform(8, 20), m=rng.uniform(8, 25), y=1.0)}]
        for spec in real_model_specs(rng) + extra:
            for exponential in (False, True):
                fam = spec["family"]
                try:
                    model = build_model(spec, exponential=exponential)
                except Exception as e:  # noqa
                    res.notes.append(f"{fam}: model constructor raised {type(e).__name__}")
                    continue
                h = rng.choice([0.02, 0.05])
                gnames = ["uniform", "geometric"]
                if fam in ("HEM", "MERTON", "VG") and rep_i == 0 and not exponential:
                    gnames.append("probstep")      # compute_mu_h must use the grid's own middle there
                for gname in gnames:
                    try:
                        grid = (CTMCUniformGrid(h=h, model=model) if gname == "uniform"
                                else CTMCGridGeometric(h=h, model=model, nb_of_points_on_each_side=rng.randrange(3, 12)) if gname == "geometric"
                                else CTMCGridProbabilityStep(h=0.05, model=model, minimum_probability_step=0.1))
                    except ValueError:
                        res.bump("real_grid_ValueError", f"{fam}/{gname}")
                        continue
                    lv = rng.choice([0, 1])        # probability-step grids too (the refined grid's own middle)
                    for _ in range(lv):
                        grid.refine()
                    ctx = dict(kind="real", model=spec, exponential=exponential, grid=gname, h=float(grid.h), levels=lv,
                               axis=[float(x) for x in grid.axes[0]], o=grid.origin_coordinate.value)
                    try:
                        with warnings.catch_warnings():
                            warnings.simplefilter("ignore")
                            p = build_process(model, grid)
                            q = create_q_vector(p.model.levy_triplet.nu, grid)
                            pd = float(p.process_drift())
                            md = float(p.model.drift())
                            l, r = (float(t) for t in grid.truncations[0])
                            want = md + real_mean_rate(model, l, r)
                    except Exception as e:  # noqa
                        viol(f"building / initialising the chain raises {type(e).__name__}", reason=str(e)[:200], **ctx)
                        continue
                    got = pd + float(np.dot(grid.axes[0], q))
                    res.count(("real", fam, exponential, gname, ctx["h"], rep_i), kind=f"{fam}{'/exp' if exponential else ''} on {gname}")
                    res.bump("real_declared_representation", f"{fam}:{model.levy_triplet.representation.name}")
                    if abs(got - want) > 1e-7 * (1 + abs(want)):
                        viol("process drift + rate-weighted states differs from the mean of the truncated process (real model, quadrature of x nu(x))",
                             got=got, want=want, declared=model.levy_triplet.representation.name, **ctx)
                    # variance: infinite variation (decided independently: CGMY y >= 1) adds the central cell's second moment
                    iv = fam == "CGMY" and spec["kwargs"]["y"] >= 1.0
                    hh = float(grid.h)
                    sig = float(model.diffusion_coefficient())
                    want2 = sig ** 2
                    if iv:
                        nu0 = model.levy_triplet.nu
                        import scipy.integrate
                        f2 = lambda x: x * x * float(nu0(x))
                        want2 += scipy.integrate.quad(f2, max(-hh / 2, -1.0), 0.0, limit=400)[0] + scipy.integrate.quad(f2, 0.0, min(hh / 2, 1.0), limit=400)[0]
                    got2 = float(p.equivalent_diffusion_coefficient) ** 2
                    res.bump("variance_case", "infinite variation" if iv else "finite variation")
                    if abs(got2 - want2) > 1e-6 * max(want2, 1e-12):
                        viol("equivalent_diffusion_coefficient**2 differs from sigma^2 (+ central-cell second moment for infinite variation) (real model)",
                             got=got2, want=want2, **ctx)


def _copula_margins(res, rng, viol):
    """each margin of a copula chain: mu_h of margin k must be sum_i x^k_i * q^k_i computed on axis k (F-C04-1 when axes differ)"""
    from rpylib.process.markovchain.markovchain import compute_mu_h
    from rpylib.grid.spatial import CTMCGrid
    from rpylib.model.levymodel.levymodel import TruncatedLevyMeasure
    from stepmeasure import StepMeasure
    for equal_axes in (True, False):
        ax0 = [Fr(-2), Fr(-1), Fr(-1, 2), Fr(0), Fr(1, 2), Fr(1), Fr(3)]
        ax1 = list(ax0) if equal_axes else [Fr(-4), Fr(-3, 2), Fr(-1, 2), Fr(0), Fr(1, 2), Fr(2), Fr(5, 2)]
        grid = CTMCGrid(h=0.5, origin_coordinate=3, axes=[np.array([float(x) for x in ax0]), np.array([float(x) for x in ax1])])
        nu = StepMeasure([Fr(-4), Fr(0), Fr(3)], [Fr(3, 4), Fr(3, 2)])
        for k, ax in enumerate((ax0, ax1)):
            tnu = TruncatedLevyMeasure(nu, (float(ax[0]), float(ax[-1])))
            got = Fr(float(compute_mu_h(levy_measure=tnu, grid=grid, axis=grid.axes[k], origin=3)))
            want = Fr(0)
            for i, x in enumerate(ax):
                if i != 3:
                    lo, hi = (ax[max(0, i - 1)] + x) / 2, (x + ax[min(len(ax) - 1, i + 1)]) / 2
                    want += x * nu.moment_q(max(lo, ax[0]), min(hi, ax[-1]), 0)
            res.count(("copula-margin", equal_axes, k), kind="compute_mu_h on margin of a 2-d grid")
            if got != want:
                viol("compute_mu_h of a copula margin uses the cells of axes[0], not of its own axis",
                     kind="margin", finding="F-C04-1", axis0=[float(x) for x in ax0], axis1=[float(x) for x in ax1], margin=k,
                     got=float(got), want=float(want))


class _record_sqrtm:
    """observe (not alter) the matrix MCLevyCopulaSimulation.__init__ hands to scipy.linalg.sqrtm"""
    def __enter__(self):
        import scipy.linalg
        self._mod, self._orig, self.seen = scipy.linalg, scipy.linalg.sqrtm, []

        def sqrtm(a, *args, **kw):
            self.seen.append(np.array(a, dtype=float).copy())
            return self._orig(a, *args, **kw)
        scipy.linalg.sqrtm = sqrtm
        return self.seen

    def __exit__(self, *exc):
        self._mod.sqrtm = self._orig
        return False


def _copula_drift(res, rng, viol, groups, n_cases):
    """MarkovChainLevyCopula.initialisation: the drift VECTOR of a copula chain whose margins have different
    finite-variation flags / representations / (credit-like) different axes -- exact on step margins (F-C04-2)"""
    from rpylib.process.markovchain.markovchainlevycopula import MarkovChainLevyCopula, vol_adjustment_ij
    from rpylib.distribution.sampling import SamplingMethod
    from rpylib.distribution.samplingfactory import create_q_vector
    from rpylib.grid.spatial import CTMCGrid
    from rpylib.model.levycopulamodel import LevyCopulaModel
    from rpylib.distribution.levycopula import IndependentComponentsCopula
    from rpylib.model.levymodel.levymodel import TruncatedLevyMeasure
    from stepmeasure import random_step_measure, random_dyadic_axis, step_spec, build_model
    cases, sig_cases, vm_cases = [], [], []
    for it in range(n_cases):
        dim = rng.choice([2, 2, 3])
        h = Fr(1, 2)
        nl, nr = rng.randrange(2, 5), rng.randrange(2, 5)
        same_axes = rng.random() < 0.6
        axes = []
        for k in range(dim):
            axes.append(axes[0] if (same_axes and k) else random_dyadic_axis(rng, nl, nr, h, bits=2))   # same lengths / origin index
        o = axes[0][1]
        flags = [rng.random() < 0.5 for _ in range(dim)]
        if it < 2:
            flags = [True] + [False] * (dim - 1) if it == 0 else [False] + [True] * (dim - 1)      # mixed flags, both ways
        if dim == 3 and not all(flags) and res.tier == "quick":
            dim, axes, flags = 2, axes[:2], flags[:2]      # an infinite-variation 3-d model spends ~10 s in the library's nquad (diffusion matrix)
        specs, margins = [], []
        for k in range(dim):
            ax = axes[k][0]
            nu = random_step_measure(rng, ax[0], ax[-1], bits=2, cover=True, max_pieces=4, zero_prob=0.0)
            nu.finite_variation, nu.strict = flags[k], False
            rep = rng.choice(["ZERO", "CENTER", "ONEONE", "TILDE"] if flags[k] else ["CENTER", "ONEONE", "TILDE"])   # ZERO needs finite variation
            a = Fr(rng.randrange(-8, 9), 8)
            sig = Fr(rng.randrange(0, 5), 4)
            specs.append(step_spec(nu, a=a, sigma=sig, representation=rep))
            margins.append((nu, rep, a, sig))
        ctx = dict(kind="copula-drift", margins=specs, axes=[[float(x) for x in ax[0]] for ax in axes], o=o, h=float(h))
        try:
            with warnings.catch_warnings():
                warnings.simplefilter("ignore")
                model = LevyCopulaModel([build_model(sp) for sp in specs], IndependentComponentsCopula())
                grid = CTMCGrid(h=float(h), origin_coordinate=o, axes=[np.array([float(x) for x in ax[0]]) for ax in axes])
                with _record_sqrtm() as rec:
                    p = MarkovChainLevyCopula(levy_copula_model=model, grid=grid, method=SamplingMethod.INVERSION)
                    p.initialisation(_product())
                drift = [float(v) for v in np.ravel(p.process_drift())]
                dmat = np.real(np.array(p._path_simulation.diffusion_matrix, dtype=complex))
                var_matrix = dmat @ dmat.T
                vm_in = np.array(rec[-1], dtype=float)          # the variance_matrix handed to scipy.linalg.sqrtm (last construction)
                joint = bool(p.model.jump_of_finite_variation())
                mflags = [bool(m.jump_of_finite_variation()) for m in p.model.models]
                # the pool's outputs, recomputed in-process with the same arguments (deterministic quadrature)
                # (a 3-d infinite-variation model spends ~10 s per nquad: recomputed for the first 3 such cases of a run only)
                slow = (not joint) and dim >= 3
                recompute = not slow or sum(1 for c_ in vm_cases if c_.startswith("(* 3d *)")) < 3
                outs = [] if joint else ([float(vol_adjustment_ij(i, j, p.grid.h, p.model)) for i in range(dim) for j in range(i, dim)] if recompute else None)
        except Exception as e:  # noqa
            viol(f"initialising the copula chain raises {type(e).__name__}", reason=str(e)[:200], **ctx)
            continue
        # the diffusion matrix D of the chain (independent margins): D D^T = diag(sigma_k^2 + second moment of margin k over the
        # central cell if margin k has infinite variation)  -- library quadrature (nquad): tolerance
        hq = h
        want_diag = []
        for k, (nu, rep, a, sig) in enumerate(margins):
            axk = axes[k][0]
            c_h = Fr(0) if flags[k] else nu.moment_q(max(-hq / 2, Fr(-1), axk[0]), min(hq / 2, Fr(1), axk[-1]), 2)
            want_diag.append(sig * sig + c_h)
        want_m = np.diag([float(v) for v in want_diag])
        res.bump("copula_variance_case", "some margin of infinite variation" if not all(flags) else "all finite variation")
        if np.max(np.abs(var_matrix - want_m)) > 1e-5 + 1e-4 * float(max(want_diag)):
            viol("copula chain: D D^T of the diffusion matrix is not diag(sigma_k^2 + central-cell second moment of the infinite-variation margins)",
                 finding="F-C04-3", flags=flags, got=[[float(v) for v in row] for row in var_matrix], want=[float(v) for v in want_diag], **ctx)
        # the assembly of variance_matrix (unpacking loop, margin loop, + diag sigma^2) against Model/CopulaDiffusion.v: the quadrature
        # outputs are data; one float addition per diagonal entry: relative 2^-50
        if mflags != flags or joint != all(mflags):
            viol("LevyCopulaModel.jump_of_finite_variation() is not 'every margin has jumps of finite variation' (a margin of infinite variation "
                 "would get no central-cell variance)", finding="F-C04-5", margin_flags=mflags, joint=joint, **ctx)
        for r_ in range(dim):
            for c_ in range(dim):
                if r_ != c_ and (flags[r_] or flags[c_]) and vm_in[r_][c_] != 0.0:
                    viol("copula chain: a cross term of variance_matrix involving a margin of finite variation is not zero",
                         finding="F-C04-4", entry=[r_, c_], got=float(vm_in[r_][c_]), flags=flags, **ctx)
        res.bump("copula_variance_matrix", f"dim {dim}, {'joint fv (pool not run)' if joint else 'pool outputs not recomputed (slow)' if outs is None else 'pool outputs: ' + str(len(outs))}")
        if outs is not None:
            vm_cases.append(("(* 3d *)" if slow else "") + f"({lst([tup([qlit(sig), blit(flags[k])]) for k, (nu, rep, a, sig) in enumerate(margins)])}, "
                        f"{lst([qlit(v) for v in outs])}, {lst([lst([qlit(float(v)) for v in row]) for row in vm_in])})")
        sig_cases.append(f"({lst(['(' + nu.coq() + ', ' + lst([qlit(float(x)) for x in axes[k][0]]) + ', ' + qlit(sig) + ', ' + blit(flags[k]) + ')' for k, (nu, rep, a, sig) in enumerate(margins)])}, "
                         f"{qlit(h)}, {lst([qlit(float(var_matrix[k][k])) for k in range(dim)])})")
        res.count(("copula-drift", it, tuple(flags), dim, same_axes), kind=f"copula chain drift ({'mixed' if len(set(flags)) > 1 else 'equal'} flags)")
        lits = []
        for k, (nu, rep, a, sig) in enumerate(margins):
            ax = axes[k][0]
            g1 = CTMCGrid(h=float(h), origin_coordinate=o, axes=[np.array([float(x) for x in ax])])
            q = create_q_vector(TruncatedLevyMeasure(nu, (float(ax[0]), float(ax[-1]))), g1)
            got = Fr(drift[k]) + sum(Fr(float(x)) * Fr(float(qq)) for x, qq in zip(ax, q))
            want = mean_rate_q(nu, ax[0], ax[-1], rep, flags[k], a)
            if got != want:
                viol("copula chain: drift + rate-weighted states of a margin differs from the margin's mean (its own variation flag)",
                     finding="F-C04-2", margin=k, flags=flags, got=float(got), want=float(want), **ctx)
            lits.append(f"({nu.coq()}, {lst([qlit(float(x)) for x in ax])}, {natlit(o)}, {qlit(0)}, {zlit(REP_VAL[rep])}, {blit(flags[k])}, {qlit(a)})")
        cases.append(f"({lst(lits)}, {lst([qlit(d) for d in drift])})")
    groups.append(("copulasig2", "list (list (Q * Q * Q) * list Q * Q * bool) * Q * list Q",
                   "fun c => match c with (ms, h, e) => let m := copula_chain_sig2 ms h in Nat.eqb (length m) (length e) && "
                   "forallb (fun xy => Qle_bool (Qabs (fst xy - snd xy)) ((1 # 100000) + (1 # 10000) * Qabs (fst xy))) (combine m e) end", sig_cases))
    groups.append(("copulavarmatrix", "list (Q * bool) * list Q * list (list Q)",
                   "fun c => match c with (ms, outs, e) => let m := copula_chain_variance_matrix ms outs in "
                   "Nat.eqb (length m) (length e) && forallb (fun rr => Nat.eqb (length (fst rr)) (length (snd rr)) && "
                   "forallb (fun xy => Qle_bool (Qabs (fst xy - snd xy)) (Qabs (fst xy) * (1 # 1125899906842624))) (combine (fst rr) (snd rr))) (combine m e) end",
                   vm_cases))
    groups.append(("copuladrift", "list (list (Q * Q * Q) * list Q * nat * Q * Z * bool * Q) * list Q",
                   "fun c => qlist_eqb (copula_chain_drift_gen (fst c)) (snd c)", cases))
    # F-C04-5: margins with Blumenthal-Getoor index exactly 1 that report jumps of infinite variation (CGMY y = 1.0): the 1-d chain of
    # each margin adds the central cell's second moment; the copula chain must add a positive variance to that margin too
    from rpylib.grid.spatial import CTMCUniformGrid
    from stepmeasure import build_copula_model
    sp1 = [{"family": "CGMY", "kwargs": dict(c=0.05, g=10.0, m=8.0, y=1.0)}, {"family": "CGMY", "kwargs": dict(c=0.08, g=12.0, m=9.0, y=1.0)}]
    ctx = dict(kind="copula-variance-bg1", models=sp1, h=0.1, copula="clayton")
    try:
        with warnings.catch_warnings():
            warnings.simplefilter("ignore")
            model = build_copula_model(sp1, "clayton")
            grid = CTMCUniformGrid(h=0.1, model=model)
            p = MarkovChainLevyCopula(levy_copula_model=model, grid=grid, method=SamplingMethod.INVERSION)
            p.initialisation(_product())
            dmat = np.real(np.array(p._path_simulation.diffusion_matrix, dtype=complex))
            vm = dmat @ dmat.T
            for k in (0, 1):
                m1 = build_model(sp1[k])
                p1 = build_process(m1, CTMCUniformGrid(h=0.1, model=m1))
                added_1d = float(p1.equivalent_diffusion_coefficient) ** 2 - float(m1.diffusion_coefficient()) ** 2
                added_cop = float(vm[k][k]) - float(m1.diffusion_coefficient()) ** 2
                res.count(("copula-variance-bg1", k), kind="copula chain variance, margins with BG index exactly 1")
                if not m1.jump_of_finite_variation() and added_1d > 1e-6 and added_cop < 0.25 * added_1d:
                    viol("copula chain: a margin with jumps of infinite variation gets (almost) no central-cell variance although its 1-d chain adds it "
                         "(F-C04-5: the joint flag was max Blumenthal-Getoor index <= 1)", finding="F-C04-5", margin=k, added_by_copula_chain=added_cop,
                         added_by_1d_chain=added_1d, joint_flag=bool(model.jump_of_finite_variation()),
                         margin_flags=[bool(m.jump_of_finite_variation()) for m in model.models], **ctx)
    except Exception as e:  # noqa
        viol(f"initialising the copula chain raises {type(e).__name__}", reason=str(e)[:200], **ctx)
    # real margins with different flags (tolerance): HEM (finite variation) with CGMY y = 1.3 (infinite variation)
    from rpylib.grid.spatial import CTMCUniformGrid
    from stepmeasure import build_copula_model
    specs = [{"family": "HEM", "kwargs": dict(sigma=0.1, p=0.6, eta1=25.0, eta2=40.0, intensity=5.0)},
             {"family": "CGMY", "kwargs": dict(c=0.05, g=10.0, m=8.0, y=1.3)}]
    for order in ((0, 1), (1, 0)):
        sp = [specs[order[0]], specs[order[1]]]
        ctx = dict(kind="copula-drift-real", models=sp, h=0.1)
        try:
            with warnings.catch_warnings():
                warnings.simplefilter("ignore")
                model = build_copula_model(sp, "clayton")
                grid = CTMCUniformGrid(h=0.1, model=model)
                p = MarkovChainLevyCopula(levy_copula_model=model, grid=grid, method=SamplingMethod.INVERSION)
                p.initialisation(_product())
                drift = [float(v) for v in np.ravel(p.process_drift())]
                for k in (0, 1):
                    m1 = build_model(sp[k])
                    g1 = CTMCGrid(h=float(grid.h), origin_coordinate=grid.origin_coordinate.value[k], axes=[grid.axes[k].copy()])
                    l, r = (float(t) for t in grid.truncations[k])
                    q = create_q_vector(TruncatedLevyMeasure(m1.levy_triplet.nu, (l, r)), g1)
                    got = drift[k] + float(np.dot(grid.axes[k], q)) - float(np.ravel(model.drift())[k])
                    want = real_mean_rate(m1, l, r)
                    res.count(("copula-drift-real", order, k), kind="copula chain drift, real margins with mixed flags")
                    if abs(got - want) > 1e-7 * (1 + abs(want)):
                        viol("copula chain: drift + rate-weighted states of a margin differs from the margin's mean (its own variation flag)",
                             finding="F-C04-2", margin=k, got=got, want=want, **ctx)
        except Exception as e:  # noqa
            viol(f"initialising the copula chain raises {type(e).__name__}", reason=str(e)[:200], **ctx)



STRIP_WITNESS = [("0", "1", "0", "1", "1"), ("-1", "0", "-1", "0", "1")]
STRIP_REL, STRIP_ABS = 0.02, 1e-6        # oracle threshold: the copula chain adds less than (1 - 2 %) of what the 1-d chain adds


def _strip_table_case(pieces, axis, o, h, sigmas):
    """real entry points on a 2-d density table whose margins are flagged infinite variation: the matrix handed to sqrtm by
    MarkovChainLevyCopula(...).initialisation, and sigma_h^2 - sigma^2 of MarkovChainProcess on each margin"""
    from rpylib.process.markovchain.markovchainlevycopula import MarkovChainLevyCopula
    from rpylib.distribution.sampling import SamplingMethod
    from rpylib.grid.spatial import CTMCGrid
    from stepmeasure import Table2, table_copula_model, StepModel
    t = Table2([tuple(Fr(v) for v in p) for p in pieces])
    with warnings.catch_warnings():
        warnings.simplefilter("ignore")
        model = table_copula_model(t, sigma=tuple(sigmas), strict=False, fv=(False, False))
        grid = CTMCGrid(h=float(h), origin_coordinate=o, axes=[np.array(axis, dtype=float), np.array(axis, dtype=float)])
        with _record_sqrtm() as rec:
            p = MarkovChainLevyCopula(levy_copula_model=model, grid=grid, method=SamplingMethod.INVERSION)
            p.initialisation(_product())
        vm_in = np.array(rec[-1], dtype=float)
        added_1d = []
        for k in (0, 1):
            nu_k = t.margin(k, strict=False)
            nu_k.finite_variation = False
            m1 = StepModel(nu_k, a=0.0, sigma=sigmas[k])
            p1 = build_process(m1, CTMCGrid(h=float(h), origin_coordinate=o, axes=[np.array(axis, dtype=float)]), initialise=False)
            added_1d.append(float(p1.equivalent_diffusion_coefficient) ** 2 - float(sigmas[k]) ** 2)
    added_cop = [float(vm_in[k][k]) - float(sigmas[k]) ** 2 for k in (0, 1)]
    return t, vm_in, added_cop, added_1d


def _table_moments(t, h, k):
    """exact: second moment of x_k over the central cube and over margin k's central cell (independent Fraction arithmetic)"""
    hh = Fr(h) / 2
    cube = strip = Fr(0)
    for lo1, hi1, lo2, hi2, d in t.pieces:
        b = [(lo1, hi1), (lo2, hi2)]
        lk, uk = max(b[k][0], -hh), min(b[k][1], hh)
        if lk >= uk:
            continue
        m2 = (uk ** 3 - lk ** 3) / 3
        lj, uj = max(b[1 - k][0], -hh), min(b[1 - k][1], hh)
        strip += d * m2 * (b[1 - k][1] - b[1 - k][0])
        if lj < uj:
            cube += d * m2 * (uj - lj)
    return cube, strip


def _strip_real_case(specs, copula, h):
    """real margins (CGMY ...) under a named copula, uniform grid: variance added to each margin by the copula chain / by its 1-d chain,
    and -- deterministic quadrature of LevyCopulaModel.mass, independent of vol_adjustment_ij -- the second moment of x_k over the
    part of margin k's central cell OUTSIDE the central cube: 2 int_0^{h/2} s mass([s,h/2] x {|x_j| > h/2}) ds + the negative side"""
    import scipy.integrate
    from rpylib.process.markovchain.markovchainlevycopula import MarkovChainLevyCopula
    from rpylib.distribution.sampling import SamplingMethod
    from rpylib.grid.spatial import CTMCUniformGrid
    from stepmeasure import build_copula_model, build_model
    with warnings.catch_warnings():
        warnings.simplefilter("ignore")
        model = build_copula_model(specs, copula)
        grid = CTMCUniformGrid(h=h, model=model)
        with _record_sqrtm() as rec:
            p = MarkovChainLevyCopula(levy_copula_model=model, grid=grid, method=SamplingMethod.INVERSION)
            p.initialisation(_product())
        vm_in = np.array(rec[-1], dtype=float)
        added_cop, added_1d, strip = [], [], []
        tr = [tuple(float(v) for v in t_) for t_ in grid.truncations]
        mass = p.model.mass
        for k in (0, 1):
            m1 = build_model(specs[k])
            p1 = build_process(m1, CTMCUniformGrid(h=h, model=m1), initialise=False)
            s2 = float(m1.diffusion_coefficient()) ** 2
            added_1d.append(float(p1.equivalent_diffusion_coefficient) ** 2 - s2)
            added_cop.append(float(vm_in[k][k]) - s2)
            j = 1 - k

            def box(sk_lo, sk_hi, j_lo, j_hi):
                a, b = [0.0, 0.0], [0.0, 0.0]
                a[k], b[k], a[j], b[j] = sk_lo, sk_hi, j_lo, j_hi
                return float(mass(a=a, b=b))
            tot = 0.0
            for j_lo, j_hi in ((h / 2, tr[j][1]), (tr[j][0], -h / 2)):
                tot += scipy.integrate.quad(lambda s: 2 * s * box(s, h / 2, j_lo, j_hi), 0.0, h / 2, limit=200)[0]
                tot += scipy.integrate.quad(lambda s: -2 * s * box(-h / 2, s, j_lo, j_hi), -h / 2, 0.0, limit=200)[0]
            strip.append(tot)
    return vm_in, added_cop, added_1d, strip


def _under_dispersed(added_cop, added_1d):
    return added_1d > 10 * STRIP_ABS and added_cop < (1 - STRIP_REL) * added_1d - STRIP_ABS


def _copula_strip(res, rng, viol, groups):
    """F-C04-6 (audit 5a B6): the variance the copula chain adds to margin k (diagonal of the matrix handed to sqrtm minus sigma_k^2)
    against the variance the 1-d chain of the SAME margin adds (equivalent_diffusion_coefficient^2 - sigma_k^2).  Oracle on the
    implementation alone; deterministic (exact tables / quadrature), no Monte Carlo.  Streams: 2-d density tables with mass in the
    strip outside the cube (witness), tables without (control), CGMY margins under the Clayton, independent and
    complete-dependence copulas.  The tables also tie tab2_vadj (Model/CopulaDiffusion.v: the central CUBE) to the observed matrix."""
    cases = []
    tables = [("witness", STRIP_WITNESS, [-1.0, -0.5, 0.0, 0.5, 1.0], 2, 0.5, (0.5, 0.25)),
              # control: support inside the cube + outside both strips: cube moment = strip moment, no under-dispersion
              ("control", [("0", "1/4", "0", "1/4", "4"), ("-1/4", "0", "-1/4", "0", "2"), ("1/2", "1", "1/2", "1", "1")],
               [-1.0, -0.5, 0.0, 0.5, 1.0], 2, 0.5, (0.25, 0.5)),
              # mass in one strip only (|x_0| small, x_1 large): margin 0 under-dispersed, margin 1 not
              ("one-strip", [("0", "1/4", "1/2", "2", "1"), ("0", "1/4", "0", "1/4", "2"), ("-1", "-1/2", "-2", "-1", "1")],
               [-2.0, -1.0, -0.5, 0.0, 0.5, 1.0, 2.0], 3, 0.5, (0.0, 0.25))]
    for name, pieces, axis, o, h, sigmas in tables:
        ctx = dict(kind="copula-variance-strip", source="table", table=[list(p) for p in pieces], axis=axis, o=o, h=h, sigmas=list(sigmas))
        try:
            t, vm_in, added_cop, added_1d = _strip_table_case(pieces, axis, o, h, sigmas)
        except Exception as e:  # noqa
            viol(f"initialising the copula chain of a density table raises {type(e).__name__}", reason=str(e)[:200], **ctx)
            continue
        for k in (0, 1):
            cube, strip = _table_moments(t, h, k)
            res.count(("copula-strip-table", name, k), kind=f"copula chain vs 1-d chain variance, table ({'gap' if cube < strip else 'no gap'} expected)")
            res.bump("copula_strip", f"table {name} margin {k}: cube {cube} / margin cell {strip}")
            if abs(added_1d[k] - float(strip)) > 1e-9 + 1e-9 * float(strip):
                viol("1-d chain of a table margin: sigma_h^2 - sigma^2 is not the second moment of the margin's central cell",
                     margin=k, got=added_1d[k], want=float(strip), **ctx)
            if _under_dispersed(added_cop[k], added_1d[k]):
                viol("copula chain: the variance added to a margin of infinite variation is smaller than what the 1-d chain of the same "
                     "margin adds (vol_adjustment_ij(k,k) integrates the central CUBE, not the margin's central cell)",
                     finding="F-C04-6", margin=k, added_by_copula_chain=added_cop[k], added_by_1d_chain=added_1d[k], **ctx)
            elif cube < strip * (1 - Fr(3, 100)):
                res.broke("oracle copulastrip", f"table {name} margin {k}: exact cube moment {cube} < margin-cell moment {strip} but the oracle "
                                                f"saw added_cop={added_cop[k]} added_1d={added_1d[k]}")
        cases.append(f"({t.coq()}, {qlit(Fr(h))}, {qlit(Fr(sigmas[0]))}, {qlit(Fr(sigmas[1]))}, "
                     f"{lst([lst([qlit(float(v)) for v in row]) for row in vm_in])}, {lst([qlit(v) for v in added_1d])}, {qlit(t.support_bound())})")
    groups.append(("copulastrip", "list (Q * Q * Q * Q * Q) * Q * Q * Q * list (list Q) * list Q * Q",
                   "fun c => match c with (t, h, s0, s1, e, e1, big) => let m := table_chain_variance_matrix t h s0 s1 in "
                   "Nat.eqb (length m) (length e) && forallb (fun rr => Nat.eqb (length (fst rr)) (length (snd rr)) && "
                   "forallb (fun xy => Qle_bool (Qabs (fst xy - snd xy)) ((1 # 100000) + (1 # 10000) * Qabs (fst xy))) (combine (fst rr) (snd rr))) (combine m e) "
                   "&& forallb (fun ke => Qle_bool (Qabs (tab2_margin_m2 t big (fst ke) (- (h / 2)) (h / 2) - snd ke)) (1 # 1000000000)) (combine [0%nat; 1%nat] e1) end",
                   cases))
    # real margins: CGMY y = 1.3 (infinite variation) under three copulas
    sp = [{"family": "CGMY", "kwargs": dict(c=0.05, g=10.0, m=8.0, y=1.3)}, {"family": "CGMY", "kwargs": dict(c=0.08, g=12.0, m=9.0, y=1.3)}]
    for copula in ("clayton", "independent", "dependent"):
        ctx = dict(kind="copula-variance-strip", source="real", models=sp, copula=copula, h=0.1)
        try:
            vm_in, added_cop, added_1d, strip = _strip_real_case(sp, copula, 0.1)
        except Exception as e:  # noqa
            if copula == "dependent":
                res.notes.append(f"copula-variance-strip: complete-dependence copula not evaluated ({type(e).__name__}: {str(e)[:80]})")
                continue
            viol(f"initialising the copula chain raises {type(e).__name__}", reason=str(e)[:200], **ctx)
            continue
        for k in (0, 1):
            res.count(("copula-strip-real", copula, k), kind=f"copula chain vs 1-d chain variance, CGMY y=1.3 / {copula}")
            res.bump("copula_strip", f"{copula} margin {k}: copula chain {added_cop[k]:.6f} / 1-d chain {added_1d[k]:.6f} "
                                     f"({100 * (added_cop[k] / added_1d[k] - 1):+.1f} %), strip outside the cube by quadrature {strip[k]:.6f}")
            if _under_dispersed(added_cop[k], added_1d[k]):
                viol("copula chain: the variance added to a margin of infinite variation is smaller than what the 1-d chain of the same "
                     "margin adds (vol_adjustment_ij(k,k) integrates the central CUBE, not the margin's central cell)",
                     finding="F-C04-6", margin=k, added_by_copula_chain=added_cop[k], added_by_1d_chain=added_1d[k],
                     strip_outside_cube_by_quadrature=strip[k], **ctx)
            elif copula == "clayton":
                res.broke("oracle copulastrip", f"Clayton margin {k}: no under-dispersion seen (added_cop={added_cop[k]}, added_1d={added_1d[k]}): "
                                                "if /repo repaired F-C04-6 the model tab2_vadj and the finding must be revisited")


def _strip_rerun(r):
    """re-run a recorded F-C04-6 case on the implementation -> (added_cop, added_1d, explained): explained = the gap is the second
    moment of x_k over the strip outside the central cube (exact for tables, quadrature of the copula mass for real margins)"""
    k = int(r["margin"])
    if r.get("source") == "table":
        t, vm_in, added_cop, added_1d = _strip_table_case([tuple(p) for p in r["table"]], r["axis"], r["o"], r["h"], r["sigmas"])
        cube, strip = _table_moments(t, r["h"], k)
        ok = (abs(added_cop[k] - float(cube)) <= 1e-5 + 1e-4 * float(cube) and abs(added_1d[k] - float(strip)) <= 1e-9 and cube < strip)
        return added_cop[k], added_1d[k], ok
    vm_in, added_cop, added_1d, strip = _strip_real_case(r["models"], r["copula"], r["h"])
    gap = added_1d[k] - added_cop[k]
    return added_cop[k], added_1d[k], (strip[k] > 0 and abs(gap - strip[k]) <= 0.01 * added_1d[k] + 1e-6)


def matches_known(v, known):
    """F-C04-6 only.  A violation is the recorded one iff, RE-RUN on the implementation, (1) the copula chain still adds less than
    the 1-d chain of the same margin (same threshold as the oracle) and (2) the deficit is explained by the recorded cause: it equals
    the second moment of x_k over the part of the margin's central cell outside the central cube (exact on tables; independent
    quadrature of LevyCopulaModel.mass within 1 % of the 1-d amount on real margins).  Anything else (e.g. no variance at all,
    a wrong cross term, a gap of another size) is unlisted."""
    if known.get("id") != "F-C04-6":
        return False
    r = v.get("replay", {})
    if r.get("kind") != "copula-variance-strip" or r.get("finding") != "F-C04-6" or "margin" not in r:
        return False
    try:
        key = json.dumps({k_: r[k_] for k_ in sorted(r) if k_ not in ("added_by_copula_chain", "added_by_1d_chain", "strip_outside_cube_by_quadrature")},
                         sort_keys=True, default=str)
        if key not in _STRIP_CACHE:
            _STRIP_CACHE[key] = _strip_rerun(r)
        added_cop, added_1d, explained = _STRIP_CACHE[key]
        return bool(_under_dispersed(added_cop, added_1d) and explained)
    except Exception:  # noqa
        return False


_STRIP_CACHE = {}


def _set_representation(res, rng, viol, groups, n_cases):
    """LevyTriplet.set_representation driven directly: every (declared representation, target) pair, both variation flags, one call
    and two calls in a row on the same triplet, on truncated dyadic step measures -- (triplet.a, triplet.representation.value)
    compared exactly with the py2coq-generated dispatch (Gen/GenC04SetRep.v); a call that raises = None.
    Oracle on the implementation alone: the triplet ends in the target representation, the first cumulant (independent Fraction
    arithmetic on the measure) is unchanged, and t1 -> t2 gives the drift of a direct t2 on a fresh triplet."""
    from rpylib.model.levymodel.levymodel import LevyRepresentation, LevyTriplet, TruncatedLevyMeasure
    from stepmeasure import random_step_measure, InexactFloat
    names = {1: "ZERO", 2: "CENTER", 3: "ONEONE", 4: "TILDE"}
    ZERO_IV = "the ZERO representation requires jumps of finite variation"

    def call(triplet, t):
        """-> None if the call raises one of the two documented errors, else (a, representation value)"""
        try:
            triplet.set_representation(LevyRepresentation(t) if t in names else t)
        except ValueError as e:
            if ZERO_IV not in str(e):
                raise
            return None
        except KeyError:
            if t in names:
                raise
            return None
        rv = triplet.representation
        return float(triplet.a), (rv.value if isinstance(rv, LevyRepresentation) else int(rv))

    one, two = [], []
    combos = [(rep, t1, fv) for rep in (1, 2, 3, 4) for t1 in (1, 2, 3, 4) for fv in (True, False)]
    for it in range(n_cases):
        rep, t1, fv = combos[it % len(combos)] if it < 2 * len(combos) else (rng.randrange(1, 5), rng.randrange(1, 5), rng.random() < 0.5)
        t2 = rng.randrange(1, 5) if rng.random() < 0.5 else None
        if it % 37 == 36:
            t1 = rng.choice([0, 5, 7])                       # not a member: _drift_mapping[...] raises KeyError
        left, right = -Fr(rng.randrange(1, 25), 8), Fr(rng.randrange(1, 25), 8)      # truncations on both sides of +-1
        nu = random_step_measure(rng, left - Fr(rng.randrange(0, 9), 4), right + Fr(rng.randrange(0, 9), 4), bits=2, cover=True, max_pieces=5)
        nu.finite_variation = fv
        a = Fr(rng.randrange(-16, 17), 8)
        # the error value of the generated conversions is a VALUE that arithmetic does not propagate (center_drift on a mis-declared
        # ZERO triplet of infinite variation = err + tails); the observation wrapper step_set_representation makes it absorbing with
        # the explicit guard setrep_call_raises, and these calls ARE driven (expected: the call raises = None)   [wave 8, audit B5]
        if not fv and rep == 1 and t1 == 2:
            res.bump("setrep", "CENTER from ZERO/infinite variation (raises; error made absorbing by the wrapper's guard)")
        ctx = dict(kind="setrep", breaks=[str(b) for b in nu.breaks], dens=[str(d) for d in nu.dens], fv=fv, l=float(left), r=float(right),
                   a=float(a), rep=rep, t1=t1, t2=t2)
        try:
            def fresh():
                return LevyTriplet(sigma=0.25, nu=TruncatedLevyMeasure(nu, (float(left), float(right))), a=float(a), representation=LevyRepresentation(rep))
            tr = fresh()
            o1 = call(tr, t1)
            o2 = call(tr, t2) if (o1 is not None and t2 is not None) else None
            direct = call(fresh(), t2) if t2 is not None else None
        except InexactFloat:
            res.bump("setrep", "skipped: inexact float")
            continue
        except Exception as e:  # noqa
            viol(f"LevyTriplet.set_representation raises {type(e).__name__}", reason=str(e)[:200], **ctx)
            continue
        res.count(("setrep", it, rep, t1, t2, fv, str(nu.pieces()), str(left), str(right), str(a)), kind=f"set_representation {'x2' if t2 else 'x1'}")
        res.bump("setrep_pair", f"{names[rep]}->{names.get(t1, 'non-member')}{'->' + names[t2] if t2 else ''}/{'fv' if fv else 'iv'}")
        res.bump("setrep_outcome", "raises" if o1 is None else "converted" if t1 != rep else "no-op")
        # ---- oracle: implementation outputs + Fraction arithmetic on the measure
        must_raise = (t1 not in names) or (t1 == 1 and rep != 1 and not fv) or (rep == 1 and not fv and t1 != 1)
        if must_raise != (o1 is None):
            viol("set_representation: a conversion that involves the ZERO representation with jumps of infinite variation (or an unknown "
                 "representation) must raise, every other one must not", raised=o1 is None, **ctx)
        if o1 is not None:
            if o1[1] != t1:
                viol("set_representation leaves the triplet in a representation other than the target", got=o1[1], **ctx)
            want = mean_rate_q(nu, left, right, names[rep], fv, a)
            got = mean_rate_q(nu, left, right, names[t1], fv, Fr(o1[0]))
            if got != want:
                viol("set_representation changes the first cumulant of the truncated process", got=float(got), want=float(want), **ctx)
        if o2 is not None and direct is not None and (Fr(o2[0]) != Fr(direct[0]) or o2[1] != direct[1]):
            viol("set_representation is route dependent: rep -> t1 -> t2 differs from rep -> t2", got=list(o2), want=list(direct), **ctx)
        if o1 is not None and t2 is not None and (o2 is None) != (direct is None):
            viol("set_representation is route dependent: rep -> t1 -> t2 raises and rep -> t2 does not (or the other way round)", **ctx)

        def olit(o):
            return "None" if o is None else f"(Some ({qlit(o[0])}, {zlit(o[1])}))"
        head = f"{nu.coq()}, {qlit(left)}, {qlit(right)}"
        if t2 is None:
            one.append(f"({head}, {zlit(t1)}, {zlit(rep)}, {blit(fv)}, {qlit(a)}, {olit(o1)})")
        else:
            two.append(f"({head}, {zlit(t1)}, {zlit(t2)}, {zlit(rep)}, {blit(fv)}, {qlit(a)}, {olit(o2)})")
    eqb = "(option_eqb (fun x y => Qeq_bool (fst x) (fst y) && Z.eqb (snd x) (snd y)))"
    groups.append(("setrep1", "list (Q * Q * Q) * Q * Q * Z * Z * bool * Q * option (Q * Z)",
                   f"fun c => match c with (ps, l, r, t, rep, fv, a, e) => {eqb} (step_set_representation ps l r t rep fv a) e end", one))
    groups.append(("setrep2", "list (Q * Q * Q) * Q * Q * Z * Z * Z * bool * Q * option (Q * Z)",
                   f"fun c => match c with (ps, l, r, t1, t2, rep, fv, a, e) => {eqb} (step_set_representation2 ps l r t1 t2 rep fv a) e end", two))


def search(res):
    rng = random.Random(res.seed + 11)

    def viol(what, **kw):
        res.violation(what, dict(kw))
    _real_stream(res, rng, viol, 2)


def replay(path):
    data = json.load(open(path))
    print(json.dumps(data, indent=1)[:3000])
    from rpylib.distribution.samplingfactory import create_q_vector
    from stepmeasure import build_model, make_grid
    k = data.get("kind")
    if k == "margin":
        out = []
        _copula_margins(type("R", (), {"count": lambda *a, **kw: None})(), random.Random(0), lambda what, **kw: out.append((what, kw.get("got"), kw.get("want"))))
        print("still fails:" if out else "no failure on replay", out)
        return 1 if out else 0
    if k == "copula-variance-strip":
        added_cop, added_1d, explained = _strip_rerun(data)
        print("variance added to margin", data["margin"], "by the copula chain:", added_cop, " by its 1-d chain:", added_1d,
              " deficit = second moment of the strip outside the central cube:", explained)
        bad = _under_dispersed(added_cop, added_1d)
        print("still fails" if bad else "no failure on replay")
        return 1 if bad else 0
    if k == "copula-variance-bg1":
        from rpylib.grid.spatial import CTMCUniformGrid
        from rpylib.process.markovchain.markovchainlevycopula import MarkovChainLevyCopula
        from rpylib.distribution.sampling import SamplingMethod
        from stepmeasure import build_copula_model
        with warnings.catch_warnings():
            warnings.simplefilter("ignore")
            model = build_copula_model(data["models"], data.get("copula", "clayton"))
            p = MarkovChainLevyCopula(levy_copula_model=model, grid=CTMCUniformGrid(h=data["h"], model=model), method=SamplingMethod.INVERSION)
            p.initialisation(_product())
            dmat = np.real(np.array(p._path_simulation.diffusion_matrix, dtype=complex))
            kk = data["margin"]
            m1 = build_model(data["models"][kk])
            p1 = build_process(m1, CTMCUniformGrid(h=data["h"], model=m1))
        added_cop = float((dmat @ dmat.T)[kk][kk]) - float(m1.diffusion_coefficient()) ** 2
        added_1d = float(p1.equivalent_diffusion_coefficient) ** 2 - float(m1.diffusion_coefficient()) ** 2
        print("variance added to margin", kk, "by the copula chain:", added_cop, " by its 1-d chain:", added_1d)
        bad = added_1d > 1e-6 and added_cop < 0.25 * added_1d
        print("still fails" if bad else "no failure on replay")
        return 1 if bad else 0
    if k not in ("step", "real"):
        print("replay: re-run ./check C04")
        return 1
    model = build_model(data["model"], exponential=data.get("exponential", False), **({"spot": 100.0, "r": 0.03125, "d": 0.015625} if k == "step" else {}))
    grid = make_grid([Fr(x) for x in data["axis"]], data["o"], Fr(data["h"]))
    with warnings.catch_warnings():
        warnings.simplefilter("ignore")
        p = build_process(model, grid)
        q = create_q_vector(p.model.levy_triplet.nu, grid)
    got = float(p.process_drift()) + float(np.dot(grid.axes[0], q))
    l, r = (float(t) for t in grid.truncations[0])
    if k == "step":
        spec = data["model"]
        nu = build_model(spec).levy_triplet.nu
        want = float(Fr(float(p.model.drift())) + mean_rate_q(nu, Fr(l), Fr(r), spec["representation"], spec["fv"], Fr(spec["a"])))
    else:
        want = float(p.model.drift()) + real_mean_rate(model, l, r)
    print("process_drift + sum x_k q_k =", got, " mean of the truncated process =", want)
    bad = abs(got - want) > 1e-7 * (1 + abs(want))
    print("still fails" if bad else "no failure on replay")
    return 1 if bad else 0

"""C05 -- multilevel estimator = sum of per-level means over exactly the simulated samples.
Correspondence: the REAL Engine.price / price_with_constant_mc_paths_and_level are driven by a scripted
coupling process (every sample uniquely tagged, dyadic) and a scripted ConvergenceCriteria; the same
history (oracle tables) is replayed by Model/Mlmc.v under vm_compute and every stored row, N_l, price()
and all mlmc_results fields are compared.  Oracle: the C05 predicates evaluated on the numpy arrays."""
import json
import random
from fractions import Fraction

from common import zlit, qlit, lst, natlit, coq_bad_indices, parallel_coq_bad, CoqError
import mlmcdrive as D
import c05_vec as V
import c05_fault as F

PROP = "C05"
PROPERTY_FILE = "Properties/C05.v"
GEN_DEPS = []
RULE = ("histories of the adaptive loop generated from the seed: initial level 0-3, maximum level up to +4, initial sample "
        "size 0 / 1-8 / 100-200 (1% rule), per pass and level the allocation answer is below / equal / +1 / +1..6 of the "
        "current count (0-7 for a freshly added level), bias test answers Bernoulli(0, .2, .4, .8), 1-12 answered passes, "
        "GENUINE vector payoffs of dimension 1-3 (component j = (j+1) x + j/4, every component of every row checked), df and "
        "notional dyadic, rates given or (15%) regressed by the engine; every path manager carries a deterministic path tagged "
        "with (pricing, level); plus the fixed-level variant over all (L0, Lmax, N) in a small box; plus sequences of 2-3 pricings "
        "on ONE Engine instance (a third of them going to higher levels than the first pricing); plus runs with 1-2 control "
        "variates, one held short (implementation oracle); plus vector payoffs (d = 2-3) WITH 1-2 controls; plus FAULT INJECTION: the first 70 "
        "(thorough 400) histories are re-run with a coupling process whose simulate call raises KeyboardInterrupt (2/3) or an ordinary exception "
        "(1/3) at up to 3 points (pass, level, iteration): one uniform, one in a later pass at a level below a level that still has paths to "
        "simulate, one in the first pass; then either the exception propagates (nothing reported; exposed arrays replayed by the Coq abort model; "
        "a further pricing on the same engine must be clean) or what is returned must satisfy C05. non-trivial = at least two passes or one added level (adaptive), a "
        "further pricing on a used engine, at least one level above 0 with N >= 1 (fixed)")
MODELLED = ["wave 7, Model/MlmcVec.v gloop_f: an exception raised by simulation_path() at (pass, level, iteration) -- Engine.price has no handler, the "
            "exception propagates (outcome ARaised, nothing returned) and the exposed state is the half-finished pass; tied by ~180 fault runs of the "
            "REAL engine (scripted coupling process raising KeyboardInterrupt / RuntimeError subclass): the exception must reach the caller and the arrays "
            "engine.statistics still holds + the number of paths each level's process simulated equal the model's aborted state row by row (all payoff "
            "components; first pass: only the written rows, np.empty behind); if Engine.price RETURNS instead, the correspondence breaks and the returned "
            "results go through the full C05 oracle (rollback of the interrupted level's incomplete pass is the only latitude)",
            "wave 7: vector payoffs WITH controls (product.py compute_coefficients_mlmc, per-component b_star and prices) driven by the replay: 12 (thorough "
            "100) runs, d = 2-3, controls with vector payoffs, prices as scalars / per-component arrays; with_cv rows of every component vs Model/MlmcVec.v "
            "(1e-6) and vs the exact Fraction regression",
            "wave 5, Model/MlmcVec.v (generic engine over the stored row type, linked to Model/Mlmc.v by the simulation theorem "
            "C05_vec_component_is_scalar_run): MLMCPath.process/process_l0/discount for ALL payoff components, ControlVariates.process(_mlmc) "
            "rows, MCStatistics.add/extend of the payoff, control and with_cv arrays, compute_coefficients_mlmc after every pass (with_cv rows = "
            "Y - b (X - price) per component and side; b = ANY rule in the theorems, McStats.b_star1/b_star2 of C07 in the replay), price() and "
            "ml/vl/cl/mean/var from the adjusted rows; tied by vm_compute replay: ~70 vector histories + 80 fixed-level runs (every component of "
            "every row exact), ~35 control-variate runs (raw and control rows exact, adjusted rows 1e-6, price and statistics 1e-5; kurtosis of "
            "the adjusted rows by the Fraction oracle only)",
            "multi-process branch of compute_level_l (map_async callback: statistics.add(current + it, ...)): modelled as the same engine whose "
            "n-th stored row of a level is the row of draw sigma(level, n) for an ARBITRARY assignment sigma; tied (wave 8) by 3 (thorough 6) small REAL "
            "pool runs with 3-4 workers of unequal speed, every pass longer than the pool's chunk size: sigma is read from an INDEPENDENT tag channel "
            "of the pickled path (jump component at two intermediate times = draw index and worker pid, logged by the payoff underlying when the "
            "callback evaluates it in the parent; the payoff reads the last time only), never from the stored rows, and is replayed row by row under "
            "vm_compute; the check breaks when every replayed sigma is the identity (quick run: 7 of 7 levels non-trivial, 11-30 displaced indices); "
            "plus the 3-4 large 2-worker runs (up to 12 500 paths in one pass) checked as multisets by the implementation oracle. Until wave 7 sigma "
            "was obtained by inverting the sample function on the stored fine row (the component then compared) and was the identity in every run",
            "REAL fixed-date coupling process through the pool (wave 8): one fixed-level run of CouplingMarkovChain/HEM, 64 paths, 2 workers (and its "
            "1-process control): N_l, row counts, coarse = 0 at level 0, price() = sum of means of the stored rows are checked; the stored rows are NOT "
            "64 distinct samples (13-27 distinct per level) -- recorded as explained by F-C08-3 (known finding of C08: every chunk pops the parent's "
            "pre-drawn rows again), not a C05 violation: the hypothesis 'sigma permutes' of C05_mp_rows_permutation is false for such a process",
            "Engine.price / compute_level_l (single process) / price_with_constant_mc_paths_and_level, MLMCStatistics, "
            "MLMCResults, Statistic.add/extend, MLMCPath.process(_l0)/discount (payoff component 0), the per-engine list of path "
            "managers across pricings: hand model Model/Mlmc.v + Model/McStats.v, tied by vm_compute correspondence on every history",
            "numpy: np.pad zero padding, np.empty (arbitrary content), np.mean, scipy.stats.moment (central moments)",
            "spot statistics, logging: not modelled; the log2 regression of the rates only feeds the arguments of the criteria callbacks "
            "(arbitrary oracles in the model) and is exercised in 15% of the histories",
            "control variates: np.linalg.lstsq on the correlation scale is modelled by the closed-form solution for 1 and 2 controls (C07's "
            "b_star1/b_star2); 3+ controls, singular or ill-conditioned Sigma_X (|det| < 1e-3 of the diagonal product) are not replayed (counted; the "
            "check breaks when fewer than half of the runs are replayed); vector payoffs WITH controls (per-component prices, product.py:296) are "
            "driven since wave 7 (first item)",
            "the pool's chunking of range(extra_mc_paths) and the completion order inside map_async: map_async hands the callback ONE list ordered "
            "by iteration index (so they only show in sigma); the callback itself is Model/MlmcVec.v merge, proved (wave 7) to equal the single-process "
            "loop for ANY order / chunking of the (iteration, row) pairs covering each index once",
            "where N_l = 0 numpy reports nan; the model's totalised value 0 is never compared there, the oracle asserts nan",
            "mlmc kurtosis: the code's raw-moment formula cancels catastrophically for |dp| >> std(dp) (3.32 reported vs 1.63 exact on "
            "the same rows at |dp| ~ 7500); compared with a tolerance scaled by E[dp^4]"]
ASSUMPTIONS = ["compute_mc_paths answers an integer array with one entry per level (numpy raises otherwise; the model reads a missing entry as 0)",
               "sample counts stay below 2^40 so that the float test dNl > 0.01*Nl equals 100*dNl > Nl",
               "multi-process theorem: the permutation clause assumes every draw of a level is handed to exactly one iteration index (sigma l permutes "
               "0..N_l-1). This is discharged ONLY on the harness' scripted process, whose draw index comes from a shared-memory counter (it cannot "
               "fail there except through the pool / callback code); for a REAL fixed-date process it is FALSE (F-C08-3, known finding of C08: the "
               "chunks of map_async share the parent's pre-drawn Brownian / Poisson rows; 64 paths on 2 workers store 13-27 distinct rows) -- the check "
               "runs that case and records it as explained by F-C08-3; real jump-time processes are not driven through the pool by C05 (C08 does)",
               "next_level appends the path manager of each new level in increasing level order (tied by the sequence correspondence)"]
THEOREM_NOTES = {
    "C05_rows_are_samples": "invariant of the loop, all oracles; the model follows the repaired tree (d6e63ca: Nl appended as 0)",
    "C05_results_from_same_rows": "every clause guarded by 0 < N_l (numpy reports nan where N_l = 0); the content is that the code's central-moment "
                                  "detour equals the raw moments; cl is in C05_cost_from_passes",
    "C05_cost_from_passes": "ghost list of (one_simulation_cost, dNl) per pass: sum_cost = sum cost*dNl, N_l = sum dNl, cl = their quotient",
    "vector payoffs, statistics": "F-C05-5 recorded: price(), ml, vl, ... read payoff component 0 only; every history with d > 1 reports it, "
                                  "matches_known requires the reported price to be exactly the component-0 estimator",
    "C05_engine_reuse": "managers are appended per level (managers_at) and looked up with nth_error (never None: manager_used_some; later appends do not "
                        "change the lookup: lookup_stable); with reset = true the previous list is discarded -- that IS the repair; repaired tree (fix-mc3 2ee0788: path-manager list restarts at every initialisation); state = list of manager tags; the "
                        "pre-repair behaviour (stale manager of the first pricing) is the Example C05_stale_manager_before_repair",
    "C05_fixed_level_variant": "guard initial_level <= maximum_level (otherwise MLMCStatistics.extend raises IndexError: model returns None)",
    "vector payoffs": "F-C05-3 repaired (fix-mc3 440d935: fine/coarse stacked along the last axis); theorems are about payoff component 0, "
                      "which is all price() and mlmc_results read",
    "C05_vec_rows_are_samples": "generic engine (any stored row type): invariant proved once (Proofs/C05_Vec.v gloop_rows_are_samples), here instantiated "
                                "with rows = (all payoff components, all control rows); with_cv = derive of exactly the simulated rows",
    "C05_cv_rows_textbook": "(audit 5a: clause 1, entries = cv_adj, is definitional -- adj_c and cv_adj are the same expression; clause 2, means = textbook "
                            "estimator over exactly the N_l rows, is the content; gcv = derive rows holds by construction of grun_level) for every regression rule bst; entries are Model/McStats.v cv_adj (C07) and the means are C07's cv_mean_full over exactly the "
                            "N_l simulated rows; that the level-0 coarse side stays 0 needs b = 0 there (true for the code's degenerate test, checked by the replay, not a theorem)",
    "C05_vec_component_is_scalar_run": "SIMULATION = parametricity of the engine in the row type (it never inspects a row; holds for ANY projection pr with "
                                       "pr(rowof l n) = mk_row (smp l n), pr zero = zero, including the one that forgets the row) + the concrete fact pr_j j "
                                       "(srow_of l n) = mk_row (pay_j sample) for j < d. Both sides get the SAME alloc / conv answers, which the code computes "
                                       "from component 0 (F-C05-5): component j of the stored rows is what the scalar model stores under those answers; it is "
                                       "NOT a pricing of pay_j (other N_l, no rmse guarantee for j >= 1) and reads the RAW rows (with controls price() reads the "
                                       "with_cv rows). Use: transports the row / count / cost / statistics theorems to every component",
    "C05_vec_component_price": "transported corollary (C05_price_is_sum_of_means through the simulation); raw rows only",
    "C05_vec_reported_results_no_controls": "wave 8: ties the definitions the correspondence EVALUATES (lev_of, proj_lev, gprice) to the theorems: clause 1 "
                                            "(lev_of 0 j = proj_lev j) and clause 3 (gprice = mlmc_price of lev_of .. 0, any nc in the lemma) are bookkeeping "
                                            "(map fusion); clause 2 is C05_results_from_same_rows transported through the simulation to component j. With "
                                            "controls (nc > 0) the reported records are those of the with_cv rows: only C05_cv_rows_textbook speaks about them; "
                                            "vl / var / kurtosis of the adjusted rows have no theorem (replayed at 1e-5, kurtosis by the Fraction oracle)",
    "C05_mp_rows_permutation": "REPACKAGING + CONDITIONAL (audit 5a B8): the unconditional part is the single-process invariant on the sampler renamed through "
                               "sigma (mp_rowof is that renaming by definition; sigma = const 0 is an instance); the permutation conclusion has the hypothesis "
                               "that sigma l permutes 0..N_l-1 (non-vacuous: Example C05_mp_nonvacuous), discharged only on the scripted shared-counter process "
                               "and FALSE for real fixed-date processes (F-C08-3, see ASSUMPTIONS). That the callback writing an arbitrarily chunked / ordered "
                               "list of (it, path) pairs IS that engine is C05_callback_merge / _chunks / _is_single_process_loop (wave 7; merge and lookup "
                               "are used there)",
    "C05_abort_exposed_state": "generic engine, ALL fault points (fp, fl, fi) and oracles: AReturn o -> o is the uninterrupted run (fault point never reached: "
                               "pass fp does not exist, or dNl[fl] <= fi there); ARaised e -> levels < fl glev_done, level fl holds N_l + fi simulated rows then "
                               "dNl - fi placeholders with N_l not incremented, levels > fl glev_head (placeholders), and on every level the first N_l rows are "
                               "the N_l samples. That NOTHING is returned on a raise is how the code is modelled (no handler in Engine.price); it is tied by the "
                               "fault runs (a returning engine breaks the correspondence). Only the single-process Engine.price is fault-driven; the fixed-level "
                               "variant and the multi-process branch are not",
    "C05_callback_merge": "hypothesis: the iteration indices of res are a permutation of 0..k-1 (what map_async guarantees); lookup takes the first pair with the "
                          "index; merge_nth (Proofs/C05_Fault.v) gives the pointwise statement under NoDup only",
    "C05_results_permutation_invariant": "price contribution, ml, vl, mean, var, kurtosis, cl of a level are invariant under any permutation of its rows -- over Q; "
                                         "in floats np.mean / scipy moments depend on the row order (the large pool runs compare price() at 1e-9)",
    "mc_stddev": "MLMCStatistics.mc_stddev is sum_l sigma_l/sqrt(N_l) in the code (not sqrt(sum sigma_l^2/N_l)); outside the property text, the oracle follows the code",
}
LEVEL_TEXT = ("Proof: 18 Coq theorems (closed under the global context). Six about an executable state-machine model of the multilevel "
              "engine, for all sample/cost/allocation/convergence oracles, all initial levels, sample sizes, maximum levels and "
              "fuels: at every return each level holds exactly its N_l simulated samples in order (no placeholder, none dropped, "
              "duplicated or overwritten; N_l = number of simulated paths), price() is the sum of the per-level means of fine-coarse "
              "with coarse = 0 at level 0, ml/vl/mean/var/kurtosis are the textbook functions of those rows where N_l > 0, sum_cost and "
              "N_l are the sums over the passes, a re-used engine gives every pricing its own samples through its own path managers, "
              "and the same for the fixed-level variant. The model is tied to /repo by replaying ~300 histories and ~45 multi-pricing "
              "sequences of the real Engine.price under vm_compute (rows exact, statistics to 1e-9). Seven (wave 5) about a generic engine "
              "storing all payoff components and all control rows: the same invariant for every component and control; the with_cv rows are "
              "Y - b (X - price) of exactly the simulated rows for every regression rule and their means are the textbook control-variate "
              "estimators; simulation theorem (parametricity in the row type): under the SAME allocation / convergence answers -- which the code "
              "computes from component 0 -- component j of the stored raw rows is what the scalar model stores for payoff pay_j, so the row / count / "
              "cost / statistics theorems transport to every component (not a pricing of pay_j); the fixed-level variant; for the multi-process "
              "branch the rows are those of the draws the pool assigned (any assignment; a repackaging of the invariant) and, CONDITIONALLY on each "
              "draw being assigned once, a permutation of the simulated samples -- a hypothesis discharged only on the scripted shared-counter "
              "process and false for real fixed-date processes (F-C08-3: 64 paths, 2 workers, 13-27 distinct rows; run and recorded, not a C05 "
              "violation); every reported statistic is permutation-invariant over Q. Tied by ~70 vector, 80 fixed, ~35 control-variate replays and 3 "
              "real pool runs with 3-4 workers whose sigma (read from an independent tag channel of the path, non-identity enforced) is replayed "
              "row by row. Wave 8: without controls the records price() / mlmc_results read are the projections of the stored rows and satisfy the "
              "textbook clauses per component. Partial: price() reads component 0 only (F-C05-5); 3+ controls not driven; with controls only the "
              "means of the adjusted rows have a theorem. Wave 7: an exception raised by a simulation at ANY (pass, level, iteration) "
              "either is never reached (the run is the uninterrupted one) or leaves Engine.price with nothing returned, the exposed state being exactly the "
              "half-finished pass (first N_l rows = the N_l samples on every level, placeholders behind on the interrupted and later levels) -- tied by ~180 "
              "fault-injection runs of the real engine (KeyboardInterrupt and ordinary exceptions; a returning engine must satisfy C05); the pool callback "
              "(merge) equals the single-process loop for any order / chunking of the (iteration, row) pairs; vector payoffs with controls are replayed.")
LEVEL_NOTE = ("Trusted: Coq kernel + vm_compute; the hand-written model Model/Mlmc.v (tied by correspondence, not by translation); "
              "numpy pad/empty/mean and scipy.stats.moment semantics; nb_of_processes = 1.")
TECHNIQUE = "Coq proof (loop invariant by induction on fuel, list lemmas, Q field identities) + vm_compute correspondence with a scripted coupling process"

MODES = ["small"] * 6 + ["pct"] * 2 + ["zero"] + ["small"]
HEADER = ("From Coq Require Import ZArith QArith List Bool.\nFrom RV Require Import Base.QB Model.McStats Model.Mlmc.\n"
          "Open Scope Q_scope.\nDefinition tol : Q := 1 # 1000000000.\n")


def _violations(res, spec, obs, viols):
    for what, det in viols:
        res.violation(what, D.replay_payload(spec, obs, **det))


def correspond(res):
    rng = random.Random(res.seed)
    n_hist = 260 if res.tier == "quick" else 1800
    cases = []
    vcases = []
    fault_specs = []
    n_fault = 70 if res.tier == "quick" else 400
    for i in range(n_hist):
        mode = MODES[i % len(MODES)]
        spec = D.gen_spec(rng, mode)
        if mode == "pct" and (i % 30 not in (6, 7) if res.tier == "quick" else i % 10 == 7):
            spec["mode"] = mode = "small"
            spec["N0"] = 3
        obs = D.run_engine(spec)
        if obs["raised"]:
            if spec["dim"] > 1 and obs["raised"].startswith("ValueError"):
                res.violation("the multilevel engine cannot price a vector payoff: Engine.price raises",
                              D.replay_payload(spec, obs, finding="F-C05-3", raised=obs["raised"]))
            else:
                res.broke("correspondence driver", f"Engine.price raised {obs['raised']} on {spec}")
            continue
        added = len(obs["Nl"]) - (spec["L0"] + 1)
        passes = len(obs["atab"]) - added
        res.count(("adaptive", json.dumps(spec, sort_keys=True)), nontrivial=(passes >= 2 or added >= 1), kind=f"adaptive/{mode}")
        res.bump("added_levels", added)
        res.bump("passes", min(passes, 9))
        res.bump("outcome", "fallthrough" if obs["fallthrough"] else "returned from the convergence branch")
        res.bump("payoff_dim (genuine vector payoff, every component checked)", spec["dim"])
        res.bump("convergence_rates", "regressed by the engine" if spec.get("regress") else "given")
        res.bump("N0_class", "0" if spec["N0"] == 0 else ("<=8" if spec["N0"] <= 8 else ">=100"))
        _violations(res, spec, obs, D.check_c05(spec, obs))
        tag = 1 if obs["fallthrough"] else 0
        cases.append(f"(run_tab 0 {D.coq_inputs(spec, obs)}, {zlit(tag)}, {D.coq_expected_rows(obs)}, {D.coq_expected_results(obs)})")
        if i < n_fault:
            fault_specs.append((spec, obs))
        if ((spec["dim"] > 1 and i % 3 != 2) or i % 8 == 0) and len(vcases) < 300:        # Model/MlmcVec.v: EVERY payoff component of every stored row
            vcases.append(V.vector_case(spec, obs))
            res.bump("vector_model_replays_by_payoff_dim", spec["dim"])

    chk = ("fun c => match c with (o, tag, er, ex) => Z.eqb (out_tag o) tag && corr_rows (out_levels o) er && "
           "corr_results tol (out_levels o) ex end")
    ty = "outcome state * Z * (list Z * list Z * list (list row)) * (Q * Q * list (list Q))"
    _submit(res, "adaptive", HEADER, ty, chk, cases, 24 if res.tier == "quick" else 60,
            "model and implementation differ on {n} histories")

    _coq_group(res, "vector", V.VEC_TY, V.VEC_CHK, vcases, 8 if res.tier == "quick" else 40,
               "vector-payoff model (Model/MlmcVec.v) and implementation differ on {n} histories (all payoff components compared)")
    _fault_injection(res, rng, fault_specs)
    _fixed_variant(res, rng)
    _engine_reuse(res, rng)
    _real_coupling(res)
    _join(res)                  # no replay thread may be alive while _multiprocess forks the engine's worker pool
    _multiprocess(res, rng)
    _control_variates(res, rng)
    _control_variates_vector(res, rng)
    _join(res)


# The Coq replay groups are independent of each other and of the Python driving: each group is handed to a worker thread as soon
# as its cases exist (the coqc processes of all groups run while the next group's histories are still being driven); the
# results are collected, in submission order, by _join at the end of correspond.
_PENDING = []


def _submit(res, name, header, ty, chk, cases, shard, msg):
    from concurrent.futures import ThreadPoolExecutor
    if not cases:
        res.broke(f"correspondence {name}", "the group has no case: nothing would be compared")
        return
    ex = ThreadPoolExecutor(max_workers=1)
    fut = ex.submit(parallel_coq_bad, PROP, name, header, ty, chk, cases, shard=shard, timeout=900, jobs=8)
    ex.shutdown(wait=False)
    _PENDING.append((name, fut, cases, msg))


def _join(res):
    pending, _PENDING[:] = list(_PENDING), []
    errors = []
    for name, fut, cases, msg in pending:
        try:
            bad, nshards = fut.result()
        except Exception as ex:               # noqa: every group is collected before the first error is re-raised
            errors.append(ex)
            continue
        res.case_lemmas += nshards
        if bad:
            res.broke(f"correspondence {name}", msg.format(n=len(bad)) + f", first: case {bad[0]}: {cases[bad[0]][:1500]}")
        else:
            res.case_ok += nshards
    if errors:
        raise errors[0]


def _coq_group(res, name, ty, chk, cases, shard, msg):
    _submit(res, name, V.HEADER, ty, chk, cases, shard, msg)


def _fault_injection(res, rng, pairs):
    """every history of `pairs` (spec, observation of the uninterrupted run) is re-run on a fresh REAL engine with a coupling
    process that raises KeyboardInterrupt / an ordinary exception at a chosen (pass, level, iteration).  If the exception
    reaches the caller nothing is reported (then the arrays the engine object exposes are compared with the aborted state of
    Model/MlmcVec.v gloop_f and a further pricing on the same engine must be clean); if the engine returns results they must
    satisfy the C05 statement like any other run."""
    fcases = []
    returned = []
    n_runs = 0
    for spec, base in pairs:
        passes = F.passes_of(base)
        for p, l, i in F.choose_faults(rng, passes):
            start = passes[p][l][0]
            kind = rng.choice(["KeyboardInterrupt", "KeyboardInterrupt", "Injected"])
            fault = (l, start + i, kind)
            payload = dict({k: v for k, v in spec.items() if k != "epoch"}, kind="fault", atab=base["atab"], vtab=base["vtab"],
                           fault={"pass": p, "level": l, "iteration": i, "draw": start + i, "raises": kind})
            obs = F.run_faulty(dict(spec, epoch=0), base["atab"], base["vtab"], fault)
            n_runs += 1
            res.count(("fault", json.dumps(payload, sort_keys=True)), nontrivial=True, kind=f"exception injected ({kind})")
            res.bump("fault_point", F.classify(passes, (p, l, i)))
            if not obs["propagated"]:
                res.bump("fault_outcome", "the engine returned results")
                if obs["raised"]:
                    res.broke("correspondence driver", f"fault run raised {obs['raised']}")
                    continue
                for what, det in F.check_returned(spec, obs, fault, start):
                    if det.get("finding") == "F-C05-5":
                        continue                 # reported once by the uninterrupted run of the same history
                    res.violation(what, dict(payload, **det, observed={"Nl": obs["Nl"], "paths_simulated": obs["draws"],
                                                                      "rows_stored": [len(f) for f in obs["fine"]], "price": obs["price"]}))
                    break                        # one replay per fault run (the first clause that fails)
                returned.append(payload["fault"])
                continue
            res.bump("fault_outcome", "the exception propagated: nothing reported")
            o2 = obs.get("again")
            if o2 is not None:
                if o2["raised"]:
                    res.broke("correspondence driver", f"pricing after a propagated exception raised {o2['raised']}")
                else:
                    sp2 = dict(spec, epoch=1)
                    for what, det in D.check_c05(sp2, o2):
                        if det.get("finding") == "F-C05-5":
                            continue
                        res.violation("pricing on an engine whose previous pricing was aborted by an exception: " + what,
                                      dict(payload, **det, second_pricing=True))
            if len(fcases) < 400:
                fcases.append(F.fault_case(dict(spec, epoch=0), obs, base, (p, l, i)))
    res.bump("fault_runs", n_runs)
    if returned:
        res.broke("correspondence fault", f"Engine.price RETURNED in {len(returned)} of {n_runs} runs in which a simulation raised: Model/MlmcVec.v gloop_f "
                  f"(no handler, the exception propagates, nothing is returned) no longer follows the code; first: {returned[0]}")
    if n_runs < len(pairs):
        res.broke("fault injection coverage", f"only {n_runs} fault runs for {len(pairs)} histories")
    _coq_group(res, "fault", F.FAULT_TY, F.FAULT_CHK, fcases, 30 if res.tier == "quick" else 60,
               "aborted-pass model (Model/MlmcVec.v gloop_f) and the arrays the engine exposes after a propagated exception differ on {n} runs")


def _engine_reuse(res, rng):
    """sequences of 2-3 pricings on ONE Engine instance (other levels / sample sizes / product / oracles each time)"""
    n_seq = 45 if res.tier == "quick" else 400
    cases = []
    for i in range(n_seq):
        specs = [D.gen_spec(rng, "small") for _ in range(rng.choice([2, 2, 3]))]
        if i % 3 == 0:                      # the auditor's shape: the later pricing goes to higher levels than the first
            specs[0]["L0"], specs[0]["Lmax"] = 1, 1
            specs[1]["L0"], specs[1]["Lmax"] = rng.choice([1, 2]), 3
            for sp in specs:
                sp["ctab"] = sp["ctab"] + [1.0] * 8
        observations = D.run_engine_seq(specs)
        ok = True
        for k, (spec, obs) in enumerate(zip(specs, observations)):
            if obs["raised"]:
                res.broke("correspondence driver", f"pricing {k} of a sequence on one engine raised {obs['raised']}")
                ok = False
                break
            res.count(("reuse", k, json.dumps(specs[:k + 1], sort_keys=True, default=str)), nontrivial=k >= 1, kind=f"engine re-used, pricing #{k}")
            res.bump("reuse_levels_vs_previous", "first" if k == 0 else ("more levels" if len(obs["Nl"]) > len(observations[k - 1]["Nl"]) else "same or fewer levels"))
            for what, det in D.check_c05(spec, obs):
                pl = D.replay_payload(spec, obs, **det)
                pl.update({"kind": "sequence", "index": k,
                           "sequence": [dict({kk: vv for kk, vv in sp.items()}, atab=ob.get("atab"), vtab=ob.get("vtab")) for sp, ob in zip(specs[:k + 1], observations)],
                           "note": "pricings 0..index run in order on ONE Engine instance; the violation is in pricing `index`"})
                res.violation(what + (" (engine re-used for a further pricing)" if k else ""), pl)
        if not ok or len(observations) < len(specs):
            continue
        ins = lst([D.coq_pricing(sp, ob) for sp, ob in zip(specs, observations)])
        exs = lst([f"({zlit(1 if ob['fallthrough'] else 0)}, {D.coq_expected_rows(ob)}, {D.coq_expected_results(ob)})" for ob in observations])
        cases.append(f"({ins}, {exs})")
    chk = ("fun c => all2 (fun o e => match e with (tag, er, ex) => Z.eqb (out_tag o) tag && corr_rows (out_levels o) er && "
           "corr_results tol (out_levels o) ex end) (run_seq pm_offs true 0 [] (map tab_pricing (fst c))) (snd c)")
    ty = ("list (list (list (Q * Q)) * list Q * list (list Z) * list bool * (Q * Q) * (nat * nat * nat * nat)) * "
          "list (Z * (list Z * list Z * list (list row)) * (Q * Q * list (list Q)))")
    _submit(res, "reuse", HEADER, ty, chk, cases, 10 if res.tier == "quick" else 40,
            "model and implementation differ on {n} pricing sequences on one engine")


def _real_coupling(res):
    """a REAL coupling process (CouplingMarkovChain on a HEM model: real next_level, real grid refinement, real path managers):
    a second pricing on a re-used engine must store bit for bit the rows a fresh engine stores (same seed), for the
    fixed-level variant and for the adaptive price with scripted criteria"""
    import warnings
    import numpy as np
    from rpylib.model.utils import create_exponential_of_levy_model, ModelType
    from rpylib.grid.spatial import CTMCUniformGrid
    from rpylib.distribution.sampling import SamplingMethod
    from rpylib.montecarlo.configuration import ConfigurationMultiLevel, ConvergenceRates
    from rpylib.montecarlo.multilevel.engine import Engine
    from rpylib.process.coupling.couplingmarkovchain import CouplingMarkovChain
    from rpylib.product.product import Product
    from rpylib.product.payoff import Vanilla, PayoffType
    from rpylib.product.underlying import Spot
    from mcscript import Shared, scripted_criteria

    def mk(L0, Lmax, n, crit=None):
        model = create_exponential_of_levy_model(ModelType.HEM)()
        cp = CouplingMarkovChain(model=model, method=SamplingMethod.BINARYSEARCHTREEADAPTED1D, grid=CTMCUniformGrid(h=0.05, model=model))
        conf = ConfigurationMultiLevel(convergence_rates=ConvergenceRates(1.0, 2.0, 1.0), convergence_criteria=crit, initial_level=L0,
                                       maximum_level=Lmax, initial_mc_paths=n, nb_of_processes=1, seed=5)
        return Engine(conf, cp), conf

    def rows(st):
        return [(np.array(st.simulation_payoff_with_fine_process(l)), np.array(st.simulation_payoff_with_coarse_process(l)))
                for l in range(len(st.mc_statistics))]

    product = Product(payoff_underlying=Spot(), payoff=Vanilla(strike=100.0, payoff_type=PayoffType.CALL), maturity=0.25)
    for variant in ("fixed", "adaptive"):
        for (first, second) in (((1, 1, 12), (1, 3, 12)), ((2, 2, 8), (1, 2, 16)), ((0, 2, 10), (0, 2, 10))):
            with warnings.catch_warnings(), np.errstate(all="ignore"):
                warnings.simplefilter("ignore")

                def price(eng, conf, cfg):
                    conf.initial_level, conf.maximum_level, conf.initial_mc_paths = cfg
                    if variant == "fixed":
                        return eng.price_with_constant_mc_paths_and_level(product)
                    conf.convergence_criteria = scripted_criteria([[cfg[2] + 2] * 8, [cfg[2] + 2] * 8, [cfg[2] + 3] * 8], [False, False, True], Shared())
                    return eng.price(product, rmse=0.1)
                eng, conf = mk(*first)
                price(eng, conf, first)
                reused = rows(price(eng, conf, second))
                engf, conff = mk(*second)
                fresh = rows(price(engf, conff, second))
            res.count(("real", variant, first, second), nontrivial=True, kind=f"real CouplingMarkovChain, engine re-used ({variant})")
            same = len(reused) == len(fresh) and all(np.array_equal(a[0], b[0]) and np.array_equal(a[1], b[1]) for a, b in zip(reused, fresh))
            if not same:
                l = next((k for k, (a, b) in enumerate(zip(reused, fresh)) if not (np.array_equal(a[0], b[0]) and np.array_equal(a[1], b[1]))), None)
                res.violation("real coupling process: the second pricing on a re-used engine does not store the rows a fresh engine stores (same seed)",
                              {"kind": "real", "variant": variant, "first": list(first), "second": list(second), "level": l,
                               "reused_mean": None if l is None else float(np.mean(reused[l][0])), "fresh_mean": None if l is None else float(np.mean(fresh[l][0]))})
            if variant == "fixed" and any(len(a[0]) != second[2] for a in reused):
                res.violation("real coupling process: fixed-level variant does not hold the configured number of paths on every level",
                              {"kind": "real", "variant": variant, "second": list(second), "rows": [len(a[0]) for a in reused]})


def _mp_run(spec):
    """one multi-process pricing (nb_of_processes = 2, real pathos pool) of the scripted history in `spec`;
    returns (violations, max paths in one pass)"""
    import warnings
    import numpy as np
    from rpylib.montecarlo.multilevel.engine import Engine
    from rpylib.montecarlo.configuration import ConfigurationMultiLevel, ConvergenceRates
    from mcscript import Shared, ScriptedCoupling, scripted_criteria, make_product, MP_COUNTERS, WarningCatcher
    sh = Shared()
    sh.use_mp_counters = True
    cp = ScriptedCoupling(D.sample_fn(spec["salt"], big=True), D.cost_fn(spec["ctab"]), df=spec["df"], shared=sh)
    conf = ConfigurationMultiLevel(convergence_rates=ConvergenceRates(1.0, 2.0, 1.0), convergence_criteria=scripted_criteria(spec["atab"], spec["vtab"], sh),
                                   initial_level=spec["L0"], maximum_level=spec["Lmax"], initial_mc_paths=spec["N0"], nb_of_processes=2, seed=None)
    with WarningCatcher(), warnings.catch_warnings(), np.errstate(all="ignore"):
        warnings.simplefilter("ignore")
        st = Engine(conf, cp).price(make_product(notional=spec["notional"]), rmse=0.125)
        Nl = [int(x) for x in st.mlmc_results.Nl]
        fine = [np.array(st.simulation_payoff_with_fine_process(l)) for l in range(len(st.mc_statistics))]
        coarse = [np.array(st.simulation_payoff_with_coarse_process(l)) for l in range(len(st.mc_statistics))]
        price = float(st.price())
    drawn = [MP_COUNTERS[l].value for l in range(len(Nl))]
    payload = dict(spec, Nl=Nl, paths_simulated=drawn)
    out = []
    total = Fraction(0)
    for l in range(len(Nl)):
        want = sorted(D.expected_row(spec, l, n) for n in range(drawn[l]))
        got = sorted((Fraction(float(a)), Fraction(float(b))) for a, b in zip(fine[l], coarse[l]))
        if Nl[l] != drawn[l] or len(got) != drawn[l]:
            out.append(("multi-process run: reported N_l / stored rows differ from the number of paths simulated at the level",
                        dict(payload, level=l, rows_stored=len(got))))
        elif got != want:
            gs = set(got)
            out.append(("multi-process run: the stored rows are not the simulated samples, each exactly once (samples dropped, duplicated, overwritten "
                        "or rows never written)", dict(payload, level=l, samples_missing_from_the_rows=sum(1 for w in want if w not in gs),
                                                      rows_equal_to_zero=int(np.sum((fine[l] == 0) & (coarse[l] == 0))))))
        if want:
            total += sum((f - c for f, c in want), Fraction(0)) / len(want)
    if abs(Fraction(price) - total) > Fraction(1, 10 ** 9) * max(1, abs(total)):
        out.append(("multi-process run: price() is not the sum over levels of the mean of (fine - coarse) over the simulated samples",
                    dict(payload, reported=price, from_samples=float(total))))
    return out


def _multiprocess(res, rng):
    """the multi-process branch of compute_level_l (nb_of_processes = 2, the real pathos pool): implementation oracle only.
    Pool workers simulate in any order, so the draw index comes from a shared-memory counter per level (unique tag per path)
    and the stored rows are compared with the tagged samples AS A MULTISET: every simulated sample stored exactly once, no row
    left unwritten, N_l = number of paths simulated.  One run puts 12 500 paths on a level in one pass."""
    runs = [{"L0": 1, "Lmax": 1, "N0": 50, "atab": [[12500, 60]], "vtab": [True]},
            {"L0": 2, "Lmax": 3, "N0": 30, "atab": [[200, 150, 40], [200, 150, 45], [200, 150, 45], [200, 150, 45, 10400]], "vtab": [False, True]},
            {"L0": 0, "Lmax": 2, "N0": 7, "atab": [[300], [300, 20], [320, 25]], "vtab": [False, True]}]
    if res.tier == "thorough":
        runs.append({"L0": 1, "Lmax": 2, "N0": 10, "atab": [[25000, 10], [25000, 20001]], "vtab": [True]})
    for k, run in enumerate(runs):
        spec = dict(run, kind="multiprocess", salt=rng.randrange(17), ctab=[1.0] * 8, df=rng.choice([1.0, 0.5]), notional=rng.choice([1.0, 2.0]),
                    dim=1, big=True, epoch=0, nb_of_processes=2)
        res.count(("mp", k, json.dumps(spec, sort_keys=True)), nontrivial=True, kind="multi-process (2 workers)")
        res.bump("multiprocess_max_paths_in_one_pass", max(max(r) for r in spec["atab"]))
        for what, payload in _mp_run(spec):
            res.violation(what, payload)
    # small REAL pool runs (3-4 workers, every pass longer than the pool's chunk size) replayed by the Coq model of the merge
    # (Model/MlmcVec.v mp_run_tab).  Wave 8: the assignment sigma of draws to iteration indices is read from an INDEPENDENT tag
    # channel of the pickled path (c05_vec.TaggedCoupling / TagSpot: logged by the callback in the parent, not read from the
    # statistics arrays); the model must then reproduce every stored row in iteration order.  The run is worthless as a tie of the
    # merge if the pool happened to work in iteration order: at least one replayed sigma must differ from the identity.
    small = [{"L0": 1, "Lmax": 2, "N0": 12, "atab": [[30, 14], [30, 20], [31, 20, 9], [31, 20, 9]], "vtab": [False, True], "nb_of_processes": 3},
             {"L0": 0, "Lmax": 1, "N0": 25, "atab": [[40], [40, 17], [40, 17]], "vtab": [False, True], "nb_of_processes": 4},
             {"L0": 2, "Lmax": 2, "N0": 16, "atab": [[16, 33, 20], [16, 33, 21]], "vtab": [True], "nb_of_processes": 3}]
    mpcases = []
    n_nonid = 0
    for k, run in enumerate(small if res.tier == "quick" else small + [dict(r, N0=r["N0"] + 7, nb_of_processes=7 - r["nb_of_processes"]) for r in small]):
        spec = dict(run, kind="multiprocess", salt=rng.randrange(17), ctab=[1.0] * 8, df=rng.choice([1.0, 0.5]), notional=rng.choice([1.0, 2.0]),
                    dim=1, big=True, epoch=0)
        ob = V.mp_observe(spec)
        res.count(("mp-model", k, json.dumps(spec, sort_keys=True)), nontrivial=True,
                  kind=f"multi-process ({spec['nb_of_processes']} workers), sigma from the tag channel, replayed by the Coq model")
        payload = dict(spec, Nl=ob["Nl"], paths_simulated=ob["drawn"], sigma=ob["sigma"])
        if ob["parent_pid"] in [p for ps in ob["pids"] for p in ps]:
            res.broke("correspondence driver", "a path of a multi-process run was simulated in the parent process: the pool branch was not taken")
        res.bump("multiprocess_worker_processes_seen_per_run", len({p for ps in ob["pids"] for p in ps}))
        # implementation oracle, clause by clause (tags and stored rows are independent observations)
        perm = all(sorted(sg) == list(range(n)) for sg, n in zip(ob["sigma"], ob["drawn"])) and ob["tags_logged"] == sum(ob["drawn"])
        counts = ob["Nl"] == ob["drawn"][:len(ob["Nl"])] and all(len(r) == n for r, n in zip(ob["rows"], ob["Nl"]))
        if not perm:
            res.violation("multi-process run: the paths handed to the callback are not the simulated paths, each exactly once (tag channel)", payload)
        if not counts:
            res.violation("multi-process run: reported N_l / stored rows differ from the number of paths simulated at the level", payload)
        if not (perm and counts):
            continue
        wrong = [(l, i) for l, sg in enumerate(ob["sigma"]) for i, n in enumerate(sg)
                 if (Fraction(float(ob["rows"][l][i][0])), Fraction(float(ob["rows"][l][i][1]))) != D.expected_row(spec, l, n)]
        if wrong:
            l, i = wrong[0]
            stored = [sorted((Fraction(float(a)), Fraction(float(b))) for a, b in r) for r in ob["rows"]]
            simulated = [sorted(D.expected_row(spec, l2, n) for n in range(ob["drawn"][l2])) for l2 in range(len(ob["Nl"]))]
            if stored == simulated:      # every sample stored exactly once, but not under the index the callback was handed: C05 holds, the model is off
                res.broke("correspondence mp", f"the row stored under iteration index {i} of level {l} is not the one the callback received with that index "
                          f"({len(wrong)} rows; the stored rows are still the simulated samples, each once): Model/MlmcVec.v merge no longer follows the callback")
            else:
                res.violation("multi-process run: the stored rows are not the simulated samples, each exactly once (the row under an iteration index is not "
                              "the sample handed to the callback with that index: dropped, duplicated or overwritten)",
                              dict(payload, level=l, iteration=i, rows_wrong=len(wrong)))
        for l, sg in enumerate(ob["sigma"]):
            if sg:
                ident = sg == list(range(len(sg)))
                n_nonid += 0 if ident else 1
                res.bump("multiprocess_sigma (per level of a replayed run)", "identity" if ident else "a non-trivial permutation")
                res.bump("multiprocess_sigma_displaced_indices", min(sum(1 for i, n in enumerate(sg) if i != n), 99))
        mpcases.append(V.mp_case(spec, ob))
    if mpcases and n_nonid == 0:
        res.broke("multi-process coverage", "every replayed pool run stored its draws in iteration order (sigma = identity on every level): the merge "
                                            "model was only exercised where it coincides with the single-process loop")
    if mpcases:
        _coq_group(res, "mp", V.MP_TY, V.MP_CHK, mpcases, 2, "multi-process merge model (Model/MlmcVec.v) and implementation differ on {n} real pool runs")
    _mp_real_fixed_date(res)


def _mp_real_fixed_date(res):
    """A REAL fixed-date coupling process (CouplingMarkovChain on HEM, Spot at maturity) through the pool branch, 2 workers.
    Here the hypothesis of the permutation clause of C05_mp_rows_permutation ('every draw of the level is handed to exactly one
    iteration': sigma l permutes 0..N_l-1) is FALSE: the Brownian / Poisson rows are pre-drawn by the parent and every map_async
    chunk unpickles its own copy of the deques and pops rows 0, 1, .. again (finding F-C08-3 of property C08, status known).  The
    stored rows are then NOT N_l distinct samples.  That is recorded here as an observation explained by F-C08-3; it is not a C05
    violation (every stored row is a path some worker simulated, N_l counts them, price() is their mean) -- what C05 still
    demands on this run is checked: N_l = configured paths = stored rows on every level, coarse = 0 at level 0, price() = sum of
    the per-level means of the stored rows."""
    import warnings
    import numpy as np
    from rpylib.model.utils import create_exponential_of_levy_model, ModelType
    from rpylib.grid.spatial import CTMCUniformGrid
    from rpylib.distribution.sampling import SamplingMethod
    from rpylib.montecarlo.configuration import ConfigurationMultiLevel, ConvergenceRates
    from rpylib.montecarlo.multilevel.engine import Engine
    from rpylib.process.coupling.couplingmarkovchain import CouplingMarkovChain
    from rpylib.product.product import Product
    from rpylib.product.payoff import Vanilla, PayoffType
    from rpylib.product.underlying import Spot
    N = 64
    out = {}
    for nproc in (1, 2):
        model = create_exponential_of_levy_model(ModelType.HEM)()
        cp = CouplingMarkovChain(model=model, method=SamplingMethod.BINARYSEARCHTREEADAPTED1D, grid=CTMCUniformGrid(h=0.05, model=model))
        conf = ConfigurationMultiLevel(convergence_rates=ConvergenceRates(1.0, 2.0, 1.0), convergence_criteria=None, initial_level=1,
                                       maximum_level=1, initial_mc_paths=N, nb_of_processes=nproc, seed=5)
        product = Product(payoff_underlying=Spot(), payoff=Vanilla(strike=80.0, payoff_type=PayoffType.CALL), maturity=0.25)
        with warnings.catch_warnings(), np.errstate(all="ignore"):
            warnings.simplefilter("ignore")
            st = Engine(conf, cp).price_with_constant_mc_paths_and_level(product)
            Nl = [int(x) for x in st.mlmc_results.Nl]
            rows = [(np.array(st.simulation_payoff_with_fine_process(l), dtype=float).ravel(),
                     np.array(st.simulation_payoff_with_coarse_process(l), dtype=float).ravel()) for l in range(len(st.mc_statistics))]
            price = float(st.price())
        res.count(("mp-real-fixed-date", nproc), nontrivial=True,
                  kind=f"real fixed-date coupling process, fixed-level variant, {nproc} process(es)")
        payload = {"kind": "real-fixed-date-pool", "nb_of_processes": nproc, "paths": N, "Nl": Nl, "rows_stored": [len(f) for f, _ in rows]}
        if Nl != [N, N] or any(len(f) != N or len(c) != N for f, c in rows):
            res.violation("real fixed-date process: N_l / stored rows differ from the configured number of paths", payload)
            continue
        if np.any(rows[0][1] != 0.0):
            res.violation("real fixed-date process: the coarse payoff is not identically zero at level 0", payload)
        total = sum(float(np.mean(f)) - float(np.mean(c)) for f, c in rows)
        if abs(price - total) > 1e-12 * max(1.0, abs(total)):
            res.violation("real fixed-date process: price() is not the sum over levels of the mean of (fine - coarse) over the stored rows",
                          dict(payload, reported=price, from_rows=total))
        out[nproc] = [len(set(zip(f.tolist(), c.tolist()))) for f, c in rows]
    if 1 in out and out[1] != [N, N]:
        res.broke("real fixed-date control", f"single-process control run: {out[1]} distinct rows of {N} per level (continuous model: expected all distinct)")
    if 2 in out:
        shared = any(d < N for d in out[2])
        res.bump("real fixed-date process, 2-worker pool, 64 rows stored per level",
                 "fewer than 64 DISTINCT rows on some level: 'sigma permutes' is false here -- explained by F-C08-3 (known finding of C08), not a C05 violation"
                 if shared else "all rows distinct (F-C08-3 not observed on this tree)")
        res.bump("real fixed-date process, 2-worker pool: distinct rows (level 0, level 1) of 64", str(out[2]))


def _fixed_variant(res, rng):
    cases = []
    vcases = []
    box = [(L0, Lmax, N) for L0 in range(0, 4) for Lmax in range(0, 5) for N in (1, 2, 3, 5)]
    if res.tier == "thorough":
        box += [(L0, Lmax, N) for L0 in range(0, 4) for Lmax in range(0, 7) for N in (4, 7, 16, 33)]
    for (L0, Lmax, N) in box:
        spec = {"kind": "fixed", "L0": L0, "Lmax": Lmax, "N0": N, "df": rng.choice([1.0, 0.5, 0.25]), "notional": rng.choice([1.0, 2.0, 0.5]),
                "salt": rng.randrange(17), "ctab": [rng.choice([0.5, 1.0, 2.0, 4.0]) for _ in range(Lmax + 3)], "dim": rng.choice([1, 1, 2])}
        obs = D.run_engine(spec, alloc=[], conv=[], fixed=True)
        res.count(("fixed", L0, Lmax, N), nontrivial=Lmax >= 1, kind="fixed-level variant")
        samples = lst([lst([D.qpair(D.raw_value(spec, l, n)) for n in range(N + 1)]) for l in range(max(L0, Lmax) + 2)])
        args = (f"(tab_sample {samples}) (tab_cost {lst([qlit(c) for c in spec['ctab']])}) const_garbage {qlit(spec['df'])} "
                f"{qlit(spec['notional'])} {natlit(L0)} {natlit(Lmax)} {natlit(N)}")
        if obs["raised"]:
            res.bump("fixed_outcome", "raises IndexError (initial_level > maximum_level)")
            if L0 <= Lmax:
                res.broke("correspondence driver", f"fixed-level variant raised {obs['raised']} on {spec}")
            cases.append(f"(fixed_run {args}, None)")
            vcases.append(V.vfixed_case(spec, obs, L0, Lmax, N))
            continue
        res.bump("fixed_outcome", "returned")
        _violations(res, spec, obs, D.check_c05(spec, obs))
        if any(n != N for n in obs["Nl"]) or len(obs["Nl"]) != Lmax + 1:
            res.violation("fixed-level variant: N_l is not the configured sample size on every level 0..maximum_level",
                          D.replay_payload(spec, obs))
        cases.append(f"(fixed_run {args}, Some ({D.coq_expected_rows(obs)}, {D.coq_expected_results(obs)}))")
        vcases.append(V.vfixed_case(spec, obs, L0, Lmax, N))
    chk = ("fun c => match c with (Some vs, Some (er, ex)) => corr_rows vs er && corr_results tol vs ex | (None, None) => true | _ => false end")
    ty = "option (list lev) * option ((list Z * list Z * list (list row)) * (Q * Q * list (list Q)))"
    _submit(res, "fixed", HEADER, ty, chk, cases, 30, "model and implementation differ on {n} fixed-level runs")
    _coq_group(res, "vfixed", V.VFIX_TY, V.VFIX_CHK, vcases, 30,
               "vector-payoff model (Model/MlmcVec.v) and implementation differ on {n} fixed-level runs")


# ------------------------------------------------------------------ control variates (implementation oracle)
def _solve(A, b):
    """exact Gaussian elimination over Fractions; None if singular"""
    n = len(A)
    M = [list(r) + [x] for r, x in zip(A, b)]
    for i in range(n):
        p = next((r for r in range(i, n) if M[r][i] != 0), None)
        if p is None:
            return None
        M[i], M[p] = M[p], M[i]
        for r in range(n):
            if r != i and M[r][i] != 0:
                f = M[r][i] / M[i][i]
                M[r] = [a - f * c for a, c in zip(M[r], M[i])]
    return [M[i][n] / M[i][i] for i in range(n)]


def _cov(x, y):
    mx, my = sum(x) / len(x), sum(y) / len(y)
    return sum((a - mx) * (b - my) for a, b in zip(x, y)) / len(x)


def cv_adjusted(y, xs, prices):
    """textbook: y - b.(x - prices), b solving Sigma_X b = Sigma_XY; the code's fall-back b = 0 when a control is degenerate
    (variance <= 1e-24 * second moment)"""
    k = len(xs)
    S = [[_cov(xs[i], xs[j]) for j in range(k)] for i in range(k)]
    sxy = [_cov(xs[i], y) for i in range(k)]
    b = None
    ill = False
    if not any(S[i][i] <= Fraction(1, 10 ** 24) * sum(v * v for v in xs[i]) / len(xs[i]) for i in range(k)):
        b = _solve(S, sxy)
        det = S[0][0] if k == 1 else S[0][0] * S[1][1] - S[0][1] * S[1][0]
        diag = S[0][0] if k == 1 else S[0][0] * S[1][1]
        ill = b is None or abs(det) < Fraction(1, 1000) * abs(diag)      # np.linalg.inv on a (nearly) singular Sigma_X: not covered
    if b is None:
        b = [Fraction(0)] * k
    return [yy - sum(bk * (x[i] - p) for bk, x, p in zip(b, xs, prices)) for i, yy in enumerate(y)], b, ill


def _control_variates(res, rng):
    """multilevel engine WITH control variates (compute_coefficients_mlmc): raw rows, control rows, adjusted rows, price()
    and ml / vl / mean / var / kurtosis (which the code computes from the ADJUSTED rows) against an exact Fraction recomputation.
    Every skipped level is counted; too many skips break the check."""
    import numpy as np
    from mcscript import make_control_variates
    n_hist = 40 if res.tier == "quick" else 400
    funs = [lambda x: x * x / 8.0, lambda x: max(x - 6.0, 0.0)]
    n_levels = n_checked = n_skip_ill = n_skip_count = 0
    cvcases = []
    for i in range(n_hist):
        spec = D.gen_spec(rng, "small")
        spec["dim"] = 1
        spec["N0"] = rng.choice([3, 4, 5, 6, 8])
        ncv = rng.choice([1, 2])
        prices = [rng.choice([1.0, 2.0, 4.5]), rng.choice([0.5, 1.0])][:ncv]
        spec["cv"] = {"ncv": ncv, "prices": prices}
        cvn = [1.0, -0.5][:ncv]                     # second control held short: Sigma_X gets a negative entry
        array_prices = i % 2 == 1                  # prices given per payoff component (arrays) instead of scalars
        spec["cv"]["prices_form"] = "arrays" if array_prices else "scalars"
        res.bump("cv_prices_form", spec["cv"]["prices_form"])
        cv = make_control_variates(funs[:ncv], [np.array([p]) for p in prices] if array_prices else prices, notionals=cvn)
        obs = D.run_engine(spec, cv=cv)
        if obs["raised"]:
            res.broke("correspondence driver", f"Engine.price with control variates raised {obs['raised']}")
            continue
        res.count(("cv", json.dumps(spec, sort_keys=True)), nontrivial=True, kind=f"adaptive/control-variates-{ncv}")
        viols = [v for v in D.check_c05(spec, obs) if "mlmc_results" not in v[0] and "reports a number instead of nan" not in v[0]]
        _violations(res, spec, obs, viols)          # raw rows, N_l, price(no cv)
        st = obs["st"]
        total = Fraction(0)
        skip = False
        df, no = Fraction(spec["df"]), Fraction(spec["notional"])
        sc = abs(df * no)
        tol6 = Fraction(1, 10 ** 6)
        for l in range(min(len(obs["Nl"]), obs["n_stat_levels"])):
            n = obs["draws"][l]
            n_levels += 1
            if n == 0:
                continue                               # nothing simulated, nothing adjusted
            if obs["Nl"][l] != n:
                n_skip_count += 1                      # already reported by check_c05 (N_l differs from the paths simulated)
                res.bump("cv_levels_skipped (N_l differs from the simulated paths: reported as a violation)", 1)
                skip = True
                continue
            adj = np.array(st.mc_statistics[l]._payoff_statistics_with_cv.stats)[:, 0, :]
            X = np.array(st.mc_statistics[l]._control_variates_statistics.stats)
            raw = [D.raw_value(spec, l, k) for k in range(n)]
            sides = {}
            for side in (0, 1):
                if l == 0 and side == 1:
                    want_adj = [Fraction(0)] * n
                else:
                    y = [df * no * Fraction(r[side]) for r in raw]
                    xs = [[df * Fraction(nk) * Fraction(f(r[side])) for r in raw] for f, nk in zip(funs[:ncv], cvn)]
                    got_x = X[:, :, 0] if l == 0 else X[:, :, 0, side]
                    if any(Fraction(float(got_x[k, c])) != xs[c][k] for k in range(n) for c in range(ncv)):
                        res.violation("a stored control-variate row is not the control's payoff on the simulated sample",
                                      D.replay_payload(spec, obs, level=l, side=side))
                    want_adj, b, ill = cv_adjusted(y, xs, [Fraction(p) for p in prices])
                    if ill:
                        skip = True
                        n_skip_ill += 1
                        res.bump("cv_levels_skipped (Sigma_X singular or ill-conditioned)", ncv)
                        continue
                    res.bump("cv_levels_checked", ncv)
                sides[side] = want_adj
                if any(abs(Fraction(float(adj[k, side])) - want_adj[k]) > tol6 * max(sc, abs(want_adj[k])) for k in range(n)):
                    res.violation("control-variate adjusted rows are not Y - b*(X - price) with the regression coefficient of the simulated samples",
                                  D.replay_payload(spec, obs, level=l, side=side, stored=[float(v) for v in adj[:, side]],
                                                   expected=[float(v) for v in want_adj]))
                total += (1 if side == 0 else -1) * sum(want_adj) / n
            if len(sides) == 2:                        # ml, vl, ... with controls: the stated functions of the ADJUSTED rows
                n_checked += 1
                tb = D.textbook_fields(list(zip(sides[0], sides[1])))
                for name, val in tb.items():
                    scale = sc if name in ("ml", "mean_level_l") else (sc * sc if name in ("vl", "var_level_l") else 1)
                    if name == "kurtosis":     # the code goes through the raw moments: cancellation error ~ eps * E[dp^4] / max(1, var)^2
                        dd = [a - c for a, c in zip(sides[0], sides[1])]
                        m = sum(dd) / len(dd)
                        var = sum(x * x for x in dd) / len(dd) - m * m
                        scale = max(Fraction(1), 10 ** 4 * sum(x ** 4 for x in dd) / len(dd) / max(Fraction(1), var) ** 2 / 10 ** 9)
                    got = obs[name][l]
                    if not (got == got) or abs(Fraction(got) - val) > Fraction(1, 10 ** 5) * max(scale, abs(val)):
                        res.violation(f"with control variates mlmc_results.{name} is not the stated function of the adjusted samples",
                                      D.replay_payload(spec, obs, level=l, reported=got, from_adjusted_samples=float(val)))
        if not skip and len(cvcases) < 120:        # Model/MlmcVec.v replays the run: raw rows, control rows (exact), with_cv rows, price(), ml, vl, ... (tolerance)
            cvcases.append(V.cv_case(spec, obs, ncv, prices))
            res.bump("cv_model_replays_by_number_of_controls", ncv)
        elif skip:
            res.bump("cv_model_replays_skipped (a level is ill-conditioned or N_l wrong)", 1)
        if not skip and abs(Fraction(obs["price"]) - total) > tol6 * max(sc, abs(total)):
            res.violation("price() with control variates is not the sum of per-level means of the adjusted samples",
                          D.replay_payload(spec, obs, reported=obs["price"], from_samples=float(total)))
    if len(cvcases) < 0.5 * min(n_hist, 120):
        res.broke("control-variate model coverage", f"only {len(cvcases)} of the first {min(n_hist, 120)} control-variate runs could be replayed by Model/MlmcVec.v")
    _coq_group(res, "cv", V.CV_TY, V.CV_CHK, cvcases, 4 if res.tier == "quick" else 10,
               "control-variate model (Model/MlmcVec.v: with_cv rows = Y - b (X - price), statistics from the adjusted rows) and implementation differ on {n} runs")
    res.bump("cv_levels_total", n_levels)
    res.bump("cv_levels_results_checked", n_checked)
    if n_levels and (n_skip_ill > 0.25 * n_levels or n_checked < 0.4 * n_levels):
        res.broke("control-variate oracle coverage", f"{n_skip_ill} of {n_levels} levels skipped as ill-conditioned, only {n_checked} fully checked: "
                  "the multilevel control-variate path is not being exercised")


def _control_variates_vector(res, rng):
    """GENUINE vector payoffs (dimension 2-3) WITH 1-2 control variates (per-component regression, product.py
    compute_coefficients_mlmc loop over the payoff components; prices given as scalars or per component): raw rows, control rows
    of every component exact, adjusted rows of EVERY component against the exact Fraction regression (1e-6) and against
    Model/MlmcVec.v (vrun_tab d nc: with_cv rows of every component, price() and statistics of component 0)."""
    import numpy as np
    from mcscript import make_product
    from rpylib.product.product import ControlVariates
    n_hist = 12 if res.tier == "quick" else 100
    funs = [lambda x: x * x / 8.0, lambda x: max(x - 6.0, 0.0)]
    cvcases = []
    n_ill = 0
    for i in range(n_hist):
        spec = D.gen_spec(rng, "small")
        d = spec["dim"] = rng.choice([2, 2, 3])
        spec["N0"] = rng.choice([4, 5, 6, 8])
        spec["kmax"] = min(spec["kmax"], 4)
        ncv = rng.choice([1, 1, 2])
        prices = [rng.choice([1.0, 2.0, 4.5]), rng.choice([0.5, 1.0])][:ncv]
        cvn = [1.0, -0.5][:ncv]
        form = "arrays" if i % 2 else "scalars"
        spec["cv"] = {"ncv": ncv, "prices": prices, "prices_form": form, "vector": True}
        products = [make_product(notional=nk, dimension=d, fun=(lambda f: (lambda x: np.full(d, f(x))))(f)) for f, nk in zip(funs, cvn)]
        cv = ControlVariates(products=products, prices=[np.full(d, p) for p in prices] if form == "arrays" else list(prices))
        obs = D.run_engine(spec, cv=cv)
        if obs["raised"]:
            res.broke("correspondence driver", f"Engine.price with a vector payoff and control variates raised {obs['raised']}")
            continue
        res.count(("cv-vector", json.dumps(spec, sort_keys=True)), nontrivial=True, kind=f"adaptive/vector-payoff-with-{ncv}-controls")
        res.bump("cv_vector_payoff_dim", d)
        _violations(res, spec, obs, [v for v in D.check_c05(spec, obs) if "mlmc_results" not in v[0] and "reports a number instead of nan" not in v[0]
                                     and v[1].get("finding") != "F-C05-5"])
        st = obs["st"]
        df, no = Fraction(spec["df"]), Fraction(spec["notional"])
        sc = abs(df * no)
        tol6 = Fraction(1, 10 ** 6)
        skip = any(obs["Nl"][l] != obs["draws"][l] for l in range(len(obs["Nl"])))
        for l in range(min(len(obs["Nl"]), obs["n_stat_levels"])):
            n = obs["draws"][l]
            if n == 0 or skip:
                continue
            adj = np.array(st.mc_statistics[l]._payoff_statistics_with_cv.stats)          # (n, d, 2)
            raw = [D.raw_value(spec, l, k) for k in range(n)]
            for j in range(d):
                for side in (0, 1):
                    if l == 0 and side == 1:
                        want = [Fraction(0)] * n
                    else:
                        y = [df * no * Fraction(D.payoff_component(r[side], j)) for r in raw]
                        xs = [[df * Fraction(nk) * Fraction(f(r[side])) for r in raw] for f, nk in zip(funs[:ncv], cvn)]
                        want, b, ill = cv_adjusted(y, xs, [Fraction(p) for p in prices])
                        if ill:
                            skip = True
                            n_ill += 1
                            break
                    if any(abs(Fraction(float(adj[k, j, side])) - want[k]) > tol6 * max(sc, abs(want[k])) for k in range(n)):
                        res.violation("vector payoff with control variates: the adjusted rows of a payoff component are not Y - b*(X - price) with the "
                                      "regression coefficient of that component's simulated samples",
                                      D.replay_payload(spec, obs, level=l, side=side, component=j, stored=[float(v) for v in adj[:, j, side]],
                                                       expected=[float(v) for v in want]))
                if skip:
                    break
        if not skip:
            cvcases.append(V.cv_case(spec, obs, ncv, prices))
            res.bump("cv_vector_model_replays_by_payoff_dim", d)
    res.bump("cv_vector_runs_skipped (a level is ill-conditioned or N_l wrong)", n_hist - len(cvcases))
    if len(cvcases) < 0.4 * n_hist:
        res.broke("control-variate model coverage", f"only {len(cvcases)} of {n_hist} vector-payoff control-variate runs could be replayed by Model/MlmcVec.v")
    _coq_group(res, "cvvec", V.CV_TY, V.CV_CHK, cvcases, 2 if res.tier == "quick" else 6,
               "control-variate model (Model/MlmcVec.v) and implementation differ on {n} runs with a VECTOR payoff (all components of the with_cv rows compared)")


def matches_known(v, known):
    """F-C05-5 only explains: a genuine vector payoff, price() a single number equal to the component-0 estimator (what the
    faithful model of MLMCStatistics.price predicts), every stored row correct"""
    r = v["replay"]
    if known["id"] == "F-C05-5":
        rep, comp = r.get("reported_price") or [], r.get("per_component_estimators") or []
        return (r.get("payoff_dim", 1) > 1 and len(rep) == 1 and len(comp) == r["payoff_dim"]
                and abs(rep[0] - comp[0]) <= 1e-9 * max(1.0, abs(comp[0])) and "component 0 only" in v["what"])
    return False


def search(res):
    """deeper search on the implementation only: more histories, no Coq"""
    rng = random.Random(res.seed + 1)
    for i in range(1500):
        spec = D.gen_spec(rng, MODES[i % len(MODES)])
        if spec["mode"] == "pct" and i % 5:
            spec["N0"] = 4
        obs = D.run_engine(spec)
        if obs["raised"]:
            continue
        v = D.check_c05(spec, obs)
        if v:
            _violations(res, spec, obs, v[:1])
            return


def replay(path):
    data = json.load(open(path))
    print(json.dumps({k: v for k, v in data.items() if k != "observed"}, indent=1)[:3000])
    if data.get("kind") == "multiprocess":
        spec = {k: data[k] for k in ("L0", "Lmax", "N0", "atab", "vtab", "kind", "salt", "ctab", "df", "notional", "dim", "big", "epoch", "nb_of_processes")}
        v = _mp_run(spec)
        for what, det in v:
            print("VIOLATED:", what, {k: det[k] for k in det if k in ("level", "Nl", "paths_simulated", "samples_missing_from_the_rows",
                                                                        "rows_equal_to_zero", "reported", "from_samples", "rows_stored")})
        return 1 if v else 0
    if data.get("kind") == "sequence":
        specs = data["sequence"]
        rc = 0
        for k, obs in enumerate(D.run_engine_seq(specs)):
            if obs["raised"]:
                print(f"pricing {k} raised", obs["raised"])
                return 1
            print(f"pricing {k}: N_l {obs['Nl']}, level-0 fine rows x1024: {[float(x) * 1024 for x in obs['fine'][0]][:6]}")
            for what, det in D.check_c05(specs[k], obs):
                print("VIOLATED:", what, det)
                rc = 1
        return rc
    if data.get("kind") == "fault":
        f = data["fault"]
        fault = (f["level"], f["draw"], f["raises"])
        obs = F.run_faulty(dict(data, epoch=0), data["atab"], data["vtab"], fault)
        if obs["propagated"]:
            print(f"the injected {f['raises']} propagated to the caller: nothing is reported")
            o2 = obs.get("again")
            v = [] if o2 is None or o2["raised"] else [x for x in D.check_c05(dict(data, epoch=1), o2) if x[1].get("finding") != "F-C05-5"]
            for what, det in v:
                print("VIOLATED (next pricing on the same engine):", what, det)
            return 1 if v else 0
        print(f"Engine.price RETURNED although the simulation of draw {f['draw']} of level {f['level']} (pass {f['pass']}) raised {f['raises']}")
        print("N_l reported      :", obs["Nl"])
        print("paths simulated   :", obs["draws"][:len(obs["Nl"])])
        print("rows stored       :", [len(x) for x in obs["fine"]])
        v = [x for x in F.check_returned(data, obs, fault, f["draw"] - f["iteration"]) if x[1].get("finding") != "F-C05-5"]
        for what, det in v:
            print("VIOLATED:", what, det)
        return 1 if v else 0
    if data.get("kind") not in ("adaptive", "fixed"):
        print("replay: re-run ./check C05")
        return 1
    obs = D.run_engine(data, alloc=data.get("atab") or [], conv=data.get("vtab") or [], fixed=data["kind"] == "fixed")
    if obs["raised"]:
        print("raised", obs["raised"])
        return 1
    print("N_l reported      :", obs["Nl"])
    print("paths simulated   :", obs["draws"][:len(obs["Nl"])])
    for l, f in enumerate(obs["fine"]):
        print(f"level {l} fine rows x1024:", [float(x) * 1024 for x in f][:12])
    v = D.check_c05(data, obs)
    for what, det in v:
        print("VIOLATED:", what, det)
    return 1 if v else 0

"""C07 -- standard Monte-Carlo price, error and control-variate adjustment are textbook.
Correspondence: the REAL standard Engine.price is driven by a scripted Process returning a known list of
dyadic paths; rows (exact), price() and mc_stddev()**2 (1e-9) and the control-variate adjusted rows (1e-6,
well-conditioned Sigma_X only) are compared with Model/McStats.v evaluated by vm_compute.
Oracle: numpy-free recomputation in Fractions on the implementation's outputs."""
import json
import math
import random
import warnings
from fractions import Fraction

import numpy as np

from common import zlit, qlit, lst, natlit, blit, opt, coq_bad_indices, parallel_coq_bad, CoqError
import c07_exact

PROP = "C07"
PROPERTY_FILE = "Properties/C07.v"
GEN_DEPS = []
RULE = ("items generated from the seed; 3 of 4 are one pricing on a fresh engine, 1 of 4 is a SEQUENCE of 2-4 pricings on ONE Engine "
        "instance (configuration.mc_paths lowered / raised / equal between pricings, same or another product, payoff dimension "
        "changed when there are no controls). path sets of 1-40 dyadic values k/8 in [0,8] (thorough: up to 300), payoff = vector of "
        "calls with 1-4 dyadic strikes (scalar and vector form), notional and df dyadic, 0-4 controls drawn from {forward, x^2/8, "
        "call, PUT} with notionals in {1, 2, 1/2, -1, -1/2, 2^-24, 2^20} (call+put pairs forced half of the time; exactly COLLINEAR sets "
        "{forward, call K, put K} forced in half of the runs with 3-4 controls, duplicated controls in 15% of the 2-control runs), prices "
        "scalars (d = 1) or per-component arrays, arbitrary or equal to the controls' sample means; plus 48 (thorough 200) single pricings "
        "without controls that alternate nb_of_processes = 1 / 2 (real pathos pool), spot statistics on / off, n = 0, 1, 2, 3 and 2-40 (300) "
        "pairwise distinct path values; plus 30 (thorough 60) single pricings WITH 1-4 controls (same control families, collinear sets included) "
        "on a fresh engine with nb_of_processes cycling through 2, 3, None (Pool(processes=None): one worker per CPU; half of these with "
        "70-130 paths so that map_async hands out chunks) and 1 (control group), spot statistics on, 3-40 (130) pairwise distinct paths; non-trivial = at least 3 paths and (d >= 2 or a control or 2 processes or spot statistics on), or "
        "any re-pricing on a used engine; wave 8: every pool run (and the single-process runs of the groups full / mpcv) uses a 2-dimensional "
        "scripted process (value, draw-number tag) and every third of them repeats path values; 2 fixed probes with nearly collinear "
        "controls {forward, forward + 2^-30 call}; 1 pricing on a real Black-Scholes LevyProcess with 2 workers (observation)")
MODELLED = ["standard Engine.price, BOTH branches of the Monte-Carlo loop (engine.py:116-149): the single-process loop and the multi-process "
            "branch (pool.map_async + callback; which draw gets which iteration index is an oracle sigma, the list of delivered results is "
            "arbitrary), MCPath.process/discount, Product.__call__, MCStatistics.add with the spot statistics on or off, "
            "MCStatistics.price/mc_stddev/get_variance as reported for n = 0 (price and mc_stddev 0 per component, get_variance nan), "
            "n = 1 (mc_stddev and get_variance 0 per component) and n >= 2 -- the repaired tools.stddev / tools.mc_stddev of /repo 380d7c7, tools.mean/stddev/mc_stddev, ControlVariates.helper_compute_coefficients/"
            "compute_coefficients: hand models Model/McStats.v, Model/McStdFull.v, Model/McCv.v, Model/McStdCv.v tied by vm_compute correspondence",
            "b* for ANY number of controls: the guard, else np.linalg.lstsq on the correlation matrix modelled by its specification written "
            "without square roots (Sigma b = Sigma_XY and diag(Sigma) b = Sigma w for some w: the solution of minimal norm on the "
            "correlation scale; proved unique, so the model has exactly one b* also for collinear controls). The harness computes (b, w) "
            "by an exact Fraction solve (harness/c07_exact.py); Coq re-checks the specification on the replayed sample (code_bb, proved "
            "sound) and compares Y - b.(X - p) with the adjusted rows the implementation stored (1e-6), for 1-4 controls, full rank, "
            "collinear (rank 1-3) and guarded; skipped (counted in the evidence): components with 0 < |det Sigma_X| < 1e-9 prod diag, and collinear "
            "components where lstsq saw numerical full rank (see ASSUMPTIONS). "
            "The closed forms for one and two controls remain as a second, independent model (group cv)",
            "for EVERY case (no skip) the oracle checks var(adj) <= var(raw), price() = mean(adj) and that adj is uncorrelated with every "
            "control (the b-free form of the normal equations)",
            "multi-process runs are real pathos pools on a SCRIPTED 2-dimensional process whose path values come from a shared-memory counter: "
            "coordinate 0 is the value the payoff and the controls read, coordinate 1 the draw number k (wave 8, audit5a A5). The assignment "
            "sigma is read from the TAG column of the spot statistics -- a quantity no payoff, control or statistic reads, so sigma is not "
            "derived from a compared number; path values may repeat. The model then predicts payoff rows, control rows AND the spot value "
            "column from sigma. The oracle requires the stored draw numbers to be 0..n-1 once each. The check is BROKEN when fewer than 3 pool "
            "runs of a check run have a non-identity sigma (evidence: pool_runs_by_sigma)",
            "what the pool tie does NOT cover: a real fixed-date process. There the hypothesis 'sigma permutes the draws' does not describe "
            "the run (every chunk re-uses the same pre-drawn variates: F-C08-3, property C08); one such run is made and its multiplicities "
            "recorded in the evidence (real_process_pool_probe), as an observation explained by that finding",
            "mc_stddev() for fewer than two paths (audit5a D4, finding F-C07-6, FIXED in /repo 380d7c7): the model follows the repaired code (one 0 "
            "per component for n = 0 and n = 1); the pre-repair behaviour survives only as mc_stddev2_reported_orig for the Example "
            "C07_error_per_component_before_repair. The oracle requires, for n = 0 and n = 1 in every group (standard, sequences, full, pool), an error "
            "vector with exactly d entries, all 0.0 (and get_variance 0.0 per component for n = 1); a fixed finding absorbs nothing: matches_known "
            "returns False. The engine group is replayed with corr_seq2 (Model/McStdFull.v), because corr_seq of the shared Model/McStats.v still has "
            "the pre-repair `[0]` for one row",
            "least variance: the oracle computes, for every component with a regular Sigma_X, the exact minimum var Y - b.Sigma_XY (Fraction solve) "
            "and the excess of the stored adjusted sample over it; excess > 1e-6 var Y with |det| >= 1e-9 prod diag is a violation, below that "
            "conditioning it is recorded only (least_variance_excess, near_collinear_probe)",
            "the engine's statistics across pricings are state; np.empty is an oracle that may return the previous rows (the executable "
            "model recycles them)",
            "np.cov(bias=True), np.std(ddof=1), np.mean: modelled as the textbook sums; np.linalg.lstsq: by specification; existence of "
            "the specified answer (b and its minimal-norm certificate w) is PROVED for every k and every sample without a degenerate "
            "control (C07_lstsq_answer_exists), so together with uniqueness the model has exactly one b* (C07_code_b_exists_unique)",
            "control variates inside BOTH loop branches (Model/McStdCv.v): statistics.add stores the payoff row and the control rows of the "
            "path held by the path manager at the same index; which draw gets which index is the oracle sigma, the delivery order is "
            "arbitrary; compute_coefficients then works on the two tables. Driven on real pools with nb_of_processes = 2, 3 and None "
            "(one worker per CPU) and on the single-process loop: sigma is observed through the spot statistics, Coq rebuilds the two "
            "tables from the exact per-draw values and sigma (tbl_merge), compares them exactly with the stored ones, re-checks the "
            "specification of b* on them (code_bb) and compares the adjusted column (1e-6); the oracle checks every run on the rows in "
            "the order the pool assigned them",
            "not modelled: the density plots of the spot statistics, the order in which map_async delivers results (the theorems hold "
            "for every order), how the pool assigns draws to indices (oracle sigma, observed on every run)"]
ASSUMPTIONS = ["the error is compared squared (Q has no square root): mc_stddev()**2 = var_unbiased/n",
               "multi-process: the pool evaluates simulating_one_path once per iteration index and hands every result to the callback "
               "(hypothesis `its` covers 0..n-1) and every simulated path is a NEW draw (hypothesis: sigma permutes the draws). Both are "
               "discharged only on the harness's shared-counter scripted process, on real pools with nb_of_processes 2, 3, None, through a "
               "draw-number tag. The second is FALSE for a real fixed-date process on a pool: chunks re-use the same pre-drawn variates "
               "(known finding F-C08-3 of C08: 64 paths on 2 workers = 8 distinct paths 8 times each, mc_stddev() reported as for 64 independent "
               "paths), so C07_multiprocess_same_statistics / C07_cv_multiprocess_same say nothing about such a run",
               "'least variance' and 'the sample regression coefficient' are statements about the EXACT b of the specification (over Q). numpy's "
               "lstsq uses rcond = k*eps on the rounded correlation matrix: for relative determinant below ~1e-9 it may drop a direction and keep "
               "variance the exact b removes (probe {forward, forward + 2^-30 call}: see evidence); var(adj) <= var(raw) is enforced on every case",
               "'same numbers' for permuted rows holds over Q; the floats are compared at 1e-9",
               "np.linalg.lstsq returns the minimal-norm least-squares solution (its documented specification) OF THE MATRIX IT IS GIVEN: for "
               "exactly collinear controls this is the model's b* only when the rounded correlation matrix is numerically rank deficient for "
               "rcond=None (cut-off eps*k); observed: always for n <= 40, not always for n of a few hundred -- lstsq then returns another "
               "solution of the normal equations (same variance, adjusted rows shifted by a constant when the given prices do not satisfy the "
               "collinearity relation). Those components are recognised on the outputs (constant shift), counted in the evidence "
               "(cvk_collinear_components_where_lstsq_saw_full_rank) and checked by the oracle only"]
THEOREM_NOTES = {
    "C07_error_per_component": "model of the repaired tools.mc_stddev (fix-mc dee7ba4); the pre-repair divisor n*d is the Example C07_error_vector_before_repair",
    "C07_cv_variance": "conditional on b solving the normal equations; variance is the biased sample variance np.cov(bias=True) the code uses "
                       "(same inequality for the unbiased one: common factor n/(n-1)); C07_normal_equations_solvable shows the hypothesis is satisfiable for every sample and k",
    "C07_cv_bstar_solves_normal_equations": "closed-form b* for 1 and 2 controls; the general k is C07_cv_code_b_any_k",
    "C07_repricing_uses_own_paths": "the model has both behaviours of initialisation (new statistics with arbitrary np.empty content / keep the old buffers); "
                                    "theorem for the code's branch, Example C07_keeping_the_buffers_is_wrong for the other",
    "C07_cv_variance_with_code_b": "composition: the b the code computes for 1-2 controls (guard included) never increases the variance",
    "C07_cv_optimal_any_k": "any k, any solution b of the normal equations (collinear controls included): var(adj b') = var(adj b) + var((b'-b).X) >= var(adj b) "
                            "for every b' and all centring prices: b is THE sample regression coefficient; b' = 0 gives var(adj) <= var Y",
    "C07_normal_equations_solvable": "existence for every k and sample by Gram-Schmidt on the controls (induction on k, Cauchy-Schwarz for a control without "
                                     "residual variance); hence lstsq's least-squares minimiser is an exact solution of the normal equations",
    "C07_lstsq_spec_unique": "uniqueness of the minimal-norm solution (specification of lstsq on the correlation scale, square-root free); existence is "
                             "C07_lstsq_answer_exists",
    "C07_lstsq_answer_exists": "existence of (b, w) for every k and sample whose controls all have positive variance (what the guard ensures): Gram-Schmidt for an "
                               "abstract positive semi-definite symmetric form (gram_solvable in Proofs/C07_LstsqExists.v), instantiated with "
                               "<u,v> = sum_l u_l v_l / Sigma_ll on the columns of Sigma_X and the target diag(Sigma) b0, b0 a solution of the normal equations; "
                               "b = D^-1 Sigma w. Square-root free, over Q",
    "C07_code_b_exists_unique": "for every sample, k and n > 0 exactly one coefficient vector (up to == componentwise) meets the specification of "
                                "helper_compute_coefficients (guard -> 0, else lstsq); that numpy's lstsq meets its specification stays an assumption",
    "C07_cv_tables_any_order": "payoff and control tables are written by the same statistics.add(it, path_manager): one component of the payoff (ycol) and the "
                               "vector of controls (crow) as functions of the draw; indices beyond n excluded by hypothesis (IndexError)",
    "C07_cv_multiprocess_same": "CONDITIONAL: hypothesis sigma permutes 0..n-1 -- observed (draw-number tag) on every run of the shared-counter scripted process, "
                                "not proved, and false for a real fixed-date process on a pool (F-C08-3); conclusion for every b meeting the specification on "
                                "the permuted tables; C07_cv_multiprocess_same_b adds (guard not firing) that it equals the single-process b componentwise",
    "C07_cv_code_b_any_k": "code_b = guard -> b = 0, else lstsq by specification; conclusion: var(adj) <= var Y always; without the guard least variance over all b' and uniqueness of b. "
                           "The hypothesis code_b is inhabited for every sample (C07_code_b_exists_unique; C07_cv_code_b_unconditional is the composed form); exact b only",
    "C07_code_b_check_sound": "links the boolean the vm_compute correspondence evaluates (code_bb) to the Prop the theorems are about",
    "C07_merge_any_order": "sigma is bookkeeping (mc_engine .. sigma = mc_engine (path o sigma) .. id); the content is independence of `its`: the value written at row it depends on it only (through sigma), so order / chunking / repeated delivery of results cannot matter; "
                           "indices beyond n are excluded by hypothesis (numpy raises IndexError); single-process loop = instance (Corollary single_process_instance in Proofs/C07_StdFull.v)",
    "C07_multiprocess_same_statistics": "CONDITIONAL: hypothesis sigma permutes 0..n-1 (every simulated path a new draw, handed to exactly one index). Observed on every "
                                        "pool run of the shared-counter scripted process through a draw-number tag that no compared quantity reads (>= 3 non-identity "
                                        "sigma per check run or the check breaks); FALSE for a real fixed-date process (F-C08-3 of C08: the chunks re-use the pre-drawn "
                                        "variates; recorded by real_process_pool_probe). The conclusion is C07_statistics_permutation_invariant transported; equal over Q",
    "C07_error_one_per_component_any_n": "small: by cases on mc_stddev2_reported (repaired arms) + length of mc_var_repaired; holds for n = 0 and n = 1 too since 380d7c7",
    "C07_error_per_component_before_repair": "Example, F-C07-6 fixed: pre-repair definition mc_stddev2_reported_orig (one number for d = 2 at n = 1, no value at n = 0) "
                                             "against the current one on the same inputs",
    "C07_lstsq_answer_exists_nondegenerate": "corollary of C07_lstsq_answer_exists in the form audit5a B10 asked for (any_degenerate = false -> exists b w, lstsq_spec)",
    "C07_cv_code_b_unconditional": "C07_cv_code_b_any_k with its hypothesis discharged by C07_code_b_exists_unique (composition, no new mathematics). EXACT b only: "
                                   "numpy's lstsq (rcond = k*eps) drops a direction on nearly collinear controls and then does not attain the least variance "
                                   "(audit5a: 4.405 of 4.412 kept where the exact b leaves 0); var(adj) <= var(raw) still holds and is enforced by the oracle",
    "C07_statistics_permutation_invariant": "elementary, over Q; float summation order is not modelled (harness: 1e-9)",
    "C07_engine_small_n": "repaired tree: n = 0: mc_stddev 0 per component, get_variance None (nan); n = 1: both 0 per component. Row / price clauses are theorems; the "
                          "mc_stddev / get_variance clauses are DEFINITIONAL (match arms, tied by the n = 0 / n = 1 cases of corr_full and corr_seq2)",
    "C07_get_variance_textbook": "model of the repaired get_variance (744849b)",
    "threshold": "repaired guard (fix-mc3 aaa3e1f): a control is degenerate when variance <= 1e-24 * mean(x^2); modelled as written (degenerate / any_degenerate), "
                 "so a changed guard breaks the vm_compute correspondence of the adjusted rows (cases are normalised by the "
                 "power-of-two notionals, the implementation runs on notionals 2^-24 ... 2^20); the oracle separately flags 'b = 0 although no "
                 "control is degenerate'. The old absolute guard min|Sigma_X| < 1e-12 also fired for tiny notionals and for two uncorrelated controls (F-C07-3, repaired)",
}
LEVEL_TEXT = ("Proof: 26 Coq theorems + 7 Examples (closed under the global context; F-C07-6 -- mc_stddev() not per component for fewer than two "
              "paths -- is fixed in /repo 380d7c7 and the model follows the repair): for every path function, payoff, df, notional, size and np.empty "
              "content the engine loop stores df*notional*payoff(path_i) for each path exactly once and price() is df*notional*mean per "
              "component; the same for the multi-process branch for every order/chunking of the delivered results and every assignment of "
              "draws to indices, with the spot statistics holding the spot of the same path, and price/error equal (over Q) to the single-process "
              "ones IF every simulated path is a new draw used once (sigma permutes: a hypothesis, discharged only on the shared-counter scripted "
              "process through a draw-number tag; false for a real fixed-date process on a pool, F-C08-3, where the chunks repeat the same paths); every pricing of a sequence on one engine holds exactly its own "
              "paths; mc_stddev()^2 is the unbiased variance of each component divided by the number of paths and get_variance() that "
              "variance; the error has exactly one entry per payoff component for every number of paths, 0 per component for n = 0 and n = 1 (definitional clauses, tied by cases); for every coefficient vector b the control-variate mean is mean Y - b.(mean X - price); "
              "for ANY number of controls the normal equations are solvable, every solution b minimises the variance of Y - b'.(X - p') over "
              "all b' (so var(adj) <= var Y; least variance is a property of the EXACT b: numpy's lstsq, rcond = k*eps, drops a direction when the "
              "relative determinant of Sigma_X is below ~1e-9 and then keeps variance the exact b removes -- measured by the oracle, <= var Y enforced), the minimal-norm solution the code's lstsq is specified to return EXISTS (no degenerate control) and is "
              "unique, so the specification of the code's b* (guard, else lstsq) is met by exactly one vector for every sample (lstsq branch inhabited "
              "whenever the guard does not fire: C07_lstsq_answer_exists_nondegenerate; composed C07_cv_code_b_unconditional); the one/two-"
              "control closed forms solve the normal equations; with controls, payoff and control tables hold at each index the values of "
              "one draw for every delivery order, and (same hypothesis on the pool) a multi-process run (rows permuted) has the same b*, control-variate price and "
              "variance as the single-process run. Model tied to /repo by vm_compute replay of ~710 scripted Engine.price "
              "pricings incl. ~100 multi-pricing sequences on one engine, 24 real 2-process runs without and 25 real pool runs with "
              "1-4 controls for nb_of_processes = 2, 3, None (rows exact, statistics 1e-9, adjusted "
              "rows 1e-6 against the exactly solved specification for 1-4 controls incl. collinear sets).")
LEVEL_NOTE = ("Trusted: Coq kernel + vm_compute; hand models Model/McStats.v, McStdFull.v, McCv.v, McStdCv.v (correspondence, not translation); numpy "
              "mean/std/cov semantics; np.linalg.lstsq by its specification (minimal-norm least squares) on well-conditioned input; the pool calls every "
              "index once and every call is a new draw (true of the scripted process only, see ASSUMPTIONS).")
TECHNIQUE = ("Coq proof (loop invariant for all delivery orders, permutation invariance, bilinearity of the sample covariance over Q, Gram-Schmidt "
             "existence for an abstract semi-inner product (normal equations and minimal-norm certificate), uniqueness of the minimal-norm solution) + vm_compute correspondence with scripted processes and exact Fraction certificates")

TOL9 = Fraction(1, 10 ** 9)
HEADER = ("From Coq Require Import ZArith QArith List Bool.\nFrom RV Require Import Base.QB Model.McStats Model.McCv Model.McStdFull.\nOpen Scope Q_scope.\n"
          "Definition tol : Q := 1 # 1000000000.\nDefinition tol6 : Q := 1 # 1000000.\n")


CTRL_NOTIONALS = [1.0, 2.0, 0.5, -1.0, -0.5, 1.0, 2.0 ** -24, -(2.0 ** -24), 2.0 ** 20]
PROD_NOTIONALS = [1.0, 2.0, 0.5, 8.0, 1.0, 2.0, 2.0 ** -24, 2.0 ** 20]


def gen_controls(rng, ncv):
    """controls on the same underlying: forward, x^2/8, calls and PUTS (negative covariance with calls / the forward),
    also held with NEGATIVE notionals"""
    out = []
    for k in range(ncv):
        t = rng.choice(["fwd", "sq", "call", "put", "put", "call"])
        out.append({"type": t, "K": rng.choice([2.0, 3.0, 4.0, 5.0]), "notional": rng.choice(CTRL_NOTIONALS)})
    if ncv >= 2 and rng.random() < 0.5:      # make sure call + put pairs are frequent
        out[0]["type"], out[1]["type"] = "call", "put"
    if ncv >= 3 and rng.random() < 0.5:      # COLLINEAR set: forward = call(K) - put(K) + K, Sigma_X is singular
        K = rng.choice([2.0, 3.0, 4.0])
        for c, t in zip(out, ("fwd", "call", "put")):
            c["type"], c["K"] = t, K
    if ncv == 2 and rng.random() < 0.15:     # two copies of one control (different notionals): rank one
        out[1]["type"], out[1]["K"] = out[0]["type"], out[0]["K"]
    return out


def gen_spec(rng, tier):
    nmax = 40 if tier == "quick" else 300
    n = rng.choice([1, 1, 2, 2, 3, 4, 5, 7, 8, 11, 16, rng.randint(2, nmax), rng.randint(2, nmax)])
    d = rng.choice([1, 1, 1, 2, 2, 3, 4])
    ncv = rng.choice([0, 0, 1, 1, 2, 2, 2, 3, 3, 3, 4])
    return {"kind": "standard", "n": n, "d": d, "ncv": ncv, "vector_form": d > 1 or rng.random() < 0.3,
            "strikes": [rng.randrange(0, 40) / 8.0 for _ in range(d)],
            "paths": [rng.randrange(0, 65) / 8.0 for _ in range(n)],
            "df": rng.choice([1.0, 0.5, 0.25, 0.75]), "notional": rng.choice(PROD_NOTIONALS),
            "controls": gen_controls(rng, ncv),
            "price_mode": rng.choice(["arbitrary", "arbitrary", "sample-mean"]),
            "spot_stats": rng.random() < 0.3,          # activate_spot_statistics (engine-level: the first pricing of a sequence decides)
            "scalar_prices": d == 1 and rng.random() < 0.6,
            "prices_raw": [[rng.randrange(0, 64) / 8.0 for _ in range(d)] for _ in range(ncv)]}


def gen_tight(rng, tier):
    """huge mean, tiny dispersion: underlying 100 + k / 2^27, notional 2^20 (all dyadic, the exact error is known): the error is
    ~1e-10 of the payoff, a variance formula that cancels (E[x^2] - E[x]^2) loses it entirely"""
    spec = gen_spec(rng, tier)
    spec["n"] = rng.choice([2, 3, 5, 8, 16, 40])
    spec["paths"] = [100.0 + rng.randrange(-64, 65) / 2.0 ** 27 for _ in range(spec["n"])]
    spec["strikes"] = [rng.choice([0.0, 1.0, 50.0]) for _ in range(spec["d"])]
    spec["notional"] = 2.0 ** 20
    spec["df"] = rng.choice([1.0, 0.5])
    spec["ncv"], spec["controls"], spec["prices_raw"] = 0, [], []
    spec["tight"] = True
    return spec


def gen_sequence(rng, tier):
    """2-4 pricings on ONE engine: N then M<N, M>N, M=N; same or different product; the controls (engine
    configuration) stay; the payoff dimension changes only without controls"""
    first = gen_spec(rng, tier)
    first["price_mode"] = "arbitrary"
    first["n"] = rng.choice([3, 5, 8, 13, 20])
    first["paths"] = [rng.randrange(0, 65) / 8.0 for _ in range(first["n"])]
    seq = [first]
    for _ in range(rng.choice([1, 2, 2, 3])):
        prev = seq[-1]
        s = dict(prev)
        how = rng.choice(["fewer", "fewer", "more", "equal"])
        s["n"] = {"fewer": max(1, prev["n"] - rng.randint(1, prev["n"])), "more": prev["n"] + rng.randint(1, 9), "equal": prev["n"]}[how]
        s["paths"] = [rng.randrange(0, 65) / 8.0 for _ in range(s["n"])]
        if rng.random() < 0.5:               # another product
            if first["ncv"] == 0 and rng.random() < 0.4:
                s["d"] = rng.choice([1, 2, 3])
                s["vector_form"] = s["d"] > 1 or rng.random() < 0.3
            s["strikes"] = [rng.randrange(0, 40) / 8.0 for _ in range(s["d"])]
            s["notional"] = rng.choice(PROD_NOTIONALS)
        s["seq_step"] = how
        seq.append(s)
    return seq


def control_fun(c, d):
    t, K, idx = c["type"], c["K"], np.arange(d)

    def f(x):
        if t == "fwd":
            v = x * np.ones(d)
        elif t == "sq":
            v = (x * x / 8.0) * np.ones(d)
        elif t == "call":
            v = np.maximum(x - K - idx, 0.0)
        elif t == "near":       # forward + 2^-30 call: nearly collinear with the forward (relative det of Sigma_X ~ 1e-18)
            v = x * np.ones(d) + 2.0 ** -30 * np.maximum(x - K - idx, 0.0)
        else:
            v = np.maximum(K + idx - x, 0.0)
        return v if d > 1 else float(v[0])
    return f


def control_exact(c, x: Fraction, j):
    t, K = c["type"], Fraction(c["K"])
    if t == "fwd":
        return x
    if t == "sq":
        return x * x / 8
    if t == "call":
        return max(x - K - j, Fraction(0))
    if t == "near":
        return x + Fraction(1, 2 ** 30) * max(x - K - j, Fraction(0))
    return max(K + j - x, Fraction(0))


def _exact_controls(first, spec):
    df = Fraction(first["df"])
    return [[[df * Fraction(c["notional"]) * control_exact(c, Fraction(x), j) for c in first["controls"]] for x in spec["paths"]]
            for j in range(spec["d"])]     # [component][path][control]


SMALL_N_WHAT = "mc_stddev() does not report one error per payoff component for fewer than two paths"


def run_sequence(specs, nproc=1, tagged=False):
    """prices every spec of the list, in order, on ONE Engine instance (engine-level fields -- df, controls, prices -- are
    those of the first spec); returns one obs per pricing, taken right after it.  nproc = 1: the single-process loop;
    nproc = 2, 3, ... or None (Pool(processes=None) = one worker per CPU): the multi-process branch on a real pool, the
    scripted path values then come from a shared-memory counter (c07_mp.ScriptedProcessMP)"""
    from mcscript import ScriptedProcess, make_product, make_control_variates, WarningCatcher
    from c07_mp import TaggedProcessMP, first_coordinate, split_tagged_spot
    from rpylib.montecarlo.standard.engine import Engine
    from rpylib.montecarlo.configuration import ConfigurationStandard
    first = specs[0]
    tagged = tagged or nproc != 1
    wrap = first_coordinate if tagged else (lambda f: f)
    ncv, d0 = first["ncv"], first["d"]
    df = Fraction(first["df"])

    def exact_controls(spec):
        return [[[df * Fraction(c["notional"]) * control_exact(c, Fraction(x), j) for c in first["controls"]] for x in spec["paths"]]
                for j in range(spec["d"])]     # [component][path][control]
    cv = None
    if ncv:
        if first["price_mode"] == "sample-mean":
            xe = exact_controls(first)
            pr = [[float(sum(xe[j][i][k] for i in range(first["n"])) / first["n"]) for j in range(d0)] for k in range(ncv)]
        else:   # given prices on the scale of each control (its notional)
            pr = [[v * abs(c["notional"]) for v in row] for row, c in zip(first["prices_raw"], first["controls"])]
        prices = [p[0] for p in pr] if first["scalar_prices"] else [np.array(p) for p in pr]
        cv = make_control_variates([wrap(control_fun(c, d0)) for c in first["controls"]], prices,
                                   notionals=[c["notional"] for c in first["controls"]])
    mp = nproc != 1
    values = [x for s in specs for x in s["paths"]]
    proc = TaggedProcessMP(values, df=first["df"]) if tagged else ScriptedProcess(values, df=first["df"], dimension=1)
    if tagged:
        proc.reset()
    eng = Engine(ConfigurationStandard(mc_paths=first["n"], nb_of_processes=nproc, seed=None if mp else 7, control_variates=cv,
                                       activate_spot_statistics=bool(first.get("spot_stats"))), proc)
    out = []
    for spec in specs:
        if ncv:
            spec["prices_used"] = pr
        strikes = np.array(spec["strikes"])
        if spec["vector_form"]:
            fun = lambda x, strikes=strikes: np.maximum(x - strikes, 0.0)      # noqa
        else:
            fun = lambda x, k=spec["strikes"][0]: max(x - k, 0.0)              # noqa
        product = make_product(notional=spec["notional"], dimension=spec["d"], fun=wrap(fun))
        eng.configuration.mc_paths = spec["n"]
        before = proc.drawn() if tagged else proc.calls
        with WarningCatcher(), np.errstate(all="ignore"), warnings.catch_warnings():
            warnings.simplefilter("ignore")
            st = eng.price(product)
            obs = {"calls": (proc.drawn() if tagged else proc.calls) - before, "rows": np.array(st._payoff_statistics.stats),
                   "price_raw": np.atleast_1d(st.price(no_control_variates=True)).astype(float),
                   "err_raw": np.atleast_1d(st.mc_stddev(no_control_variates=True)).astype(float),
                   "price": np.atleast_1d(st.price()).astype(float), "err": np.atleast_1d(st.mc_stddev()).astype(float)}
            obs["variance_raw"] = np.atleast_1d(st.get_variance(no_control_variates=True)).astype(float)
            if first.get("spot_stats"):
                obs["spot"] = np.array(st._spot_underlying_statistics.stats)         # (n, 1)
                if tagged:          # (n, 2): column 0 the spot value, column 1 the draw-number tag (sigma)
                    obs["spot"], obs["sigma_tag"] = split_tagged_spot(obs["spot"], spec["n"])
            if ncv:
                obs["X"] = np.array(st._control_variates_statistics.stats)          # (n, ncv, d)
                obs["adj"] = np.array(st._payoff_statistics_with_cv.stats)          # (n, d)
        obs["xs_exact"] = exact_controls(spec)
        out.append(obs)
    return out


def run(spec):
    return run_sequence([spec])[0]


def _mean(v):
    return sum(v, Fraction(0)) / len(v)


def _cov(x, y):
    mx, my = _mean(x), _mean(y)
    return sum((a - mx) * (b - my) for a, b in zip(x, y)) / len(x)


def _solve(A, b):
    n = len(A)
    M = [list(r) + [x] for r, x in zip(A, b)]
    for i in range(n):
        p = next((r for r in range(i, n) if M[r][i] != 0), None)
        if p is None:
            return None
        M[i], M[p] = M[p], M[i]
        for r in range(n):
            if r != i and M[r][i] != 0:
                f = M[r][i] / M[i][i]
                M[r] = [a - f * c for a, c in zip(M[r], M[i])]
    return [M[i][n] / M[i][i] for i in range(n)]


def _det(S):
    k = len(S)
    if k == 1:
        return S[0][0]
    if k == 2:
        return S[0][0] * S[1][1] - S[0][1] * S[1][0]
    if k > 3:
        return c07_exact.det(S)
    return (S[0][0] * (S[1][1] * S[2][2] - S[1][2] * S[2][1]) - S[0][1] * (S[1][0] * S[2][2] - S[1][2] * S[2][0])
            + S[0][2] * (S[1][0] * S[2][1] - S[1][1] * S[2][0]))


def _close(a, b, tol=TOL9, scale=1):
    """|a - b| <= tol * max(scale, |b|); scale = natural size of the quantity (df * |notional|), so that the test is as
    sharp for notional 2^-24 as for notional 1"""
    a = float(a)
    if math.isnan(a) or math.isinf(a):
        return False
    return abs(Fraction(a) - b) <= tol * max(scale, abs(b))


def oracle(spec, obs):
    """violations of C07 visible on the implementation's outputs: list of (what, details)"""
    out = []
    n, d, ncv = spec["n"], spec["d"], spec["ncv"]
    df, no = Fraction(spec["df"]), Fraction(spec["notional"])
    sc = abs(df * no)                      # natural size of a payoff row
    want = [[df * no * max(Fraction(x) - Fraction(K), Fraction(0)) for K in spec["strikes"]] for x in spec["paths"]]
    rows = obs["rows"]
    got = [[Fraction(float(v)) for v in r] for r in rows]
    if obs["calls"] != n or len(got) != n:
        stale = obs["calls"] == n and len(got) > n and got[:n] == want
        out.append(("the statistics of this pricing hold more rows than the configured number of paths: rows of an earlier pricing on the "
                    "same engine are averaged into price() and mc_stddev()" if stale else
                    "the engine did not simulate / store exactly the configured number of paths",
                    {"configured_paths": n, "simulated": obs["calls"], "rows_in_statistics": len(got),
                     "reported_price": [float(v) for v in obs["price_raw"]],
                     "price_of_own_paths": [float(_mean([want[i][j] for i in range(n)])) for j in range(d)]}))
    elif got != want:
        i = next(i for i in range(n) if got[i] != want[i])
        out.append(("a stored payoff row is not df * notional * payoff(path_i)", {"row": i, "stored": [float(v) for v in got[i]], "expected": [float(v) for v in want[i]]}))
    cols = [[want[i][j] for i in range(n)] for j in range(d)]
    for j in range(d):
        m = _mean(cols[j])
        if not _close(obs["price_raw"][j], m, TOL9, sc):
            out.append(("price() is not df * notional * arithmetic mean of the payoff over the paths", {"component": j, "reported": float(obs["price_raw"][j]), "expected": float(m)}))
        if n >= 2:
            var = sum((x - m) ** 2 for x in cols[j]) / (n - 1)
            e2 = var / n
            rep = float(obs["err_raw"][j]) if len(obs["err_raw"]) == d else float("nan")
            # RELATIVE tolerance on the error itself (not on the size of the payoff): 1e-6 of the exact value
            if abs(Fraction(rep) ** 2 - e2) > Fraction(1, 10 ** 6) * e2 + Fraction(1, 10 ** 30) * sc * sc or rep != rep:
                det = {"component": j, "reported_error": rep, "textbook_error": math.sqrt(float(e2)), "n": n, "d": d}
                if d >= 2 and _close(rep * rep * d, e2, TOL9, sc * sc):
                    det["finding"] = "F-C07-1"
                out.append(("mc_stddev() is not the unbiased sample standard deviation / sqrt(number of paths), per component", det))
    if n == 1 and obs.get("err_raw") is not None:
        rep = [float(v) for v in np.atleast_1d(obs["err_raw"])]
        if len(rep) != d:       # F-C07-6 (fixed in /repo 380d7c7): no tag -- a fixed finding absorbs nothing
            out.append((SMALL_N_WHAT, {"component_count": d, "reported_error": rep, "price": [float(v) for v in obs["price_raw"]]}))
        elif any(v != 0.0 for v in rep):
            out.append(("one path: mc_stddev() is not 0.0 per component", {"reported_error": rep}))
        gv = [float(v) for v in np.atleast_1d(obs["variance_raw"])] if obs.get("variance_raw") is not None else None
        if gv is not None and gv != [0.0] * d:
            out.append(("one path: get_variance() is not 0.0 per payoff component", {"component_count": d, "reported": gv}))
    if "spot" in obs and len(got) == n:
        sp = [Fraction(float(v)) for v in obs["spot"][:, 0]] if obs["spot"].ndim == 2 and obs["spot"].shape[0] == n else None
        if sp != [Fraction(x) for x in spec["paths"]]:
            out.append(("spot statistics on: the stored spot values are not the simulated underlying values, one per path", {"stored": None if sp is None else [float(v) for v in sp][:8]}))
    if n >= 2 and len(got) == n:
        for j in range(d):
            m = _mean(cols[j])
            var = sum((x - m) ** 2 for x in cols[j]) / (n - 1)
            rep = float(obs["variance_raw"][j]) if len(obs["variance_raw"]) == d else float("nan")
            if rep != rep or abs(Fraction(rep) - var) > Fraction(1, 10 ** 6) * var + Fraction(1, 10 ** 30) * sc * sc:
                out.append(("get_variance() is not the unbiased sample variance of the payoff", {"component": j, "reported": rep, "expected": float(var), "mean": float(m)}))
                break
    if ncv and len(got) == n:
        X, adj = obs["X"], obs["adj"]
        pr = spec["prices_used"]
        spec["_cv_checked"] = 0
        for j in range(d):
            xs = obs["xs_exact"][j]
            if any(Fraction(float(X[i, k, j])) != xs[i][k] for i in range(n) for k in range(ncv)):
                out.append(("a stored control-variate row is not df * notional_k * control payoff(path_i)", {"component": j}))
                continue
            xcols = [[xs[i][k] for i in range(n)] for k in range(ncv)]
            S = [[_cov(xcols[a], xcols[b]) for b in range(ncv)] for a in range(ncv)]
            sxy = [_cov(xcols[a], cols[j]) for a in range(ncv)]
            spec.setdefault("_sigma_neg", 0)
            spec["_sigma_neg"] += any(v < 0 for r in S for v in r)
            # the (repaired) guard: a control whose variance vanishes relative to its second moment -> b = 0
            p = [Fraction(pr[k][j]) for k in range(ncv)]
            tol6 = Fraction(1, 10 ** 6)
            adj_ex = [Fraction(float(adj[i, j])) for i in range(n)]
            var_y = _cov(cols[j], cols[j])
            # ALWAYS (no skip): the adjusted sample never has more variance than the raw one, and price() is its mean
            va, vy = _cov(adj_ex, adj_ex), var_y
            if va > vy * (1 + Fraction(1, 10 ** 9)) + Fraction(1, 10 ** 12) * sc * sc:
                out.append(("sample variance of the control-variate adjusted payoff exceeds the raw one",
                            {"component": j, "var_adj": float(va), "var_raw": float(vy), "ratio": float(va / vy) if vy else None,
                             "Sigma_X": [[float(v) for v in r] for r in S]}))
            if not _close(obs["price"][j], _mean(adj_ex), TOL9, sc):
                out.append(("price() with control variates is not the mean of the adjusted sample", {"component": j}))
            # the (repaired) guard: a control whose variance vanishes relative to its second moment -> b = 0
            if any(S[a][a] <= Fraction(1, 10 ** 24) * _mean([x * x for x in xcols[a]]) for a in range(ncv)):
                b = [Fraction(0)] * ncv
                spec["_cv_guard"] = spec.get("_cv_guard", 0) + 1
                well = True
            else:
                # b-free form of the normal equations: the adjusted sample is uncorrelated with every control (whatever the rank of Sigma_X)
                for k in range(ncv):
                    c = _cov(adj_ex, xcols[k])
                    if c * c > Fraction(1, 10 ** 12) * S[k][k] * var_y + Fraction(1, 10 ** 30) * sc ** 4:
                        out.append(("control-variate adjusted sample is still correlated with a control: b* does not solve the normal equations Sigma_X b = Sigma_XY",
                                    {"component": j, "control": k, "cov_adj_control": float(c), "var_control": float(S[k][k]), "var_raw": float(var_y)}))
                        break
                diag = Fraction(1)
                for a in range(ncv):
                    diag *= S[a][a]
                det_s = _det(S)
                well = abs(det_s) >= Fraction(1, 1000) * abs(diag)
                b = _solve(S, sxy) if well else None
                # LEAST variance is a theorem about the EXACT b (C07_cv_optimal_any_k).  With the exact minimum v_min = var Y - b.Sigma_XY
                # (exact solve, regular Sigma_X) measure what the float lstsq leaves on the table: bounded by 1e-6 var Y whenever
                # |det| >= 1e-9 prod diag (the range in which the adjusted rows are also replayed in Coq); below that numpy may drop a
                # direction (rcond = k * eps on the correlation matrix) and the excess is only RECORDED (var(adj) <= var Y still enforced above)
                if det_s != 0 and var_y > 0:
                    b_ex = b if b is not None else _solve(S, sxy)
                    v_min = var_y - sum(bk * c for bk, c in zip(b_ex, sxy))
                    excess = (va - v_min) / var_y
                    rel = abs(det_s) / abs(diag)
                    spec.setdefault("_cv_excess", []).append((float(rel), float(excess)))
                    if rel >= Fraction(1, 10 ** 9) and excess > Fraction(1, 10 ** 6):
                        out.append(("control-variate adjusted sample does not have the least variance although Sigma_X is well conditioned "
                                    "(|det| >= 1e-9 prod diag): b* is not the sample regression coefficient",
                                    {"component": j, "var_adj": float(va), "least_var": float(v_min), "var_raw": float(var_y), "rel_det": float(rel)}))
            if not well or b is None:      # collinear / nearly collinear controls: b* is not unique, the rows are not compared with one particular solution
                spec.setdefault("_cv_skipped", 0)
                spec["_cv_skipped"] += 1
                continue
            want_adj = [cols[j][i] - sum(b[k] * (xs[i][k] - p[k]) for k in range(ncv)) for i in range(n)]
            spec["_cv_checked"] += 1
            moved = any(b[k] != 0 and xs[i][k] != p[k] for i in range(n) for k in range(ncv))
            if moved and any(v != 0 for v in b) and all(float(adj[i, j]) == float(rows[i, j]) for i in range(n)) \
                    and any(not _close(adj[i, j], want_adj[i], tol6, sc) for i in range(n)):
                out.append(("control variates dropped (b* = 0, adjusted sample = raw sample) although no control is degenerate and Sigma_X is well conditioned",
                            {"component": j, "Sigma_X": [[float(v) for v in r] for r in S], "b_star_expected": [float(v) for v in b],
                             "reported_price": float(obs["price"][j]), "expected_price": float(_mean(want_adj)), "raw_mean": float(_mean(cols[j]))}))
                continue
            if any(not _close(adj[i, j], want_adj[i], tol6, sc) for i in range(n)):
                out.append(("control-variate adjusted sample is not Y - b*(X - price_X) with b* the sample regression coefficient",
                            {"component": j, "stored": [float(v) for v in adj[:, j]][:8], "expected": [float(v) for v in want_adj][:8],
                             "b_star": [float(v) for v in b], "prices": [float(v) for v in p]}))
                continue
            if spec["price_mode"] == "sample-mean" and not _close(obs["price"][j], _mean(cols[j]), tol6, sc):
                out.append(("controls' sample mean equals their given price but the control-variate price differs from the raw mean",
                            {"component": j, "with_cv": float(obs["price"][j]), "raw": float(_mean(cols[j]))}))
    return out


def _null_shift(xn, yn, p, adj, b):
    """exactly COLLINEAR controls only.  lstsq works on the ROUNDED correlation matrix; when rounding leaves its smallest singular
    value above lstsq's cut-off (eps * k * largest: seen for n of a few hundred) lstsq treats it as regular and its answer carries an
    arbitrary component along the null vector of Sigma_X: still a solution of the normal equations (the oracle checks that on every
    case), but not the minimal-norm one of the model.  Such a component moves every adjusted row by the SAME constant
    (b - b').(mean X - p).  Returns True when the stored adjusted column differs from the model's by a constant (and not by less
    than the tolerance): the case is then counted and not replayed in Coq."""
    n, k = len(yn), len(b)
    want = [yn[i] - sum(b[c] * (xn[i][c] - p[c]) for c in range(k)) for i in range(n)]
    diff = [adj[i] - want[i] for i in range(n)]
    tol = Fraction(1, 10 ** 6) * max(1, max(abs(v) for v in want))
    return max(abs(v) for v in diff) > tol and max(diff) - min(diff) <= tol


def _payload(spec, **det):
    p = {k: v for k, v in spec.items() if not k.startswith("_")}
    p.update(det)
    return p


def _seq_payload(specs, k, **det):
    p = {"kind": "sequence", "sequence": [_payload(sp) for sp in specs], "index": k,
         "note": "pricings 0..index are run in order on ONE Engine instance; the violation is in pricing `index`"}
    p.update(det)
    return p


def _coq_case(spec, obs):
    d = spec["d"]
    erows = lst([lst([qlit(v) for v in r]) for r in obs["rows"]])
    err2 = [float(e) ** 2 for e in obs["err_raw"]]            # one number per component for every n (n = 1: zeros; F-C07-6 fixed)
    return (f"({lst([qlit(k) for k in spec['strikes']])}, {lst([qlit(x) for x in spec['paths']])}, {qlit(spec['df'])}, "
            f"{qlit(spec['notional'])}, {natlit(spec['n'])}, ({erows}, {lst([qlit(v) for v in obs['price_raw']])}, {lst([qlit(v) for v in err2])}))")


def _bump_excess(res, spec):
    for rel, ex in spec.get("_cv_excess", []):
        res.bump("least_variance_excess (var(adj) - exact minimum) / var(raw), by conditioning of Sigma_X",
                 ("rel det >= 1e-9" if rel >= 1e-9 else "rel det < 1e-9 (numpy may drop a direction)") + ": " +
                 ("<= 1e-12" if ex <= 1e-12 else "<= 1e-6" if ex <= 1e-6 else "<= 1e-2" if ex <= 1e-2 else "> 1e-2"))


def _near_collinear_probe(res):
    """audit5a B10 on the real engine: controls {forward, forward + 2^-30 call K} and the payoff call K.  The exact regression
    coefficient is (-2^30, 2^30) and leaves variance 0; Sigma_X on the correlation scale has relative determinant ~1e-18, numpy's
    lstsq (rcond = k * eps) drops the direction and keeps the part of var(call) the forward does not explain.  Enforced: the
    property's bound var(adj) <= var(raw) and price() = mean(adj) (oracle); recorded: how much is left."""
    rng = random.Random(res.seed + 5)
    for K in (2.0, 4.0):
        spec = {"kind": "standard", "n": 50, "d": 1, "ncv": 2, "vector_form": False, "strikes": [K],
                "paths": [rng.randrange(0, 65) / 8.0 for _ in range(50)], "df": 1.0, "notional": 1.0,
                "controls": [{"type": "fwd", "K": K, "notional": 1.0}, {"type": "near", "K": K, "notional": 1.0}],
                "price_mode": "arbitrary", "spot_stats": False, "scalar_prices": True, "prices_raw": [[3.0], [3.0]]}
        obs = run(spec)
        for what, det in oracle(spec, obs):
            res.violation(what, _payload(spec, **det))
        res.count(("near", json.dumps(_payload(spec), sort_keys=True)), nontrivial=True, kind="standard d=1 ncv=2 nearly collinear probe")
        ys = [Fraction(float(v)) for v in obs["rows"][:, 0]]
        ad = [Fraction(float(v)) for v in obs["adj"][:, 0]]
        vy, va = _cov(ys, ys), _cov(ad, ad)
        res.bump("near_collinear_probe {forward, forward + 2^-30 call}: var(adj)/var(raw) with numpy's b (exact b: 0)",
                 "no variance in the sample" if vy == 0 else f"{float(va / vy):.3f}")
        _bump_excess(res, spec)
        if not spec.get("_cv_excess") or spec["_cv_excess"][0][0] >= 1e-9:
            res.broke("near-collinear probe", f"the probe is not nearly collinear any more: {spec.get('_cv_excess')}")


def _zero_paths(res):
    """mc_paths = 0: state what the code does (price() of nothing is 0; mc_stddev() cannot be evaluated)"""
    spec = {"kind": "standard", "n": 0, "d": 1, "ncv": 0, "vector_form": False, "strikes": [1.0], "paths": [], "df": 1.0, "notional": 1.0,
            "controls": [], "price_mode": "arbitrary", "scalar_prices": True, "prices_raw": []}
    try:
        obs = run(spec)
        res.bump("n=0", f"price() {obs['price_raw'].tolist()}, mc_stddev() {obs['err_raw'].tolist()}")
        if obs["err_raw"].tolist() != [0.0]:
            res.violation(SMALL_N_WHAT, _payload(spec, component_count=1, reported_error=obs["err_raw"].tolist()))
    except AttributeError as e:
        res.bump("n=0", f"mc_stddev() raises AttributeError: {e}")
        res.violation(SMALL_N_WHAT, _payload(spec, component_count=1, exception=f"AttributeError: {e}"))
    res.count(("n0",), nontrivial=False, kind="standard n=0")


def correspond(res):
    rng = random.Random(res.seed)
    _zero_paths(res)
    _near_collinear_probe(res)
    n_items = 420 if res.tier == "quick" else 1200
    eng_cases, cv_cases, cvk_cases, low_k, all_k = [], [], [], 0, 0
    for i in range(n_items):
        specs = gen_sequence(rng, res.tier) if i % 4 == 3 else ([gen_tight(rng, res.tier)] if i % 10 == 1 else [gen_spec(rng, res.tier)])
        observations = run_sequence(specs)
        res.bump("pricings_on_one_engine", len(specs))
        for k, (spec, obs) in enumerate(zip(specs, observations)):
            n, d, ncv = spec["n"], spec["d"], spec["ncv"]
            res.count(("std", k, json.dumps([_payload(sp) for sp in specs[:k + 1]], sort_keys=True)),
                      nontrivial=(n >= 3 and (d >= 2 or ncv >= 1)) or k >= 1, kind=f"standard d={d} ncv={ncv}" + (" (re-pricing)" if k else ""))
            res.bump("n_paths", "1" if n == 1 else ("2-8" if n <= 8 else ">8"))
            res.bump("payoff_scale", "huge mean / tiny dispersion (mean/std ~ 1e9)" if spec.get("tight") else "ordinary")
            if k:
                res.bump("repricing_step", spec["seq_step"] + (", other product" if (spec["strikes"], spec["notional"], spec["d"]) !=
                                                               (specs[k - 1]["strikes"], specs[k - 1]["notional"], specs[k - 1]["d"]) else ", same product"))
            res.bump("price_mode", spec["price_mode"] if ncv else "no controls")
            res.bump("spot_statistics", "on" if specs[0].get("spot_stats") else "off")
            res.bump("prices_form", "none" if not ncv else ("scalars" if spec["scalar_prices"] else "arrays"))
            for what, det in oracle(spec, obs):
                res.violation(what, _seq_payload(specs[:k + 1], k, **det) if len(specs) > 1 else _payload(spec, **det))
            res.bump("cv_components_checked", spec.get("_cv_checked", 0))
            if ncv:
                res.bump("notional_scale", "tiny (2^-24)" if min([abs(spec["notional"])] + [abs(c["notional"]) for c in spec["controls"]]) < 1e-6
                         else ("huge (2^20)" if max([abs(spec["notional"])] + [abs(c["notional"]) for c in spec["controls"]]) > 1e5 else "O(1)"))
                if spec.get("_cv_guard"):
                    res.bump("cv_components_with_a_degenerate_control (b = 0 by the guard)", spec["_cv_guard"])
            if ncv >= 2:
                res.bump("Sigma_X_has_negative_entry", bool(spec.get("_sigma_neg")))
            if spec.get("_cv_skipped"):
                res.bump("cv_components_skipped_ill_conditioned", spec["_cv_skipped"])
            _bump_excess(res, spec)
            if ncv in (1, 2) and spec.get("_cv_checked", 0) == d and n >= 2:
                # powers of two: rows / |notional|, controls and prices / |control notional| (exact; the regression is equivariant,
                # so the model sees O(1) numbers while the implementation ran on the tiny / huge ones)
                ly = abs(spec["notional"])
                lx = [abs(c["notional"]) for c in spec["controls"]]
                for j in range(d):
                    xs = lst([lst([qlit(obs["X"][i2, c, j] / lx[c]) for c in range(ncv)]) for i2 in range(n)])
                    cv_cases.append(f"({natlit(ncv)}, {lst([qlit(spec['prices_used'][c][j] / lx[c]) for c in range(ncv)])}, {xs}, "
                                    f"{lst([qlit(v / ly) for v in obs['rows'][:, j]])}, {lst([qlit(v / ly) for v in obs['adj'][:, j]])})")
            if ncv >= 1 and len(obs["rows"]) == n and obs["X"].shape == (n, ncv, d):
                # ANY number of controls, collinear or not: the b the specification of the code determines (guard / minimal-norm
                # solution of the normal equations on the correlation scale) comes from an exact Fraction solve together with its
                # certificate w; Coq re-checks the specification (code_bb) and compares Y - b.(X - p) with the stored rows
                ly = abs(spec["notional"])
                lx = [abs(c["notional"]) for c in spec["controls"]]
                for j in range(d):
                    xn = [[Fraction(float(obs["X"][i2, c, j])) / Fraction(lx[c]) for c in range(ncv)] for i2 in range(n)]
                    yn = [Fraction(float(v)) / Fraction(ly) for v in obs["rows"][:, j]]
                    cert = c07_exact.lstsq_certificate(xn, yn)
                    if cert["kind"] == "guard":
                        cls = "guard (b = 0)"
                    elif cert["rank"] < ncv:
                        cls = f"collinear (rank {cert['rank']} < {ncv})"
                    elif cert["rel_det"] < Fraction(1, 10 ** 9):
                        res.bump("cvk_components_skipped_nearly_singular (|det| < 1e-9 prod diag, not singular)", f"k={ncv}")
                        continue
                    else:
                        cls = "full rank"
                    if cls.startswith("collinear") and _null_shift(xn, yn, [Fraction(spec['prices_used'][c][j]) / Fraction(lx[c]) for c in range(ncv)],
                                                                   [Fraction(float(v)) / Fraction(ly) for v in obs['adj'][:, j]], cert["b"]):
                        res.bump("cvk_collinear_components_where_lstsq_saw_full_rank (b* off the minimal-norm solution by a null vector; adjusted rows "
                                 "shifted by a constant; oracle only, not replayed in Coq)", f"k={ncv} n={'<=40' if n <= 40 else '>40'}")
                        continue
                    low_k += ncv <= 2
                    if ncv <= 2 and cls != "collinear (rank 1 < 2)" and low_k % 3:
                        continue
                    all_k += 1
                    if res.tier != "quick" and all_k % 3:
                        continue     # thorough tier: every third component keeps the Coq replay within the time budget     # one and two non-collinear controls are also covered by the closed forms of the group `cv`
                    res.bump("cvk_cases (any number of controls)", f"k={ncv} {cls}")
                    cvk_cases.append(f"({natlit(ncv)}, {lst([qlit(Fraction(spec['prices_used'][c][j]) / Fraction(lx[c])) for c in range(ncv)])}, "
                                     f"{lst([lst([qlit(v) for v in r]) for r in xn])}, {lst([qlit(v) for v in yn])}, "
                                     f"{lst([qlit(Fraction(float(v)) / Fraction(ly)) for v in obs['adj'][:, j]])}, "
                                     f"{lst([qlit(v) for v in cert['b']])}, {lst([qlit(v) for v in cert['w']])})")
        eng_cases.append(lst([_coq_case(sp, ob) for sp, ob in zip(specs, observations)]))
    for name, cs in (("engine", eng_cases), ("cv", cv_cases), ("cvk", cvk_cases)):
        if not cs:
            res.broke(f"correspondence {name}", "the group has no case: nothing would be compared (generator or driver problem)")
    # the three groups are replayed CONCURRENTLY (each sharded over several coqc): the thorough tier then fits its time budget on a loaded machine
    from concurrent.futures import ThreadPoolExecutor
    ty = "nat * list Q * list (list Q) * list Q * list Q"
    chk = ("fun c => match c with (nc, p, xs, y, adj) => match cv_adjust_tab nc p xs y with Some l => Qclose_list tol6 l adj "
           "| None => false end end")
    sh = 40 if res.tier == "quick" else 60
    with ThreadPoolExecutor(3) as ex:
        f_eng = ex.submit(parallel_coq_bad, PROP, "engine", HEADER, "list seq_case", "corr_seq2 tol", eng_cases, shard=sh, timeout=900, jobs=8)
        f_cv = ex.submit(parallel_coq_bad, PROP, "cv", HEADER, ty, chk, cv_cases, shard=sh, timeout=900, jobs=6)
        f_cvk = ex.submit(parallel_coq_bad, PROP, "cvk", HEADER, "cvk_case", "corr_cvk tol6", cvk_cases, shard=sh, timeout=900, jobs=8) if cvk_cases else None
        bad, nsh = f_eng.result()
        cv_result = f_cv.result()
        cvk_result = f_cvk.result() if f_cvk else None
    res.case_lemmas += nsh
    if bad:
        res.broke("correspondence engine", f"model and implementation differ on {len(bad)} pricing sequences, first: {eng_cases[bad[0]][:1500]}")
    else:
        res.case_ok += nsh
    bad, nsh = cv_result
    res.case_lemmas += nsh
    res.bump("cv_coq_cases", len(cv_cases))
    if bad:
        res.broke("correspondence cv", f"model and implementation differ on {len(bad)} control-variate components, first: {cv_cases[bad[0]][:1500]}")
    else:
        res.case_ok += nsh
    if cvk_cases:
        _cvk_group(res, cvk_cases, cvk_result)
    POOL_SIGMA[0] = POOL_SIGMA[1] = 0
    correspond_full(res, rng)
    correspond_mpcv(res, random.Random(res.seed + 77))
    # audit5a A5: a pool tie that only ever saw sigma = identity has not exercised the permutation hypothesis
    res.bump("pool_runs_by_sigma (tag column)", f"identity {POOL_SIGMA[0]}, non-identity {POOL_SIGMA[1]}")
    if POOL_SIGMA[1] < 3:
        res.broke("correspondence pool sigma", f"of {sum(POOL_SIGMA)} real pool runs only {POOL_SIGMA[1]} had a non-identity assignment of draws to "
                                               "iteration indices: the multi-process tie would be the single-process tie (uneven sleeps in c07_mp no longer effective?)")
    _real_process_pool_probe(res)


def _cvk_group(res, cvk_cases, result):
    bad, nsh = result
    res.case_lemmas += nsh
    if bad:
        res.broke("correspondence cvk", f"model (specification of lstsq on the correlation scale, any number of controls) and implementation "
                                        f"differ on {len(bad)} control-variate components, first: {cvk_cases[bad[0]][:1500]}")
    else:
        res.case_ok += nsh

POOL_SIGMA = [0, 0]      # [identity, non-identity] over the real pool runs of this check run


# ----------------------------------------------------------------------------- both branches of the loop, spot statistics, n = 0 / 1
def gen_full(rng, tier, i):
    """one pricing on a fresh engine, no controls: nb_of_processes = 1 or 2 (real pathos pool), spot statistics on / off,
    n in {0, 1, 2, ...}; path values pairwise distinct (the spot statistics then identify which draw every row holds)"""
    nproc = 2 if i % 2 else 1
    n = [0, 1, 2, 3][(i // 2) % 4] if i < 16 else rng.choice([2, 3, 5, 8, 13, 24, 40] + ([120, 300] if tier != "quick" else []))
    d = rng.choice([1, 1, 2, 3])
    return {"kind": "full", "nproc": nproc, "n": n, "d": d, "ncv": 0, "vector_form": d > 1 or rng.random() < 0.3,
            "strikes": [rng.randrange(0, 40) / 8.0 for _ in range(d)],
            # wave 8: sigma is read from the draw-number TAG, so the values need not be distinct: every third item repeats values
            "paths": ([rng.randrange(0, 17) / 2.0 for _ in range(n)] if i % 3 == 2 else
                      [v / 32.0 for v in rng.sample(range(0, 65 * 4), n)] if n <= 200 else [v / 64.0 for v in rng.sample(range(0, 65 * 8), n)]),
            "df": rng.choice([1.0, 0.5, 0.25, 0.75]), "notional": rng.choice([1.0, 2.0, 0.5, 8.0]),
            "controls": [], "price_mode": "arbitrary", "scalar_prices": True, "prices_raw": [],
            "spot_stats": True if nproc == 2 else ((i // 8) % 2 == 0 if i < 16 else rng.random() < 0.5)}


def run_full(spec):
    from mcscript import ScriptedProcess, make_product, WarningCatcher
    from c07_mp import TaggedProcessMP, first_coordinate, split_tagged_spot
    from rpylib.montecarlo.standard.engine import Engine
    from rpylib.montecarlo.configuration import ConfigurationStandard
    mp = spec["nproc"] != 1
    proc = TaggedProcessMP(spec["paths"], df=spec["df"])       # 2-d: (value, draw-number tag), also in the single-process loop
    proc.reset()
    eng = Engine(ConfigurationStandard(mc_paths=spec["n"], nb_of_processes=spec["nproc"], seed=None if mp else 7,
                                       activate_spot_statistics=bool(spec["spot_stats"])), proc)
    strikes = np.array(spec["strikes"])
    if spec["vector_form"]:
        fun = lambda x: np.maximum(x - strikes, 0.0)      # noqa
    else:
        fun = lambda x, k=spec["strikes"][0]: max(x - k, 0.0)              # noqa
    product = make_product(notional=spec["notional"], dimension=spec["d"], fun=first_coordinate(fun))
    with WarningCatcher(), np.errstate(all="ignore"), warnings.catch_warnings():
        warnings.simplefilter("ignore")
        st = eng.price(product)
        obs = {"calls": proc.drawn(), "rows": np.array(st._payoff_statistics.stats),
               "price_raw": np.atleast_1d(st.price(no_control_variates=True)).astype(float)}
        obs["price"] = obs["price_raw"]
        try:
            obs["err_raw"] = np.atleast_1d(st.mc_stddev(no_control_variates=True)).astype(float)
            obs["err_exc"] = None
        except AttributeError as e:
            obs["err_raw"], obs["err_exc"] = None, str(e)
        obs["err"] = obs["err_raw"]
        obs["variance_raw"] = np.atleast_1d(st.get_variance(no_control_variates=True)).astype(float)
        obs["spot"], obs["sigma_tag"] = None, None
        if spec["spot_stats"]:
            obs["spot_raw_shape"] = list(np.array(st._spot_underlying_statistics.stats).shape)
            obs["spot"], obs["sigma_tag"] = split_tagged_spot(st._spot_underlying_statistics.stats, spec["n"])
        obs["spot_class"] = type(st._spot_underlying_statistics).__name__
    return obs


def oracle_full(spec, obs):
    """(violations, sigma): sigma[it] = number of the draw stored at row it (None when it cannot be determined)"""
    out = []
    n, d = spec["n"], spec["d"]
    vals = [Fraction(v) for v in spec["paths"]]
    if spec["spot_stats"]:
        sp, sigma = obs["spot"], obs["sigma_tag"]
        if sp is None:
            return [("spot statistics on: the spot array is not (number of paths) x (spot dimension)", {"shape": obs.get("spot_raw_shape")})], None
        seen = [Fraction(float(v)) for v in sp[:, 0]]
        # every draw 0..n-1 handed to exactly one iteration index: decided on the TAG column (no payoff reads it) ...
        if sorted(sigma) != list(range(n)) or obs["calls"] != n:
            return [("the simulated paths are not each used exactly once: the draw numbers stored with the spot statistics are not 0..n-1 once each",
                     {"nb_of_processes": spec["nproc"], "simulated": obs["calls"], "stored_draw_numbers": sigma[:16]})], None
        # ... and the spot VALUE stored at row it is the value of that draw (a compared quantity now, not the source of sigma)
        if seen != [vals[k] for k in sigma]:
            out.append(("spot statistics on: the spot value stored at an index is not the value of the path whose draw number is stored there",
                        {"stored_spots": [float(v) for v in seen][:12], "draw_numbers": sigma[:12]}))
    else:
        if obs["spot_class"] != "NoStatistic":
            out.append(("spot statistics off but a spot array is kept", {}))
        sigma = list(range(n))
    if spec["nproc"] == 1 and sigma != list(range(n)):
        out.append(("single-process loop: row i does not hold the i-th simulated path", {"sigma": sigma[:12]}))
    if n == 0:
        if obs["price_raw"].shape != (d,) or any(v != 0.0 for v in obs["price_raw"]):
            out.append(("no path: price() is not 0 per component", {"reported": [float(v) for v in obs["price_raw"]]}))
        if obs["err_raw"] is None:      # F-C07-6 (fixed in /repo 380d7c7): must not come back; no tag
            out.append((SMALL_N_WHAT, {"component_count": d, "exception": "AttributeError: " + str(obs["err_exc"]),
                                       "price": [float(v) for v in obs["price_raw"]]}))
        elif len(obs["err_raw"]) != d or any(float(v) != 0.0 for v in obs["err_raw"]):
            out.append((SMALL_N_WHAT, {"component_count": d, "reported_error": [float(v) for v in obs["err_raw"]]}))
        return out, sigma
    perm = dict(spec)
    perm["paths"] = [spec["paths"][k] for k in sigma]        # the rows in the order the pool assigned them
    o = dict(obs)
    if obs["err_raw"] is None:
        out.append(("mc_stddev() raised although there are paths", {"exception": obs["err_exc"]}))
        o["err_raw"] = o["err"] = np.full(d, float("nan"))
    o.pop("spot")
    out += oracle(perm, o)      # n = 1: the shape of the reported error is judged there (one 0.0 per component)
    return out, sigma


def _full_case(spec, obs, sigma):
    n, d = spec["n"], spec["d"]
    qrows = lambda a: lst([lst([qlit(v) for v in r]) for r in a])       # noqa
    evar = None if obs["err_raw"] is None else [float(e) ** 2 for e in obs["err_raw"]]
    egv = None if all(v != v for v in obs["variance_raw"]) else [float(v) for v in obs["variance_raw"]]
    qs = lambda l: lst([qlit(v) for v in l])                              # noqa
    return (f"({qs(spec['strikes'])}, {qs(spec['paths'])}, {qlit(spec['df'])}, {qlit(spec['notional'])}, {natlit(n)}, {blit(spec['spot_stats'])}, "
            f"{lst([natlit(k) for k in sigma])}, ({qrows(obs['rows'])}, {opt(obs['spot'], qrows)}, {qs(obs['price_raw'])}, {opt(evar, qs)}, {opt(egv, qs)}))")


def correspond_full(res, rng):
    n_items = 48 if res.tier == "quick" else 200
    cases = []
    for i in range(n_items):
        spec = gen_full(rng, res.tier, i)
        obs = run_full(spec)
        viol, sigma = oracle_full(spec, obs)
        n = spec["n"]
        res.count(("full", json.dumps(_payload(spec), sort_keys=True)), nontrivial=n >= 3 and (spec["nproc"] == 2 or spec["spot_stats"]),
                  kind=f"loop nb_of_processes={spec['nproc']} spot_statistics={'on' if spec['spot_stats'] else 'off'}")
        res.bump("full_runs (both loop branches)", f"nb_of_processes={spec['nproc']}, spot {'on' if spec['spot_stats'] else 'off'}, "
                                                   f"n={'0' if n == 0 else '1' if n == 1 else '>=2'}")
        if n == 0:
            res.bump("n=0 (modelled)", f"price() {obs['price_raw'].tolist()}, mc_stddev() " +
                     (f"raises AttributeError: {obs['err_exc']}" if obs["err_raw"] is None else str(obs["err_raw"].tolist())) +
                     f", get_variance() {obs['variance_raw'].tolist()}")
        if spec["nproc"] == 2 and sigma is not None and n >= 2:
            res.bump("pool_assignment_sigma", "identity" if sigma == list(range(n)) else "a non-trivial permutation")
            POOL_SIGMA[sigma != list(range(n))] += 1
        for what, det in viol:
            res.violation(what, _payload(spec, **det))
        if sigma is not None:
            cases.append(_full_case(spec, obs, sigma))
    if not cases:
        res.broke("correspondence full", "the group has no case: nothing would be compared (generator or driver problem)")
        return
    bad, nsh = parallel_coq_bad(PROP, "full", HEADER, "full_case", "corr_full tol", cases, shard=24 if res.tier == "quick" else 40, timeout=900, jobs=12)
    res.case_lemmas += nsh
    if bad:
        res.broke("correspondence full", f"model (both loop branches, spot statistics, n = 0 / 1, get_variance) and implementation differ on "
                                         f"{len(bad)} pricings, first: {cases[bad[0]][:1500]}")
    else:
        res.case_ok += nsh


# ----------------------------------------------------------------------------- control variates INSIDE the multi-process branch
MPCV_PROCS = [2, 3, None, 3, None, 1]      # None: Pool(processes=None), one worker per CPU; 1: the single-process loop as the control group


def gen_mpcv(rng, tier, i):
    """one pricing with 1-4 controls on a fresh engine, nb_of_processes in {2, 3, None} (and 1 as the control group), spot statistics
    on (they reveal which draw every row holds); path values pairwise distinct"""
    spec = gen_spec(rng, tier)
    spec["kind"] = "mpcv"
    spec["nproc"] = MPCV_PROCS[i % len(MPCV_PROCS)]
    spec["n"] = rng.choice([3, 5, 8, 13, 24, 40] + ([120] if tier != "quick" else []))
    if spec["nproc"] is None and i % 2:
        spec["n"] = rng.choice([70, 90, 130])      # more than 4 * (number of CPUs) tasks: map_async then hands out chunks of >= 2 indices
    spec["paths"] = ([rng.randrange(0, 33) / 4.0 for _ in range(spec["n"])] if i % 3 == 2 else      # wave 8: values may repeat (sigma from the tag)
                     [v / 32.0 for v in rng.sample(range(0, 65 * 4), spec["n"])])
    spec["ncv"] = [1, 2, 3, 3, 4][i % 5]
    spec["controls"] = gen_controls(rng, spec["ncv"])
    spec["prices_raw"] = [[rng.randrange(0, 64) / 8.0 for _ in range(spec["d"])] for _ in range(spec["ncv"])]
    spec["spot_stats"] = True
    return spec


def run_mpcv(spec):
    """(violations, sigma, spec in row order, obs)"""
    obs = run_sequence([spec], nproc=spec["nproc"], tagged=True)[0]
    n = spec["n"]
    vals = [Fraction(v) for v in spec["paths"]]
    sp, sigma = obs["spot"], obs.get("sigma_tag")
    if sp is None:
        return [("spot statistics on: the spot array is not (number of paths) x (spot dimension)", {})], None, None, obs
    seen = [Fraction(float(v)) for v in sp[:, 0]]
    if sorted(sigma) != list(range(n)) or obs["calls"] != n:
        return [("the simulated paths are not each used exactly once: the draw numbers stored with the spot statistics are not 0..n-1 once each",
                 {"nb_of_processes": spec["nproc"], "simulated": obs["calls"], "stored_draw_numbers": sigma[:16]})], None, None, obs
    out = []
    if seen != [vals[k] for k in sigma]:
        out.append(("spot statistics on: the spot value stored at an index is not the value of the path whose draw number is stored there",
                    {"stored_spots": [float(v) for v in seen][:12], "draw_numbers": sigma[:12]}))
    if spec["nproc"] == 1 and sigma != list(range(n)):
        out.append(("single-process loop: row i does not hold the i-th simulated path", {"sigma": sigma[:12]}))
    perm = dict(spec)
    perm["paths"] = [spec["paths"][k] for k in sigma]           # the paths in the order the pool assigned them to the rows
    o = dict(obs)
    o.pop("spot")
    o["xs_exact"] = _exact_controls(spec, perm)                 # payoff row, control rows and spot row of one index: the SAME draw
    out += oracle(perm, o)
    for k in ("_cv_checked", "_cv_guard", "_cv_skipped", "_sigma_neg"):
        if k in perm:
            spec[k] = perm[k]
    return out, sigma, perm, obs


def _mpcv_case(spec, obs, sigma, j):
    """Coq case for payoff component j (numbers normalised by the power-of-two notionals, exactly): tables BY DRAW NUMBER from
    the exact formulas, sigma as observed, the three tables as stored by the implementation, b and w from the exact solve of the
    specification on the stored tables.  None: nearly singular Sigma_X (not compared, counted)"""
    n, ncv = spec["n"], spec["ncv"]
    ly = Fraction(abs(spec["notional"]))
    lx = [Fraction(abs(c["notional"])) for c in spec["controls"]]
    df, no = Fraction(spec["df"]), Fraction(spec["notional"])
    by_draw = _exact_controls(spec, spec)[j]                    # [draw][control]
    ctab = [[by_draw[dr][c] / lx[c] for c in range(ncv)] for dr in range(n)]
    ytab = [df * no * max(Fraction(x) - Fraction(spec["strikes"][j]), Fraction(0)) / ly for x in spec["paths"]]
    xn = [[Fraction(float(obs["X"][i, c, j])) / lx[c] for c in range(ncv)] for i in range(n)]
    yn = [Fraction(float(v)) / ly for v in obs["rows"][:, j]]
    cert = c07_exact.lstsq_certificate(xn, yn)
    if cert["kind"] == "guard":
        cls = "guard (b = 0)"
    elif cert["rank"] < ncv:
        cls = f"collinear (rank {cert['rank']} < {ncv})"
    elif cert["rel_det"] < Fraction(1, 10 ** 9):
        return None, "nearly singular (0 < |det| < 1e-9 prod diag)"
    else:
        cls = "full rank"
    if cls.startswith("collinear") and _null_shift(xn, yn, [Fraction(spec['prices_used'][c][j]) / lx[c] for c in range(ncv)],
                                                   [Fraction(float(v)) / ly for v in obs['adj'][:, j]], cert["b"]):
        return None, "collinear, lstsq saw full rank"
    q = lambda l: lst([qlit(v) for v in l])                     # noqa
    qq = lambda a: lst([q(r) for r in a])                       # noqa
    return (f"({natlit(ncv)}, {lst([natlit(k) for k in sigma])}, {qq(ctab)}, {q(ytab)}, "
            f"{q([Fraction(spec['prices_used'][c][j]) / lx[c] for c in range(ncv)])}, "
            f"({qq(xn)}, {q(yn)}, {q([Fraction(float(v)) / ly for v in obs['adj'][:, j]])}), {q(cert['b'])}, {q(cert['w'])})"), cls


def correspond_mpcv(res, rng):
    n_items = 30 if res.tier == "quick" else 60
    cases, full_cases = [], []
    for i in range(n_items):
        spec = gen_mpcv(rng, res.tier, i)
        viol, sigma, perm, obs = run_mpcv(spec)
        n, d, ncv = spec["n"], spec["d"], spec["ncv"]
        label = "None (one per CPU)" if spec["nproc"] is None else str(spec["nproc"])
        res.count(("mpcv", json.dumps(_payload(spec), sort_keys=True)), nontrivial=spec["nproc"] != 1,
                  kind=f"control variates, loop nb_of_processes={label}")
        res.bump("cv_runs_by_nb_of_processes", f"nb_of_processes={label}, {ncv} control(s)")
        for what, det in viol:
            res.violation(what, _payload(spec, **det))
        if sigma is None:
            continue
        if spec["nproc"] != 1:
            res.bump("cv_pool_assignment_sigma", f"nb_of_processes={label}: " + ("identity" if sigma == list(range(n)) else "a non-trivial permutation"))
            POOL_SIGMA[sigma != list(range(n))] += 1
        o = dict(obs)
        full_cases.append(_full_case(spec, o, sigma))
        for j in range(d):
            c, cls = _mpcv_case(spec, obs, sigma, j)
            if c is None:
                res.bump("mpcv_components_not_replayed", f"k={ncv} {cls}")
                continue
            res.bump("mpcv_cases (control variates in the loop branch)", f"nb_of_processes={label} k={ncv} {cls}")
            cases.append(c)
    if not cases or not full_cases:
        res.broke("correspondence mpcv", "the group has no case: nothing would be compared (generator or driver problem)")
        return
    hdr = HEADER.replace("Model.McStdFull.", "Model.McStdFull Model.McStdCv.")
    bad, nsh = parallel_coq_bad(PROP, "mpcv", hdr, "mpcv_case", "corr_mpcv tol6", cases, shard=12 if res.tier == "quick" else 20, timeout=900, jobs=12)
    res.case_lemmas += nsh
    if bad:
        res.broke("correspondence mpcv", f"model (payoff and control tables written by the loop / the pool callback, then the specification of b*) and "
                                         f"implementation differ on {len(bad)} components, first: {cases[bad[0]][:1500]}")
    else:
        res.case_ok += nsh
    bad, nsh = parallel_coq_bad(PROP, "mpcvfull", HEADER, "full_case", "corr_full tol", full_cases, shard=15 if res.tier == "quick" else 50, timeout=900, jobs=12)
    res.case_lemmas += nsh
    if bad:
        res.broke("correspondence mpcv-full", f"model (loop branches, raw statistics) and implementation differ on {len(bad)} pricings with control "
                                              f"variates, first: {full_cases[bad[0]][:1500]}")
    else:
        res.case_ok += nsh


def _real_process_pool_probe(res):
    """audit5a A5: the hypothesis `sigma permutes the draws` of C07_multiprocess_same_statistics / C07_cv_multiprocess_same is a
    statement about SIMULATED PATHS.  On the scripted shared-counter process every worker call is a new draw, so it holds and is
    checked.  On a REAL fixed-date process it does not describe the run: every chunk of map_async unpickles its own copy of the
    pre-drawn Brownian increments (known finding F-C08-3 of property C08), so the pool's 64 `paths` are few distinct paths repeated
    and mc_stddev() is reported as for 64 independent ones.  One such run is made here and its multiplicities RECORDED (observation:
    the defect is C08's, not a C07 violation -- each stored row is still one call of simulate_one_path, used once)."""
    from rpylib.montecarlo.standard.engine import Engine
    from rpylib.montecarlo.configuration import ConfigurationStandard
    from rpylib.process.levyprocess import LevyProcess
    from rpylib.model.levymodel.mixed.blackscholes import BlackScholesModel, BlackScholesParameters
    from mcscript import make_product, WarningCatcher
    model = BlackScholesModel(spot=1.0, r=0.0, d=0.0, parameters=BlackScholesParameters(sigma=0.2))
    eng = Engine(ConfigurationStandard(mc_paths=64, nb_of_processes=2, seed=None, activate_spot_statistics=True), LevyProcess(model))
    with WarningCatcher(), np.errstate(all="ignore"), warnings.catch_warnings():
        warnings.simplefilter("ignore")
        st = eng.price(make_product(notional=1.0, dimension=1, fun=lambda x: max(x - 1.0, 0.0)))
        sp = np.array(st._spot_underlying_statistics.stats)[:, 0]
    _, cnt = np.unique(sp, return_counts=True)
    res.count(("real-pool-probe",), nontrivial=False, kind="real Black-Scholes LevyProcess, nb_of_processes=2 (observation)")
    res.bump("real_process_pool_probe (BlackScholes LevyProcess, 64 paths, 2 workers): distinct spot values",
             f"{len(cnt)} distinct of {len(sp)}" + (" -- draws repeated across chunks: F-C08-3 (property C08), the permutation hypothesis does not "
                                                   "describe this run" if len(cnt) < len(sp) else " -- all distinct"))


def matches_known(v, known):
    """C07 has no finding with status `known` (F-C07-1..6 are all fixed in /repo): nothing is absorbed.  F-C07-6 was absorbed here, by
    re-running the real code on the replay's n / d / paths, until its repair 380d7c7."""
    return False


def search(res):
    rng = random.Random(res.seed + 1)
    for i in range(3000):
        specs = gen_sequence(rng, "quick") if i % 2 else [gen_spec(rng, "quick")]
        for k, (spec, obs) in enumerate(zip(specs, run_sequence(specs))):
            v = oracle(spec, obs)
            if v:
                res.violation(v[0][0], _seq_payload(specs[:k + 1], k, **v[0][1]) if len(specs) > 1 else _payload(spec, **v[0][1]))
                return


SPEC_KEYS = ("tight", "kind", "n", "d", "ncv", "vector_form", "strikes", "paths", "df", "notional", "controls", "price_mode", "scalar_prices", "spot_stats",
             "prices_raw", "seq_step")


def replay(path):
    data = json.load(open(path))
    print(json.dumps(data, indent=1)[:3000])
    if data.get("kind") == "standard":
        specs = [{k: data[k] for k in SPEC_KEYS if k in data}]
    elif data.get("kind") == "full":
        spec = {k: data[k] for k in SPEC_KEYS + ("nproc",) if k in data}
        obs = run_full(spec)
        viol, sigma = oracle_full(spec, obs)
        print(f"nb_of_processes {spec['nproc']}, configured paths {spec['n']}, price() {obs['price_raw']}, mc_stddev() {obs['err_raw']}, sigma {sigma}")
        for what, det in viol:
            print("VIOLATED:", what, det)
        return 1 if viol else 0
    elif data.get("kind") == "mpcv":
        spec = {k: data[k] for k in SPEC_KEYS + ("nproc",) if k in data}
        viol, sigma, _, obs = run_mpcv(spec)
        print(f"nb_of_processes {spec['nproc']}, configured paths {spec['n']}, controls {spec['ncv']}, price() {obs['price']}, raw {obs['price_raw']}, sigma {sigma}")
        for what, det in viol:
            print("VIOLATED:", what, det)
        return 1 if viol else 0
    elif data.get("kind") == "sequence":
        specs = [{k: sp[k] for k in SPEC_KEYS if k in sp} for sp in data["sequence"]]
    else:
        print("replay: re-run ./check C07")
        return 1
    rc = 0
    for k, (spec, obs) in enumerate(zip(specs, run_sequence(specs))):
        print(f"pricing {k}: configured paths {spec['n']}, rows in statistics {len(obs['rows'])}, price() {obs['price']}, raw {obs['price_raw']}, "
              f"mc_stddev() {obs['err']}")
        for what, det in oracle(spec, obs):
            print("VIOLATED:", what, det)
            rc = 1
    return rc

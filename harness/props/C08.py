"""C08 -- randomness discipline: seeded runs repeat; no two samples share random variates.

Tie between Model/Rng.v and the implementation: RNG tracing (harness/rngtrace.py).  Both engines are
run on small real models (HEM / Merton, exact Levy simulation and CTMC schemes, fixed-date and
jump-time modes, 1 and 3 product dates) with nb_of_processes = 1 and, through real pathos pools,
2 and 4; the logged trace (seed calls, every draw with its abstract positions, deque creations, every
popleft with its row tag, sample boundaries) and the positions used by every sample must equal what
the Coq model computes for the same configuration and schedule (vm_compute, coq_bad_indices).
Oracle (implementation only): bit-for-bit equality of two seeded runs, duplicated sample values in
the statistics, generator states that recur after having produced variates, rows popped twice.
"""
import json
import os
import random
from pathlib import Path

from common import BUILD, CoqError, blit, coq_bad_indices, lst, opt, zlit

PROP = "C08"
PROPERTY_FILE = "Properties/C08.v"
GEN_DEPS = []
RULE = ("one case = one engine run (standard / multilevel constant / multilevel adaptive / standard with a worker pool) on a "
        "real model; configurations: seed in {None, 0, k}, fixed-date (1 or 3 dates) and jump-time mode, exact Levy and CTMC "
        "processes, scripted level/pass histories; non-trivial = at least 2 samples, at least one fresh draw, and (fixed-date "
        "mode) at least 2 pre-drawn rows popped")
MODELLED = ["numpy's global generator and Python's random: abstract position spaces (stream, seed id, index); statistical "
            "independence of distinct positions of MT19937 is assumed, not proved",
            "collections.deque (popleft from a list), copy.deepcopy and dill pickling of the process object (copy of both deques "
            "with their rows), pathos Pool (fork; per-worker initializer; every chunk unpickles a fresh copy of the bound method's "
            "process) -- tied by traces of real pools",
            "the data-dependent number of fresh variates of a sample and the level/pass history are explicit parameters "
            "(the theorems quantify over all of them); the correspondence feeds the observed ones to the model"]
ASSUMPTIONS = ["a run starts from price()/price_with_constant_mc_paths_and_level(); rows left in the deques by an earlier run are "
               "never popped because pre_computation replaces both deques before the first pop (monitored: every popped tag must "
               "belong to a deque created during the traced run)",
               "equal positions of a seeded generator carry equal values, so equal position traces mean equal results for the "
               "deterministic samplers (monitored: two seeded runs are compared bit for bit on the implementation)"]
THEOREM_NOTES = {
    "C08_single_process_disjoint": "all three single-process entry points (standard price, multilevel price and "
        "price_with_constant_mc_paths_and_level), every seed option, clock value, mode, number of dates/dimension, every schedule "
        "and level/pass history: NoDup of all positions consumed, NoDup of the popped row tags, no re-seeding",
    "C08_rows_exactly_once": "standard engine and constant multilevel run: created rows = popped rows, deques empty at the end, "
        "no underflow.  The adaptive multilevel price() pre-draws rows it never uses (initialisation(), next_level()): consumed "
        "zero times, see C08_adaptive_price_wastes_rows; harmless for independence, not reported as a finding",
    "C08_workers_share_rows_refuted": "finding F-C08-3 on the delivered tree (design of the pool)",
    "C08_preseed_draws_refuted": "tree before the fix: commits (F-C08-1), kept as the witness of the fix",
    "C08_reseed_per_level_refuted": "tree before the fix: commits (F-C08-2)",
    "C08_seed_zero_refuted": "tree before the fix: commits (F-C08-4)",
}
LEVEL_TEXT = ("Proof: Coq theorems (closed under the global context) about an executable model of the generators (abstract "
              "positions), the pre-drawn deques and the instruction sequences of both engines: for nb_of_processes = 1, every "
              "seed option, mode, schedule and level/pass history, all samples use pairwise disjoint variates, no pre-drawn row "
              "is popped twice, the generator is seeded exactly once before the first draw, and a seeded run has a position "
              "trace independent of the ambient generator state. The model is tied to the code by RNG tracing of real runs "
              "(including real pathos pools) compared event by event inside Coq. For worker pools the property is refuted "
              "(every chunk re-uses the same pre-drawn rows): theorem + KNOWN finding F-C08-3.")
LEVEL_NOTE = ("Trusted: Coq kernel + vm_compute; the tracing harness (monkey-patched numpy.random / random / deque / Pool); the "
              "abstraction of MT19937 as a position space; schedules and histories are explicit parameters, not derived from values.")
TECHNIQUE = "Coq proof (invariant over instruction lists, NoDup via count_occ) + RNG-trace correspondence by vm_compute + implementation oracle"

M = 123456789
_ENV = {}


class FakeTime:
    """stands in for the `time` module inside rpylib.montecarlo.configuration (source of nondeterminism)"""

    def __init__(self, values):
        self.values = list(values)
        self.calls = 0

    def time(self):
        v = self.values[min(self.calls, len(self.values) - 1)]
        self.calls += 1
        return float(v)


def env():
    if _ENV:
        return _ENV
    import numpy as np
    import rngtrace
    from rpylib.model.utils import create_exponential_of_levy_model, ModelType
    from rpylib.product.payoff import Forward, CDS
    from rpylib.product.product import Product
    from rpylib.product.underlying import Spot, DefaultTime
    from rpylib.grid.time import TimeGrid
    import rpylib.montecarlo.configuration as CFG

    rngtrace.TR.install()

    class SpotAtDates(Spot):
        """Spot at maturity, observed on a product grid with several dates (drives the multi-date fixed mode)"""

        def __init__(self, num):
            self.num = num

        def compute_times_grid(self, maturity):
            return TimeGrid(start=0.0, end=maturity, num=self.num)

    def product(kind):
        if kind == "fwd1":
            return Product(payoff_underlying=Spot(), payoff=Forward(strike=100.0), maturity=0.25)
        if kind == "fwd3":
            return Product(payoff_underlying=SpotAtDates(4), payoff=Forward(strike=100.0), maturity=0.75)
        if kind == "cds":
            df = lambda t: np.exp(-0.02 * t)  # noqa: E731
            return Product(payoff_underlying=DefaultTime(default_level=-0.05),
                           payoff=CDS(recovery_rate=0.4, spread=0.01, maturity=0.5, discounting=df), maturity=0.5)
        raise ValueError(kind)

    def model(name):
        return create_exponential_of_levy_model({"hem": ModelType.HEM, "merton": ModelType.MERTON}[name])()

    _ENV.update(np=np, TR=rngtrace.TR, rt=rngtrace, product=product, model=model, CFG=CFG,
                real_time=CFG.time, logdir=BUILD / PROP / "wlogs")
    return _ENV


MODE = {"fwd1": (True, 1), "fwd3": (True, 3), "cds": (False, 1)}


def set_ambient(E, rng):
    """arbitrary ambient generator state before the run (tracer inactive: not part of the run)"""
    E["np"].random.seed(rng.randrange(1, 2 ** 31))
    E["np"].random.random_sample(rng.randrange(0, 5))
    random.seed(rng.randrange(1, 2 ** 31))


def make_process(E, proc, model_name):
    from rpylib.process.levyprocess import LevyProcess
    from rpylib.process.markovchain.markovchain import MarkovChainProcess
    from rpylib.distribution.sampling import SamplingMethod
    from rpylib.grid.spatial import CTMCUniformGrid
    mdl = E["model"](model_name)
    if proc == "levy":
        return LevyProcess(mdl)
    meth = {"inv": SamplingMethod.INVERSION, "bst1d": SamplingMethod.BINARYSEARCHTREEADAPTED1D}[proc]
    return MarkovChainProcess(mdl, meth, CTMCUniformGrid(h=0.1, model=mdl))


def run_std(E, cfg, rng):
    """cfg: dict(engine='std', prod, model, proc, n, seed, nproc, T)"""
    from rpylib.montecarlo.configuration import ConfigurationStandard
    from rpylib.montecarlo.standard.engine import Engine
    np, TR = E["np"], E["TR"]
    conf = ConfigurationStandard(mc_paths=cfg["n"], seed=cfg["seed"], nb_of_processes=cfg["nproc"])
    eng = Engine(conf, make_process(E, cfg["proc"], cfg["model"]))
    E["CFG"].time = FakeTime([cfg["T"]])
    set_ambient(E, rng)
    TR.start(E["logdir"])
    try:
        st = eng.price(E["product"](cfg["prod"]))
    finally:
        evs = TR.stop()
        E["CFG"].time = E["real_time"]
    vals = [np.ravel(st._payoff_statistics.stats).tolist()]
    return evs, TR.collect_workers() if cfg["nproc"] != 1 else {}, vals, float(np.ravel(st.price())[0])


class Script:
    """scripted ConvergenceCriteria: returns the listed allocations / verdicts and records the calls"""

    def __init__(self, ns, verdicts):
        self.ns, self.verdicts, self.calls = list(ns), list(verdicts), []

    def compute_mc_paths(self, rmse, vl, cl):
        import numpy as np
        want = self.ns.pop(0)
        out = np.array([want[min(i, len(want) - 1)] for i in range(len(vl))], dtype=int)
        self.calls.append(("ns", len(vl)))
        return out

    def criteria(self, alpha, ml, rmse):
        v = self.verdicts.pop(0) if self.verdicts else True
        self.calls.append(("crit", v))
        return v


def run_ml(E, cfg, rng):
    """cfg: dict(engine='mlc'|'mlp', prod, model, proc, n0, L0, Lmax, seed, nproc, T, [ns, verdicts])"""
    from rpylib.montecarlo.configuration import ConfigurationMultiLevel, ConvergenceRates
    from rpylib.montecarlo.multilevel.engine import Engine
    from rpylib.montecarlo.multilevel.criteria import ConvergenceCriteria
    from rpylib.process.coupling.couplingmarkovchain import CouplingMarkovChain
    from rpylib.distribution.sampling import SamplingMethod
    from rpylib.grid.spatial import CTMCUniformGrid
    np, TR = E["np"], E["TR"]
    mdl = E["model"](cfg["model"])
    meth = {"inv": SamplingMethod.INVERSION, "bst1d": SamplingMethod.BINARYSEARCHTREEADAPTED1D}[cfg["proc"]]
    cp = CouplingMarkovChain(model=mdl, method=meth, grid=CTMCUniformGrid(h=0.1, model=mdl))
    script = Script(cfg.get("ns", []), cfg.get("verdicts", []))
    conf = ConfigurationMultiLevel(convergence_rates=ConvergenceRates(1.0, 1.0, 1.0),
                                   convergence_criteria=ConvergenceCriteria(script.criteria, script.compute_mc_paths),
                                   initial_level=cfg["L0"], maximum_level=cfg["Lmax"], initial_mc_paths=cfg["n0"],
                                   seed=cfg["seed"], nb_of_processes=cfg["nproc"])
    eng = Engine(conf, cp)
    E["CFG"].time = FakeTime(cfg["T"] if isinstance(cfg["T"], list) else [cfg["T"]])
    set_ambient(E, rng)
    TR.start(E["logdir"])
    try:
        with np.errstate(all="ignore"):
            if cfg["engine"] == "mlc":
                st = eng.price_with_constant_mc_paths_and_level(E["product"](cfg["prod"]))
            else:
                st = eng.price(E["product"](cfg["prod"]), 0.1)
    finally:
        evs = TR.stop()
        E["CFG"].time = E["real_time"]
    vals = [np.asarray(s._payoff_statistics.stats)[..., 0].reshape(len(s._payoff_statistics.stats), -1)[:, 0].tolist()
            for s in st.mc_statistics]
    return evs, TR.collect_workers() if cfg["nproc"] != 1 else {}, vals, float(np.ravel(st.price())[0]), script


# ----------------------------------------------------------------------------------------- Coq literals
def sched_lit(sc):
    return lst([f"({blit(st == 1)}, {zlit(k)})" for st, k in sc])


def mode_lit(cfg, dim=1):
    fixed, nb = MODE[cfg["prod"]]
    return f"(mkMode {blit(fixed)} {zlit(nb)} {zlit(dim)})"


def zll(rows):
    return lst([lst([zlit(v) for v in r]) for r in rows])


def enc_samples(samples, default_lvl=-1):
    out = []
    for s in samples:
        r = [default_lvl if s["lvl"] is None else s["lvl"]]
        for (st, sid, i) in s["pos"]:
            r += [st, sid, i]
        out.append(r)
    return out


def expected_lit(can, default_lvl=-1):
    evs = [[(default_lvl if v is None else v) for v in e] for e in can.events]
    return f"({zll(evs)}, {zll(enc_samples(can.samples, default_lvl))})"


def predicted_t(T, pid=None):
    return ((os.getpid() if pid is None else pid) * int(T)) % M


HEADER = """From Coq Require Import ZArith List Bool.
From RV Require Import Base.Corr Model.Rng.
Import ListNotations.
Open Scope Z_scope.
Definition amb := init (mkGen (-1) 0 0).
Definition chk (ops : list op) (ex : list (list Z) * list (list Z)) : bool :=
  let '(es, ss, _) := run ops amb in
  list_eqb zlist_eqb (map enc_ev es) (fst ex) && list_eqb zlist_eqb (map enc_sample ss) (snd ex).
Definition chk_pool (r : list ev * list (list ev) * list sample) (ex : list (list Z) * list (list (list Z)) * list (list Z)) : bool :=
  let '(pe, logs, ss) := r in let '(xpe, xlogs, xss) := ex in
  list_eqb zlist_eqb (map enc_ev pe) xpe && list_eqb (list_eqb zlist_eqb) (map (map enc_ev) logs) xlogs
  && list_eqb zlist_eqb (map enc_sample ss) xss.
"""


# ----------------------------------------------------------------------------------------- oracle
def oracle(res, cfg, can, workers, vals, continuous):
    """implementation-only checks on one traced run; reports through res.violation"""
    def viol(what, finding, **kw):
        rep = {"finding": finding, "config": {k: v for k, v in cfg.items() if k not in ("ns", "verdicts")}}
        if "ns" in cfg:
            rep["config"]["ns"], rep["config"]["verdicts"] = cfg["ns"], cfg["verdicts"]
        rep.update(kw)
        res.violation(what, rep)

    multi = cfg["nproc"] != 1
    logs = [("parent", can)] + [(f"worker{pid}", w) for pid, w in workers.items()]
    # rows consumed more than once / rows of a deque that was not created in this run
    seen = {}
    for who, c in logs:
        for k, s in enumerate(c.samples):
            for tg in s["rows"]:
                if tg[0] == 0 or tg[1] < 0:
                    viol("a row popped does not belong to a deque created during the run", "F-C08-5", who=who, sample=k, tag=list(tg))
                seen.setdefault(tg, []).append((who, k, s.get("it")))
    dup = {tg: v for tg, v in seen.items() if len(v) > 1}
    if dup:
        tg = sorted(dup)[0]
        viol("a pre-drawn row is consumed by more than one sample" + (" (worker processes pop copies of the same deque)" if multi else ""),
             "F-C08-3" if multi else "F-C08-6", tag=list(tg), consumers=[list(map(str, x)) for x in dup[tg]][:6], rows_shared=len(dup))
    # generator states that recur after having produced variates
    for kind in ("np", "py"):
        first = {}
        for who, c in logs:
            for j, (k, h, why) in enumerate(c.hashes):
                if k != kind:
                    continue
                if h in first and first[h] != (who, j):
                    viol(f"the {'numpy' if kind == 'np' else 'python'} generator returns to a state it has already been in "
                         f"({'re-seeded with the same value' if why == 'seed' else 'same state in two processes'})",
                         "F-C08-2" if not multi else "F-C08-7", first=list(map(str, first[h])), again=[who, j], after=why)
                    break
                first.setdefault(h, (who, j))
            else:
                continue
            break
    # samples sharing abstract positions (harness bookkeeping of the real calls)
    used = {}
    for who, c in logs:
        for k, s in enumerate(c.samples):
            for p in s["pos"]:
                if p in used and used[p] != (who, k):
                    viol("two samples are generated from the same variate", "F-C08-3" if multi else "F-C08-2",
                         position=list(p), samples=[list(map(str, used[p])), [who, k]])
                    break
                used[p] = (who, k)
            else:
                continue
            break
    # duplicated sample values in the statistics (continuous payoffs only)
    if continuous:
        for lvl, vs in enumerate(vals):
            nz = [v for v in vs]
            d = {}
            for i, v in enumerate(nz):
                d.setdefault(v, []).append(i)
            rep = {v: ix for v, ix in d.items() if len(ix) > 1}
            if rep:
                v = sorted(rep, key=lambda x: -len(rep[x]))[0]
                viol("identical sample values stored in the statistics of one level", "F-C08-3" if multi else "F-C08-2",
                     level=lvl, value=v, indices=rep[v][:8], distinct_values=len(d), samples=len(nz))
    # seeding discipline of a single-process run: exactly one seed, before the first draw
    if not multi:
        want = cfg["seed"] if cfg["seed"] is not None else predicted_t(cfg["T"][0] if isinstance(cfg["T"], list) else cfg["T"])
        if can.seeds != [want]:
            f = "F-C08-4" if cfg["seed"] == 0 and can.seeds and can.seeds[0] != 0 else "F-C08-2"
            viol("single-process run: the generators are not seeded exactly once with the configured seed", f,
                 seed_calls=can.seeds[:8], expected=[want])
        first_draw = next((i for i, e in enumerate(can.events) if e[0] == 1), None)
        first_seed = next((i for i, e in enumerate(can.events) if e[0] == 0), None)
        if first_draw is not None and (first_seed is None or first_seed > first_draw):
            viol("variates are drawn before the seed is applied", "F-C08-1", first_draw_event=first_draw, first_seed_event=first_seed)


def repeat_oracle(res, E, cfg, runner, rng):
    """two runs with the same seed from different ambient states must agree bit for bit"""
    out = []
    for _ in range(2):
        r = runner(E, cfg, rng)
        out.append((r[2], r[3]))
    if out[0] != out[1]:
        f = "F-C08-4" if cfg["seed"] == 0 else ("F-C08-1" if cfg["engine"] == "std" else "F-C08-2")
        res.violation("two single-process runs with the same seed give different results", {
            "finding": f, "kind": "repeat", "config": dict(cfg), "price_1": out[0][1], "price_2": out[1][1]})
    return out[0] == out[1]


# ----------------------------------------------------------------------------------------- case construction
def split_levels(can, nlev=None):
    """samples grouped by consecutive level"""
    groups = []
    for s in can.samples:
        if groups and groups[-1][0] == s["lvl"]:
            groups[-1][1].append(s)
        else:
            groups.append((s["lvl"], [s]))
    return groups


def std_case(cfg, can):
    t = predicted_t(cfg["T"])
    ss = lst([sched_lit(s["sched"]) for s in can.samples])
    return f"(({opt(cfg['seed'], zlit)}, {zlit(t)}, {mode_lit(cfg)}, {ss}), {expected_lit(can)})"


def mlc_case(cfg, can):
    t = predicted_t(cfg["T"])
    nlev = cfg["Lmax"] + 1
    per = [[] for _ in range(nlev)]
    for s in can.samples:
        per[s["lvl"]].append(s["sched"])
    levels = lst([lst([sched_lit(sc) for sc in lv]) for lv in per])
    return f"(({opt(cfg['seed'], zlit)}, {zlit(t)}, {mode_lit(cfg)}, {zlit(cfg['n0'])}, {levels}), {expected_lit(can)})"


def mlp_case(cfg, can, script, pre_ns):
    """history from the engine's own control flow: passes end at every compute_mc_paths call of the loop"""
    t = predicted_t(cfg["T"])
    L = cfg["L0"]
    samples = list(can.samples)
    passes = []
    calls = list(script.calls)
    pos = 0
    ci = 0
    while ci < len(calls):
        assert calls[ci] == ("ns", L + 1), (calls, ci, L)
        ci += 1
        levels = []
        for lvl in range(L + 1):
            cur = []
            while pos < len(samples) and samples[pos]["lvl"] == lvl and (not cur or samples[pos]["idx"] == cur_last + 1):
                cur.append(samples[pos]["sched"])
                cur_last = samples[pos]["idx"]
                pos += 1
            levels.append(cur)
        add = None
        if ci < len(calls) and calls[ci][0] == "crit":
            verdict = calls[ci][1]
            ci += 1
            if not verdict and ci < len(calls) and calls[ci] == ("ns", L + 2):
                ci += 1
                L += 1
                add = "?"
        passes.append([levels, add])
    # the number of rows pre-drawn by next_level when a level is added: observed pre_computation argument
    adds = [p for p in passes if p[1] == "?"]
    return passes, adds, t


def correspond(res):
    E = env()
    rng = random.Random(res.seed)
    tier = res.tier
    rt = E["rt"]
    groups = {"std": [], "mlc": [], "mlp": [], "pool": []}
    info = {"std": [], "mlc": [], "mlp": [], "pool": []}

    def note_problems(cfg, can, who="parent"):
        for p in can.problems:
            res.broke("correspondence trace well-formedness", f"{p} [{who}] config={cfg}")

    # ------------------------------------------------------------------ standard engine, one process
    std_cfgs = []
    seeds = [None, 0, 7, rng.randrange(1, 2 ** 31)]
    for prod in ("fwd1", "fwd3", "cds"):
        for model, proc in (("hem", "levy"), ("merton", "levy"), ("hem", "inv"), ("merton", "bst1d")):
            for seed in seeds:
                std_cfgs.append(dict(engine="std", prod=prod, model=model, proc=proc, n=rng.choice([1, 2, 3, 5, 6]), seed=seed,
                                     nproc=1, T=rng.randrange(10 ** 9, 2 * 10 ** 9)))
    std_cfgs.append(dict(engine="std", prod="fwd1", model="hem", proc="levy", n=0, seed=5, nproc=1, T=1700000000))
    if tier == "quick":
        std_cfgs = std_cfgs[::2] + std_cfgs[1::8]
    else:
        std_cfgs = std_cfgs * 3
    for cfg in std_cfgs:
        evs, _, vals, price = run_std(E, cfg, rng)
        can = rt.canonical(evs)
        note_problems(cfg, can)
        fixed = MODE[cfg["prod"]][0]
        nt = len(can.samples) >= 2 and any(k > 0 for s in can.samples for _, k in s["sched"]) and (not fixed or len(can.samples) >= 2)
        res.count(("std", tuple(sorted((k, str(v)) for k, v in cfg.items())), len(can.events)), nontrivial=nt, kind=f"std/{cfg['prod']}/{cfg['proc']}")
        res.bump("seed_kind", "None" if cfg["seed"] is None else ("0" if cfg["seed"] == 0 else "k"))
        res.bump("samples_per_run", len(can.samples))
        oracle(res, cfg, can, {}, vals, continuous=cfg["prod"] != "cds")
        groups["std"].append(std_case(cfg, can))
        info["std"].append(cfg)
    for cfg in [c for c in std_cfgs if c["seed"] is not None][:: (3 if tier == "quick" else 1)]:
        repeat_oracle(res, E, cfg, run_std, rng)
        res.count(("repeat", str(cfg)), kind="repeat/std")

    # ------------------------------------------------------------------ multilevel engine, constant paths and levels
    mlc_cfgs = []
    for prod in ("fwd1", "fwd3", "cds"):
        for model, proc in (("hem", "inv"), ("merton", "bst1d")):
            for seed in (None, 0, 11):
                mlc_cfgs.append(dict(engine="mlc", prod=prod, model=model, proc=proc, n0=rng.choice([1, 2, 3]), L0=1,
                                     Lmax=rng.choice([1, 2, 3]), seed=seed, nproc=1, T=rng.randrange(10 ** 9, 2 * 10 ** 9)))
    if tier == "quick":
        mlc_cfgs = mlc_cfgs[::2]
    for cfg in mlc_cfgs:
        evs, _, vals, price, _ = run_ml(E, cfg, rng)
        can = rt.canonical(evs)
        note_problems(cfg, can)
        nt = len(can.samples) >= 2 and any(k > 0 for s in can.samples for _, k in s["sched"])
        res.count(("mlc", str(cfg), len(can.events)), nontrivial=nt, kind=f"mlc/{cfg['prod']}/{cfg['proc']}")
        res.bump("levels", cfg["Lmax"] + 1)
        oracle(res, cfg, can, {}, vals, continuous=False)
        groups["mlc"].append(mlc_case(cfg, can))
        info["mlc"].append(cfg)
    for cfg in [c for c in mlc_cfgs if c["seed"] is not None][:: (2 if tier == "quick" else 1)]:
        repeat_oracle(res, E, cfg, run_ml, rng)
        res.count(("repeat", str(cfg)), kind="repeat/mlc")

    # ------------------------------------------------------------------ Coq side
    groups_coq = []
    if groups["std"]:
        groups_coq.append(("std", "(option Z * Z * mode * list sched) * (list (list Z) * list (list Z))",
                           "fun c => let '(sd, t, m, ss, ex) := c in chk (std_ops sd t m ss) ex", groups["std"]))
    if groups["mlc"]:
        groups_coq.append(("mlc", "(option Z * Z * mode * Z * list (list sched)) * (list (list Z) * list (list Z))",
                           "fun c => let '(sd, t, m, n0, lv, ex) := c in chk (mlc_ops sd t m n0 lv) ex", groups["mlc"]))
    res.case_lemmas += len(groups_coq)
    bad = coq_bad_indices(PROP, "cases", HEADER, groups_coq, timeout=900)
    for g, ty, chk, cases in groups_coq:
        if bad[g]:
            i = bad[g][0]
            res.broke(f"correspondence {g}", f"model trace and implementation trace differ on {len(bad[g])} run(s), first: "
                                             f"config={info[g][i]} case={cases[i][:1500]}")
        else:
            res.case_ok += 1

"""C08 -- randomness discipline: seeded runs repeat; no two samples share random variates.

Tie between Model/Rng.v and the implementation: RNG tracing (harness/rngtrace.py).  Both engines are
run on small real models (HEM / Merton, exact Levy simulation and CTMC schemes, fixed-date and
jump-time modes, 1 and 3 product dates) with nb_of_processes = 1 and, through real pathos pools,
2 and 4; the logged trace (seed calls, every draw with its abstract positions, deque creations, every
popleft with its row tag, sample boundaries) and the positions used by every sample must equal what
the Coq model computes for the same configuration and schedule (vm_compute, coq_bad_indices).
Oracle (implementation only): bit-for-bit equality of two seeded runs, duplicated sample values in
the statistics, generator states that recur after having produced variates, rows popped twice, and the
uniform really compared by every coupling decision (probe standing for the probability in `u < p`)
must be pairwise distinct over all samples, levels and passes.
"""
import json
import os
import random
from common import BUILD, blit, coq_bad_indices, lst, opt, zlit

PROP = "C08"
PROPERTY_FILE = "Properties/C08.v"
GEN_DEPS = []
RULE = ("one case = one engine run (standard / multilevel constant / multilevel adaptive / standard with a worker pool) on a "
        "real model; configurations: seed in {None, 0, k}, fixed-date (1 or 3 dates) and jump-time mode, exact Levy, 1-d CTMC with "
        "every sampler (ALIAS, TABLE = Python random stream, BST, HUFFMAN, INVERSION, BST-adapted) and 2-d copula CTMC "
        "processes, pools at random clock values and at now = 13*123456789, scripted level/pass histories (incl. levels deep-copied from a level that has already simulated, both "
        "simulating again afterwards); non-trivial = at least 2 samples, at least one fresh draw, and (fixed-date "
        "mode) at least 2 pre-drawn rows popped")
MODELLED = ["numpy's global generator and Python's random: abstract position spaces (stream, seed id, index); statistical "
            "independence of distinct positions of MT19937 is assumed, not proved",
            "collections.deque (popleft from a list), copy.deepcopy and dill pickling of the process object (copy of both deques "
            "with their rows), pathos Pool (fork; per-worker initializer; every chunk unpickles a fresh copy of the bound method's "
            "process) -- tied by traces of real pools",
            "the data-dependent number of fresh variates of a sample and the level/pass history are explicit parameters "
            "(the theorems quantify over all of them); the correspondence feeds the observed ones to the model"]
ASSUMPTIONS = ["a run starts from price()/price_with_constant_mc_paths_and_level(); rows left in the deques by an earlier run are "
               "never popped because pre_computation replaces both deques before the first pop (monitored: every popped tag must "
               "belong to a deque created during the traced run)",
               "equal positions of a seeded generator carry equal values, so equal position traces mean equal results for the "
               "deterministic samplers (monitored: two seeded runs are compared bit for bit on the implementation)"]
THEOREM_NOTES = {
    "C08_single_process_disjoint": "all three single-process entry points (standard price, multilevel price and "
        "price_with_constant_mc_paths_and_level), every seed option, clock value, mode, number of dates/dimension, every schedule "
        "and level/pass history, every ambient generator state: NoDup of all positions consumed, NoDup of the popped row tags "
        "(= every row at most once), exactly one seed event (first), no re-seeding, pairwise different positions compared by the "
        "coupling decisions.  Model follows the tree with the fix: commits of branches fix-rng and fix-rng2",
    "C08_no_underflow": "no popleft on an empty deque (IndexError in Python): unconditional for the standard engine and the "
        "adaptive price(); for the constant multilevel run under the hypothesis that every level simulates n0 samples (the "
        "model lets the history list fewer or more; the engine's loops produce exactly n0)",
    "C08_rows_exactly_once": "standard engine and constant multilevel run (fixed-date mode): created rows = popped rows, the deques "
        "used are empty at the end, no underflow.  For the adaptive price() exactly-once is FALSE: "
        "C08_adaptive_price_exactly_once_refuted (finding F-C08-5, known: rows pre-drawn by initialisation() and by next_level() of "
        "an added level are replaced before any pop); at-most-once is clause (2) of C08_single_process_disjoint",
    "C08_seeded_repeatable": "for a GIVEN schedule/history shared by both runs; immediate from the model (first instruction = seed). "
        "Not by itself the 'bit for bit' clause",
    "C08_engines_forget_state": "not definitional: the run starts from an arbitrary state of the process object (any generator "
        "state, deques holding arbitrary leftover rows); equality of events and samples is proved through the discipline lin "
        "(pre_computation replaces the deques before the first pop); C08_leftover_rows_matter_refuted shows an undisciplined "
        "instruction list for which it fails.  Hypothesis: same deque creation counter (the tracer counts from the run's start)",
    "C08_seeded_adaptive_forgets_state": "the same for arbitrary adaptive decisions D taken within the discipline (garun stops at "
        "an instruction that violates it)",
    "C08_pools_jump_mode_disjoint": "successive pools of one run (one per level and pass in the multilevel engine), jump-time "
        "mode: disjointness under NoDup of all (pid, clock) pairs of the run; that the OS does not reuse a pid for two workers "
        "within one second is a hypothesis, not proved; fixed-date pools are refuted anyway (F-C08-3)",
    "C08_std_seeded_repeatable_derived": "standard engine: the schedule is derived by the run from the values (val : position -> "
        "value and nxt : values seen -> next draw are universally quantified); two seeded runs from two ARBITRARY states (leftover "
        "deques included) derive "
        "the same schedule, events and sample values; before the fix they do not (C08_std_derived_orig_refuted).  'Bit for bit' "
        "additionally rests on: the real generators are deterministic functions of (seed, index) and float arithmetic is "
        "deterministic -- monitored by the oracle's two runs per seeded configuration, compared bit for bit",
    "C08_seeded_repeatable_adaptive": "any engine: every instruction after the first is chosen by an arbitrary function D of the "
        "instructions executed and the events (positions, hence values); first instruction = seed => instructions chosen, events "
        "and samples independent of the ambient state; C08_adaptive_run_is_run: an adaptive run is the run of the instructions it "
        "chose.  For the multilevel engines the level/pass history is NOT derived from an allocation model (that is C05/C06): "
        "their 'bit for bit' clause is this theorem plus the oracle's two runs per configuration",
    "C08_pool_jump_mode_disjoint": "worker pool of the standard engine in jump-time mode, every assignment of chunks to workers, "
        "worker seeds seed_of pid now = pid*2^32 + now (fix-rng2): distinct pids suffice (C08_seed_of_distinct).  Before that fix "
        "the seeds were (pid*now) mod 123456789: equal exactly when 123456789 | (p-q)*now (C08_worker_seed_collision_exact), for "
        "all workers at now = k*123456789 (C08_worker_seeds_collide_refuted; replayed on the implementation with the fake clock "
        "at 13*123456789).  That np.random.seed([pid, now]) with different keys gives unrelated MT19937 streams is assumed",
    "C08_workers_share_rows_refuted": "finding F-C08-3 on the delivered tree (design of the pool): fixed-date mode with "
        "nb_of_processes > 1; the multilevel engine builds the same pool in compute_level_l (covered by the oracle with seeded "
        "and unseeded configurations, not modelled in Coq)",
    "C08_preseed_draws_refuted": "tree before the fix: commits (F-C08-1), kept as the machine-checked witness of the fix",
    "C08_reseed_per_level_refuted": "tree before the fix: commits (F-C08-2): seeded, and unseeded with two calls in the same second",
    "C08_seed_zero_refuted": "tree before the fix: commits (F-C08-4)",
    "not_covered": "series-representation processes and antithetic paths (not implemented by create_path) are not traced; the max-step "
        "simulators are reached through harness subclasses that hand max_step_epsilon to the public initialisation() and through "
        "the SDE processes; the coupling decisions of the copula coupling (u <= probability inside __coupling_state) are not "
        "probed; the multilevel engine with a pool is oracle-only; the actual chunking of a pool is whatever the OS schedules "
        "(the theorems quantify over all chunkings, a run observes one)",
}
LEVEL_TEXT = ("Proof: Coq theorems (closed under the global context) about an executable model of the generators (abstract "
              "positions), the pre-drawn deques and the instruction sequences of both engines: for nb_of_processes = 1, every "
              "seed option, mode, schedule and level/pass history, all samples use pairwise disjoint variates, no pre-drawn row "
              "is popped twice, no pop hits an empty deque, the generator is seeded exactly once before the first draw, and a "
              "seeded run (schedule derived from the values for the standard engine, arbitrary adaptive decisions for any engine) "
              "has a trace independent of the ambient generator state. The model is tied to the code by RNG tracing of real runs "
              "(all samplers incl. Python's random stream, 1-d and 2-d processes, real pathos pools) compared event by event inside "
              "Coq. Refuted with known findings: worker pools in fixed-date mode re-use the same pre-drawn rows in every chunk "
              "(F-C08-3); the adaptive price() pre-draws rows it never consumes (F-C08-5). 'Bit for bit' additionally rests on the "
              "oracle's two runs per seeded configuration.")
LEVEL_NOTE = ("Trusted: Coq kernel + vm_compute; the tracing harness (monkey-patched numpy.random / random / deque / Pool); the "
              "abstraction of MT19937 as a position space; schedules and histories are explicit parameters, not derived from values.")
TECHNIQUE = "Coq proof (invariant over instruction lists, NoDup via count_occ) + RNG-trace correspondence by vm_compute + implementation oracle"

M = 123456789        # modulus of the clock seed before the fix: commit of fix-rng2
_ENV = {}


class FakeOs:
    """stands in for `os` inside rpylib.montecarlo.configuration when a replay must reproduce the time-based seed
    (os.getpid() * int(time.time())) % 123456789 of the run that found the failing input (single-process runs only)"""

    def __init__(self, pid):
        self.pid = pid

    def getpid(self):
        return self.pid


class FakeTime:
    """stands in for the `time` module inside rpylib.montecarlo.configuration (source of nondeterminism)"""

    def __init__(self, values):
        self.values = list(values)
        self.calls = 0

    def time(self):
        v = self.values[min(self.calls, len(self.values) - 1)]
        self.calls += 1
        return float(v)


def env():
    if _ENV:
        return _ENV
    import numpy as np
    import rngtrace
    from rpylib.model.utils import create_exponential_of_levy_model, ModelType
    from rpylib.product.payoff import Forward, CDS
    from rpylib.product.product import Product
    from rpylib.product.underlying import Spot, DefaultTime
    from rpylib.grid.time import TimeGrid
    import rpylib.montecarlo.configuration as CFG

    rngtrace.TR.install()
    import logging
    logging.getLogger().setLevel(logging.ERROR)
    import warnings
    warnings.simplefilter("ignore")
    os.environ["PYTHONWARNINGS"] = "ignore"     # worker processes

    class SpotAtDates(Spot):
        """Spot at maturity, observed on a product grid with several dates (drives the multi-date fixed mode)"""

        def __init__(self, num):
            self.num = num

        def compute_times_grid(self, maturity):
            return TimeGrid(start=0.0, end=maturity, num=self.num)

    from rpylib.product.underlying import MaximumOfPerformances
    from rpylib.product.payoff import PayoffDates
    from rpylib.model.utils import create_levy_copula_model, create_clayton_copula

    class MaxPerfAtDates(MaximumOfPerformances):
        """2-d underlying observed on a product grid with several dates"""

        def __init__(self, spots, num):
            super().__init__(spots)
            self.num = num

        def compute_times_grid(self, maturity):
            return TimeGrid(start=0.0, end=maturity, num=self.num)

    def product(kind):
        if kind == "fwd1":
            return Product(payoff_underlying=Spot(), payoff=Forward(strike=100.0), maturity=0.25)
        if kind == "fwd3":
            return Product(payoff_underlying=SpotAtDates(4), payoff=Forward(strike=100.0), maturity=0.75)
        if kind == "cds":
            df = lambda t: np.exp(-0.02 * t)  # noqa: E731
            return Product(payoff_underlying=DefaultTime(default_level=-0.05),
                           payoff=CDS(recovery_rate=0.4, spread=0.01, maturity=0.5, discounting=df), maturity=0.5)
        if kind in ("swpt1", "swpt2"):
            from rpylib.product.payoff import Swaption
            from rpylib.product.underlying import Libors
            mdl = model("sde1" if kind == "swpt1" else "sde2")
            return Product(payoff_underlying=Libors(), payoff=Swaption(underlying_rates=mdl.x0, deltas=mdl.deltas, strike=np.average(mdl.x0)),
                           maturity=mdl.tenors[0], notional=100.0)
        spots = [100.0, 100.0]
        if kind == "cfwd1":
            return Product(payoff_underlying=MaximumOfPerformances(spots), payoff=Forward(strike=1.0), maturity=0.25)
        if kind == "cfwd3":
            return Product(payoff_underlying=MaxPerfAtDates(spots, 4), payoff=Forward(strike=1.0), maturity=0.75)
        if kind == "cjmp":
            pay = Forward(strike=1.0)
            pay.payoff_dates_type = PayoffDates.STOCHASTIC      # jump-time simulation mode
            return Product(payoff_underlying=MaximumOfPerformances(spots), payoff=pay, maturity=0.5)
        raise ValueError(kind)

    from rpylib.model.utils import create_levy_model, create_levy_forward_market_model, create_levy_forward_market_model_copula

    def model(name):
        if name == "sde1":       # Levy forward market model driven by a 1-d Levy process (SDE processes: max-step simulators)
            return create_levy_forward_market_model(create_levy_model(ModelType.HEM)(intensity=1.5))
        if name == "sde2":       # ... driven by a 2-d Levy copula
            return create_levy_forward_market_model_copula([create_levy_model(ModelType.HEM)(intensity=1.0),
                                                            create_levy_model(ModelType.MERTON)(intensity=1.0)])
        if name == "hem+merton":
            ms = [create_exponential_of_levy_model(ModelType.HEM)(intensity=4), create_exponential_of_levy_model(ModelType.MERTON)(intensity=4)]
            return create_levy_copula_model(models=ms, copula=create_clayton_copula())
        return create_exponential_of_levy_model({"hem": ModelType.HEM, "merton": ModelType.MERTON}[name])(intensity=6)

    _ENV.update(np=np, TR=rngtrace.TR, rt=rngtrace, product=product, model=model, CFG=CFG,
                real_time=CFG.time, logdir=BUILD / PROP / f"run{os.getpid()}" / "wlogs")
    return _ENV


MODE = {"fwd1": (True, 1), "fwd3": (True, 3), "cds": (False, 1), "cfwd1": (True, 1), "cfwd3": (True, 3), "cjmp": (False, 1),
        "swpt1": (False, 1), "swpt2": (False, 1)}
CONTINUOUS = {"fwd1", "fwd3", "cfwd1", "cfwd3", "cjmp"}        # payoffs whose value determines the path (no ties between paths)
EPS = 0.125       # maximum time step handed to the *MaximumStep simulators by the harness subclasses


def mode_of(cfg):
    """(fixed-date mode?, number of product dates): the max-step simulators (proc '*-eps', SDE processes) are jump-time simulators"""
    if cfg["proc"].endswith("-eps") or cfg["proc"].startswith("sde"):
        return (False, MODE[cfg["prod"]][1])
    return MODE[cfg["prod"]]


def with_eps(cls):
    """subclass handing max_step_epsilon to the public `initialisation` (the engines call it without one): reaches the
    SimulationMaximumStep / MCSimulationMaximumStep / MCLevyCopulaSimulationMaximumStep / Coupling*SimulationMaximumStep classes"""
    class Eps(cls):
        def initialisation(self, product, max_step_epsilon=None):
            return super().initialisation(product, max_step_epsilon=EPS if max_step_epsilon is None else max_step_epsilon)
    Eps.__name__ = Eps.__qualname__ = cls.__name__ + "Eps"
    return Eps


def set_ambient(E, rng):
    """arbitrary ambient generator state before the run (tracer inactive: not part of the run)"""
    E["np"].random.seed(rng.randrange(1, 2 ** 31))
    E["np"].random.random_sample(rng.randrange(0, 5))
    random.seed(rng.randrange(1, 2 ** 31))


def sampling_method(proc):
    from rpylib.distribution.sampling import SamplingMethod as SM
    proc = proc[:-4] if proc.endswith("-eps") else proc
    return {"inv": SM.INVERSION, "bst1d": SM.BINARYSEARCHTREEADAPTED1D, "alias": SM.ALIAS, "table": SM.TABLE,
            "bst": SM.BINARYSEARCHTREE, "huffman": SM.HUFFMANNTREE, "cop-bst": SM.BINARYSEARCHTREEADAPTED, "cop-inv": SM.INVERSION,
            "sde-bst1d": SM.BINARYSEARCHTREEADAPTED1D, "sde-inv": SM.INVERSION, "sde-cop": SM.BINARYSEARCHTREEADAPTED}[proc]


def dim_of(cfg):
    return 2 if (cfg["proc"].startswith("cop-") or cfg["proc"] == "sde-cop") else 1


def make_process(E, proc, model_name):
    """exact Levy simulation, 1-d CTMC with every sampler of the factory (TABLE draws from Python's `random`), 2-d CTMC of a
    Levy copula model, the same with a maximum time step ('-eps'), Markov chain of a Levy-driven SDE ('sde-*')"""
    from rpylib.process.levyprocess import LevyProcess
    from rpylib.process.markovchain.markovchain import MarkovChainProcess
    from rpylib.process.markovchain.markovchainlevycopula import MarkovChainLevyCopula
    from rpylib.process.markovchain.markovchainsde import MarkovChainSDE
    from rpylib.grid.spatial import CTMCUniformGrid
    mdl = E["model"](model_name)
    eps = proc.endswith("-eps")
    wrap = with_eps if eps else (lambda c: c)
    base = proc[:-4] if eps else proc
    if base == "levy":
        return wrap(LevyProcess)(mdl)
    if base.startswith("sde"):
        return MarkovChainSDE(model=mdl, method=sampling_method(proc), grid=CTMCUniformGrid(h=0.1, model=mdl))
    if base.startswith("cop-"):
        return wrap(MarkovChainLevyCopula)(mdl, CTMCUniformGrid(h=0.1, model=mdl), sampling_method(proc))
    return wrap(MarkovChainProcess)(mdl, sampling_method(proc), CTMCUniformGrid(h=0.1, model=mdl))


def make_coupling(E, proc, model_name):
    from rpylib.process.coupling.couplingmarkovchain import CouplingMarkovChain
    from rpylib.process.coupling.couplinglevycopula import CouplingProcessLevyCopula
    from rpylib.process.coupling.couplingsde import CouplingSDE
    from rpylib.grid.spatial import CTMCUniformGrid
    mdl = E["model"](model_name)
    eps = proc.endswith("-eps")
    wrap = with_eps if eps else (lambda c: c)
    base = proc[:-4] if eps else proc
    if base.startswith("sde"):
        return CouplingSDE(model=mdl, grid=CTMCUniformGrid(h=0.1, model=mdl), method=sampling_method(proc))
    if base.startswith("cop-"):
        return wrap(CouplingProcessLevyCopula)(mdl, CTMCUniformGrid(h=0.1, model=mdl), sampling_method(proc))
    return wrap(CouplingMarkovChain)(model=mdl, method=sampling_method(proc), grid=CTMCUniformGrid(h=0.1, model=mdl))


def run_std(E, cfg, rng):
    """cfg: dict(engine='std', prod, model, proc, n, seed, nproc, T)"""
    from rpylib.montecarlo.configuration import ConfigurationStandard
    from rpylib.montecarlo.standard.engine import Engine
    np, TR = E["np"], E["TR"]
    extra = {}
    if cfg.get("cv"):       # control variates and spot statistics switched on: must not change the use of the generators
        from rpylib.product.product import ControlVariates
        extra = dict(control_variates=ControlVariates([E["product"](cfg["prod"])], [1.0]), activate_spot_statistics=True)
    conf = ConfigurationStandard(mc_paths=cfg["n"], seed=cfg["seed"], nb_of_processes=cfg["nproc"], **extra)
    eng = Engine(conf, make_process(E, cfg["proc"], cfg["model"]))
    E["CFG"].time = FakeTime([cfg["T"]])
    if cfg.get("pid") and cfg["nproc"] == 1:
        E["CFG"].os = FakeOs(cfg["pid"])
    set_ambient(E, rng)
    TR.start(E["logdir"])
    try:
        st = eng.price(E["product"](cfg["prod"]))
    finally:
        evs = TR.stop()
        E["CFG"].time = E["real_time"]
        E["CFG"].os = os
    return evs, TR.collect_workers() if cfg["nproc"] != 1 else {}, stored_values(evs), float(np.ravel(st.price())[0])


class Script:
    """scripted ConvergenceCriteria: returns the listed allocations / verdicts and records the calls"""

    def __init__(self, ns, verdicts):
        self.ns, self.verdicts, self.calls, self.last = list(ns), list(verdicts), [], [1]

    def compute_mc_paths(self, rmse, vl, cl):
        import numpy as np
        if self.ns:
            self.last = self.ns.pop(0)
        want = self.last
        out = np.array([want[min(i, len(want) - 1)] for i in range(len(vl))], dtype=int)
        self.calls.append(("ns", len(vl)))
        return out

    def criteria(self, alpha, ml, rmse):
        v = self.verdicts.pop(0) if self.verdicts else True
        self.calls.append(("crit", v))
        return v


def run_ml(E, cfg, rng):
    """cfg: dict(engine='mlc'|'mlp', prod, model, proc, n0, L0, Lmax, seed, nproc, T, [ns, verdicts])"""
    from rpylib.montecarlo.configuration import ConfigurationMultiLevel, ConvergenceRates
    from rpylib.montecarlo.multilevel.engine import Engine
    from rpylib.montecarlo.multilevel.criteria import ConvergenceCriteria
    from rpylib.process.coupling.couplingmarkovchain import CouplingMarkovChain
    from rpylib.distribution.sampling import SamplingMethod
    from rpylib.grid.spatial import CTMCUniformGrid
    np, TR = E["np"], E["TR"]
    cp = make_coupling(E, cfg["proc"], cfg["model"])
    script = Script(cfg.get("ns", []), cfg.get("verdicts", []))
    conf = ConfigurationMultiLevel(convergence_rates=ConvergenceRates(1.0, 1.0, 1.0),
                                   convergence_criteria=ConvergenceCriteria(script.criteria, script.compute_mc_paths),
                                   initial_level=cfg["L0"], maximum_level=cfg["Lmax"], initial_mc_paths=cfg["n0"],
                                   seed=cfg["seed"], nb_of_processes=cfg["nproc"])
    eng = Engine(conf, cp)
    E["CFG"].time = FakeTime(cfg["T"] if isinstance(cfg["T"], list) else [cfg["T"]])
    if cfg.get("pid") and cfg["nproc"] == 1:
        E["CFG"].os = FakeOs(cfg["pid"])
    set_ambient(E, rng)
    TR.start(E["logdir"])
    try:
        with np.errstate(all="ignore"):
            if cfg["engine"] == "mlc":
                st = eng.price_with_constant_mc_paths_and_level(E["product"](cfg["prod"]))
            else:
                st = eng.price(E["product"](cfg["prod"]), 0.1)
    finally:
        evs = TR.stop()
        E["CFG"].time = E["real_time"]
        E["CFG"].os = os
    return evs, TR.collect_workers() if cfg["nproc"] != 1 else {}, stored_values(evs), float(np.ravel(st.price())[0]), script


# ----------------------------------------------------------------------------------------- Coq literals
def sched_lit(sc):
    return lst([f"({blit(st == 1)}, {zlit(k)}, {blit(dec)})" for st, k, dec in sc])


def mode_lit(cfg):
    fixed, nb = mode_of(cfg)
    return f"(mkMode {blit(fixed)} {zlit(nb)} {zlit(dim_of(cfg))})"


def zll(rows):
    return lst([lst([zlit(v) for v in r]) for r in rows])


def enc_samples(samples, default_lvl=-1):
    out = []
    for s in samples:
        r = [default_lvl if s["lvl"] is None else s["lvl"]]
        for (st, sid, i) in s["pos"]:
            r += [st, sid, i]
        out.append(r)
    return out


LAST_EXPECTED = [None]


def expected_lit(can, default_lvl=-1):
    evs = [[(default_lvl if v is None else v) for v in e] for e in can.events]
    LAST_EXPECTED[0] = (evs, enc_samples(can.samples, default_lvl))
    return f"({zll(evs)}, {zll(enc_samples(can.samples, default_lvl))})"


def predicted_t(T, pid=None):
    """seed_of pid now of Model/Rng.v: np.random.seed([pid, now]); random.seed(pid * 2**32 + now)"""
    return (os.getpid() if pid is None else pid) * 2 ** 32 + int(T)


HEADER = """From Coq Require Import ZArith List Bool.
From RV Require Import Base.Corr Model.Rng.
Import ListNotations.
Open Scope Z_scope.
Definition amb := init (mkGen (-1) 0 0).
Definition chk (ops : list op) (ex : list (list Z) * list (list Z)) : bool :=
  let '(es, ss, _) := run ops amb in
  list_eqb zlist_eqb (map enc_ev es) (fst ex) && list_eqb zlist_eqb (map enc_sample ss) (snd ex).
Definition chk_pool (r : list ev * list (list ev) * list sample) (ex : list (list Z) * list (list (list Z)) * list (list Z)) : bool :=
  let '(pe, logs, ss) := r in let '(xpe, xlogs, xss) := ex in
  list_eqb zlist_eqb (map enc_ev pe) xpe && list_eqb (list_eqb zlist_eqb) (map (map enc_ev) logs) xlogs
  && list_eqb zlist_eqb (map enc_sample ss) xss.
"""


# ----------------------------------------------------------------------------------------- oracle
def rows_from_chunks(chunk_records):
    """copy-per-chunk model of the pool: a chunk of `size` samples pops rows first..first+size-1 of every deque copy that
    arrived with it.  chunk_records = [[size, [[cid, rows, first], ...]], ...]  ->  Counter of row tags"""
    import collections
    pred = collections.Counter()
    for size, arrivals in chunk_records:
        for cid, n, first in arrivals:
            for r in range(first, first + min(size, n)):
                pred[(cid, r)] += 1
    return pred


def unpopped_from_history(history):
    """rows the pass structure of an adaptive price() leaves unpopped: history = [[rows, kind], ...] of the pre_computation
    calls in order (each creates two deques); kinds 'init' (initialisation()) and 'add' (next_level of an added level) are
    replaced before any pop"""
    out, cid = [], 1
    for n, kind in history:
        if kind in ("init", "add"):
            out += [[c, r] for c in (cid, cid + 1) for r in range(n)]
        cid += 2
    return sorted(out)


def chunk_records_of(workers):
    recs = []
    for c in workers.values():
        starts = list(c.chunk_starts)
        for j, a in enumerate(starts):
            size = (starts[j + 1] if j + 1 < len(starts) else len(c.samples)) - a
            recs.append([size, [list(x) for x in c.chunk_arrivals[j]]])
    return recs


def chunk_prediction(workers):
    return rows_from_chunks(chunk_records_of(workers))


def oracle(res, cfg, can, workers, stats, continuous):
    """implementation-only checks on one traced run; reports through res.violation.
    stats = [(level, index, value tuple)] written into the statistics during the run (from the trace).
    Finding ids are attached only to the recorded classes:
      F-C08-1 draws before the seed, F-C08-2 re-seeding within a run, F-C08-4 seed 0 ignored (single process),
      F-C08-3 rows of the parent's deques popped by several chunks of a worker pool (fixed-date mode) -- only when the
              multiset of popped rows is exactly what the copy-per-chunk model predicts (`explained`)."""
    import collections

    def viol(what, finding, **kw):
        rep = {"finding": finding, "kind": "trace", "config": dict(cfg, pid=cfg.get("pid") or os.getpid())}
        rep.update(kw)
        res.violation(what, rep)

    multi = cfg["nproc"] != 1
    logs = [("parent", can)] + [(f"worker{pid}", w) for pid, w in workers.items()]
    prepos = {p for ps in can.rowpos.values() for p in ps}      # positions stored in rows pre-drawn by the parent
    # rows consumed more than once / rows of a deque that was not created in this run
    seen = {}
    for who, c in logs:
        for k, s in enumerate(c.samples):
            for tg in s["rows"]:
                if tg[0] == 0 or tg[1] < 0:
                    viol("a row popped does not belong to a deque created during the run", None, who=who, sample=k, tag=list(tg))
                seen.setdefault(tg, []).append((who, k, s.get("it")))
    dup = {tg: v for tg, v in seen.items() if len(v) > 1}
    observed = collections.Counter({tg: len(v) for tg, v in seen.items()})
    records = chunk_records_of(workers) if multi else []
    explained = bool(multi and dup and observed == rows_from_chunks(records))
    evidence = dict(rows_observed=sorted([c_, r_, n_] for (c_, r_), n_ in observed.items()), chunk_records=records) if multi else {}
    tag_of = {p: tg for tg, ps in can.rowpos.items() for p in ps}
    if dup:
        tg = sorted(dup)[0]
        viol("a pre-drawn row is consumed by more than one sample" + (" (worker processes pop copies of the same deque)" if multi else ""),
             "F-C08-3" if explained else None, tag=list(tg), consumers=[list(map(str, x)) for x in dup[tg]][:6], rows_shared=len(dup),
             explained_by_copy_per_chunk=explained, **evidence)
    # generator states that recur after having produced variates
    for kind in ("np", "py"):
        first, hit = {}, None
        for who, c in logs:
            for j, (k, h, why) in enumerate(c.hashes):
                if k != kind:
                    continue
                if h in first and hit is None:
                    hit = (first[h], (who, j), why)
                first.setdefault(h, (who, j))
        if hit:
            viol(f"the {'numpy' if kind == 'np' else 'python'} generator returns to a state it has already been in "
                 f"({'re-seeded to it' if hit[2] == 'seed' else 'same state reached twice'})",
                 "F-C08-2" if (not multi and hit[2] == "seed") else None, first=list(map(str, hit[0])), again=list(map(str, hit[1])), after=hit[2])
    # samples sharing abstract positions (harness bookkeeping of the real calls): positions stored in pre-drawn rows
    # (explained by F-C08-3 when the popped rows are the predicted ones) and all other positions separately
    used, hit_row, hit_other = {}, None, None
    for who, c in logs:
        for k, s in enumerate(c.samples):
            for p in s["pos"]:
                if p in used and used[p] != (who, k):
                    if p in prepos:
                        hit_row = hit_row or (p, used[p], (who, k))
                    else:
                        hit_other = hit_other or (p, used[p], (who, k))
                used.setdefault(p, (who, k))
    if hit_row:
        f = ("F-C08-3" if explained else None) if multi else ("F-C08-2" if len(can.seeds) > 1 else None)
        viol("two samples are generated from the same pre-drawn variate", f, position=list(hit_row[0]),
             samples=[list(map(str, hit_row[1])), list(map(str, hit_row[2]))], explained_by_copy_per_chunk=explained,
             row_of_position=list(tag_of.get(hit_row[0], (0, -1))), **evidence)
    if hit_other:
        f = None if multi else ("F-C08-2" if len(can.seeds) > 1 else None)
        viol("two samples are generated from the same variate", f, position=list(hit_other[0]),
             samples=[list(map(str, hit_other[1])), list(map(str, hit_other[2]))])
    # the variate really compared by every coupling decision (`u < p` in coupling_state): pairwise distinct over the whole
    # run -- all samples, levels, passes and processes (catches variates served twice out of a buffer that was copied)
    byval = {}
    for who, c in logs:
        for (v, p, k) in c.uses:
            byval.setdefault(v, []).append((who, k, c.samples[k]["lvl"] if k < len(c.samples) else None, p))
    rep = {v: u for v, u in byval.items() if len(u) > 1}
    if rep:
        v = sorted(rep, key=lambda x: -len(rep[x]))[0]
        viol("the same uniform variate is compared by more than one coupling decision", None, value=v,
             decisions=[[who, f"sample {k}", f"level {lv}", f"position {p}"] for who, k, lv, p in rep[v]][:6],
             uniforms_reused=len(rep), coupling_decisions=sum(len(u) for u in byval.values()),
             across_levels=sum(1 for u in rep.values() if len({x[2] for x in u}) > 1))
    res.bump("coupling_decisions_per_run", min(200, sum(len(u) for u in byval.values()) // 10 * 10))
    # duplicated sample values written into the statistics of one level (continuous payoffs only).  In a pool run a group
    # of identical values is explained by F-C08-3 only if the popped rows are the predicted ones AND all samples of the
    # group popped the very same rows (their fresh variates only select discrete CTMC states / jump counts, so equal
    # rows can give equal values; shared fresh variates are caught by the position, state and seed checks above)
    if continuous:
        sample_of = {}
        for c in workers.values():
            for sm in c.samples:
                if sm.get("it") is not None:
                    sample_of[sm["it"]] = sm
        key_of = {}
        for pool in can.pools:
            for j, st_ in enumerate(pool["stats"]):
                key_of[(st_[0], st_[1])] = (pool["seq"], j)
        per = {}
        for lvl, idx, val in stats:
            per.setdefault(lvl, {}).setdefault(val, []).append(idx)
        for lvl, d in per.items():
            rep = {v: ix for v, ix in d.items() if len(ix) > 1}
            if not rep:
                continue
            v = sorted(rep, key=lambda x: -len(rep[x]))[0]
            groups = []
            if multi:
                ok = explained
                for val, ix in rep.items():
                    sms = [sample_of.get(key_of.get((lvl, i))) for i in ix]
                    groups.append([[list(t) for t in x["rows"]] if x is not None else None for x in sms])
                    if any(x is None for x in sms) or len({tuple(x["rows"]) for x in sms}) != 1:
                        ok = False
                f = "F-C08-3" if ok else None
            else:
                f = "F-C08-2" if len(can.seeds) > 1 else None
            viol("identical sample values stored in the statistics of one level", f, level=lvl, value=list(v), indices=rep[v][:8],
                 distinct_values=len(d), samples=sum(len(ix) for ix in d.values()), explained_by_copy_per_chunk=(f == "F-C08-3"),
                 groups=groups[:40], **evidence)
    # seeding discipline of a single-process run: exactly one seed, before the first draw
    if not multi:
        want = cfg["seed"] if cfg["seed"] is not None else predicted_t(cfg["T"][0] if isinstance(cfg["T"], list) else cfg["T"], cfg.get("pid"))
        if can.seeds != [want]:
            if cfg["seed"] == 0 and can.seeds and can.seeds[0] != 0:
                f = "F-C08-4"
            elif len(can.seeds) > 1 and set(can.seeds) == {want}:
                f = "F-C08-2"
            else:
                f = None
            viol("single-process run: the generators are not seeded exactly once with the configured seed", f,
                 seed_calls=can.seeds[:8], expected=[want])
        first_draw = next((i for i, e in enumerate(can.events) if e[0] == 1), None)
        first_seed = next((i for i, e in enumerate(can.events) if e[0] == 0), None)
        if first_draw is not None and (first_seed is None or first_seed > first_draw):
            viol("variates are drawn before the seed is applied", "F-C08-1", first_draw_event=first_draw, first_seed_event=first_seed)
    else:
        # worker processes: pairwise different seeds
        ws = [(pid, c.seeds) for pid, c in workers.items()]
        flat = [s_ for _, ss_ in ws for s_ in ss_]
        if len(set(flat)) != len(flat):
            viol("two worker processes seed their generators with the same value", None,
                 worker_seeds=[[pid, ss_] for pid, ss_ in ws][:8], clock=cfg["T"])


def unpopped_oracle(res, cfg, can, expected=None):
    """single-process run: rows pre-drawn and never popped.  None may remain for the standard engine and the constant
    multilevel run; the adaptive price() leaves exactly the rows of initialisation() and of next_level() of the added
    levels (finding F-C08-5; expected = (those rows, the history of pre_computation calls they are computed from))"""
    created = {(e[1], r) for e in can.events if e[0] == 2 for r in range(e[2])}
    popped = {(e[1], e[2]) for e in can.events if e[0] == 3}
    left = sorted([c, r] for c, r in created - popped)
    if not left:
        return
    history = None if expected is None else expected[1]
    as_expected = history is not None and left == unpopped_from_history(history)
    res.violation("pre-drawn rows are never consumed (drawn and thrown away)", {
        "finding": "F-C08-5" if as_expected else None, "kind": "trace", "config": dict(cfg, pid=cfg.get("pid") or os.getpid()),
        "unpopped": left[:400], "unpopped_rows": len(left), "history": history, "as_the_model_predicts": as_expected})


def matches_known(v, known):
    """a listed finding explains a violation only if the rows recorded in the violation are exactly those the faithful model
    predicts; the prediction is recomputed here from the recorded chunk structure / pre_computation history, not read from a flag"""
    import collections
    r = v["replay"]
    c = r.get("config", {})
    try:
        if known["id"] == "F-C08-3":
            if c.get("nproc", 1) == 1 or not mode_of(c)[0]:
                return False
            obs = collections.Counter({(a, b): n for a, b, n in r["rows_observed"]})
            if not obs or obs != rows_from_chunks(r["chunk_records"]) or max(obs.values()) < 2:
                return False
            if "row_of_position" in r and obs.get(tuple(r["row_of_position"]), 0) < 2:
                return False
            if "groups" in r and not all(g and None not in g and len({json.dumps(m) for m in g}) == 1 for g in r["groups"]):
                return False
            return True
        if known["id"] == "F-C08-5":
            if c.get("engine") != "mlp" or c.get("nproc", 1) != 1 or not mode_of(c)[0] or not r.get("history"):
                return False
            return len(r["unpopped"]) == r["unpopped_rows"] > 0 and r["unpopped"] == unpopped_from_history(r["history"])
    except (KeyError, TypeError, ValueError):
        return False
    return False


def stored_values(evs):
    """every (level, index, value) written into the statistics during the run, in order (from the trace)"""
    return [(e["lvl"], e["idx"], tuple(e["val"])) for e in evs if e["e"] == "stat"]


def repeat_oracle(res, E, cfg, runner, rng):
    """two runs with the same seed from different ambient generator states must agree bit for bit:
    every value stored in the statistics, and the price where every statistics row is written by the run
    (the adaptive price() averages rows it never wrote -- property C05's concern -- so its price is not compared)"""
    out = []
    for k in range(2):     # the second run happens later (other clock value) and from another ambient generator state
        r = runner(E, dict(cfg, T=cfg["T"] + 97 * k), rng)
        out.append((r[2], r[3] if cfg["engine"] != "mlp" else None))
    if out[0] != out[1]:
        k = next((i for i, (a, b) in enumerate(zip(out[0][0], out[1][0])) if a != b), None)
        res.violation("two single-process runs with the same seed give different results", {
            "finding": None, "kind": "repeat", "config": dict(cfg, pid=cfg.get("pid") or os.getpid()), "price_1": out[0][1], "price_2": out[1][1],
            "first_differing_sample": None if k is None else [list(map(str, out[0][0][k])), list(map(str, out[1][0][k]))],
            "candidates": "F-C08-1 (draws before the seed), F-C08-2 (re-seeding per level), F-C08-4 (seed 0 ignored)"})
    return out[0] == out[1]


# ----------------------------------------------------------------------------------------- case construction
def std_case(cfg, can):
    t = predicted_t(cfg["T"], cfg.get("pid"))
    ss = lst([sched_lit(s["sched"]) for s in can.samples])
    return f"(({opt(cfg['seed'], zlit)}, {zlit(t)}, {mode_lit(cfg)}, {ss}), {expected_lit(can)})"


def mlc_case(cfg, can):
    t = predicted_t(cfg["T"], cfg.get("pid"))
    nlev = cfg["Lmax"] + 1
    per = [[] for _ in range(nlev)]
    for s in can.samples:
        per[s["lvl"]].append(s["sched"])
    levels = lst([lst([sched_lit(sc) for sc in lv]) for lv in per])
    return f"(({opt(cfg['seed'], zlit)}, {zlit(t)}, {mode_lit(cfg)}, {zlit(cfg['n0'])}, {levels}), {expected_lit(can)})"


def mlp_case(cfg, evs, can, script):
    """history of an adaptive price() run: the pass structure follows the engine's control flow as
    recorded by the scripted criteria (one compute_mc_paths call ends a pass; a False verdict followed by
    a call with one more level = a level was added); the numbers of rows (pre_computation arguments) and
    the schedules of the samples are read from the trace."""
    t = predicted_t(cfg["T"], cfg.get("pid"))
    toks = []
    k = 0
    for ev in evs:
        if ev["e"] == "pre":
            toks.append(("pre", ev["n"]))
        elif ev["e"] == "end":
            toks.append(("s", can.samples[k]["lvl"], can.samples[k]["sched"]))
            k += 1
    pos = 0

    def expect_pre():
        nonlocal pos
        if pos >= len(toks) or toks[pos][0] != "pre":
            raise ValueError(f"history parse: pre_computation expected at token {pos}: {toks[pos:pos + 3]}")
        pos += 1
        return toks[pos - 1][1]

    fixed = mode_of(cfg)[0]
    cid = [1]
    hist = []              # the pre_computation calls of the run: (rows, kind) -- the pass structure F-C08-5 is matched against
    wasted = []            # rows the pass structure says are pre-drawn and never popped (F-C08-5)

    def deques(n, waste, kind):
        if fixed:
            hist.append([n, kind])
            if waste:
                wasted.extend((c, r) for c in (cid[0], cid[0] + 1) for r in range(n))
            cid[0] += 2

    n0 = expect_pre()
    deques(n0, True, "init")
    L, cr = cfg["L0"], 1
    calls = list(script.calls)
    ci = 0
    passes = []
    while ci < len(calls):
        if calls[ci] != ("ns", L + 1):
            raise ValueError(f"history parse: unexpected criteria call {calls[ci]} with L={L}")
        ci += 1
        levels = []
        for lvl in range(L + 1):
            if cr <= lvl:
                if expect_pre() != 0:
                    raise ValueError("history parse: next_level(0) expected for a level created in the first pass")
                deques(0, False, "next_level0")
                cr += 1
            n = expect_pre()
            deques(n, False, "level")
            cur = []
            for _ in range(n):
                if pos >= len(toks) or toks[pos][0] != "s" or toks[pos][1] != lvl:
                    raise ValueError(f"history parse: sample of level {lvl} expected at token {pos}")
                cur.append(toks[pos][2])
                pos += 1
            levels.append(cur)
        add = None
        if ci < len(calls) and calls[ci][0] == "crit":
            verdict = calls[ci][1]
            ci += 1
            if not verdict and ci < len(calls) and calls[ci] == ("ns", L + 2):
                ci += 1
                L += 1
                cr += 1
                add = expect_pre()
                deques(add, True, "add")
        passes.append((levels, add))
    if pos != len(toks):
        raise ValueError(f"history parse: {len(toks) - pos} trailing tokens")
    plit = lst([f"(mkPass {lst([lst([sched_lit(sc) for sc in lv]) for lv in levels])} {opt(add, zlit)})" for levels, add in passes])
    return f"(({opt(cfg['seed'], zlit)}, {zlit(t)}, {mode_lit(cfg)}, {zlit(n0)}, {plit}), {expected_lit(can)})", passes, (wasted, hist)


def pool_case(cfg, parent, workers_can):
    """workers_can: [(pid, Canon)] sorted by pid; chunks = maximal runs of samples between two arrivals of deque copies"""
    pids, chunks, xlogs, xsamples = [], [], [], []
    for w, (pid, c) in enumerate(workers_can):
        pids.append(pid)
        starts = c.chunk_starts if c.chunk_starts else [0]
        if starts[0] != 0:
            starts = [0] + starts
        bounds = starts + [len(c.samples)]
        for a, b in zip(bounds, bounds[1:]):
            if b > a:
                chunks.append((w, [s["sched"] for s in c.samples[a:b]]))
        xlogs.append([[(-1 if v is None else v) for v in e] for e in c.events])
        xsamples += enc_samples(c.samples)
    clit = lst([f"({w}%nat, {lst([sched_lit(sc) for sc in ss])})" for w, ss in chunks])
    pe = [[(-1 if v is None else v) for v in e] for e in parent.events]
    LAST_EXPECTED[0] = (pe + [e for lg in xlogs for e in lg], xsamples)
    exp = f"({zll(pe)}, {lst([zll(lg) for lg in xlogs])}, {zll(xsamples)})"
    return f"(({mode_lit(cfg)}, {zlit(cfg['n'])}, {lst([zlit(x) for x in pids])}, {zlit(int(cfg['T']))}, {clit}), {exp})", pids, chunks


STD_PROCS = [("hem", "levy"), ("merton", "levy"), ("hem", "inv"), ("merton", "bst1d"), ("hem", "alias"), ("merton", "table"),
             ("hem", "bst"), ("merton", "huffman"), ("hem", "table")]
ML_PROCS = [("hem", "inv"), ("merton", "bst1d"), ("hem", "table"), ("merton", "alias"), ("hem", "huffman"), ("merton", "bst")]
COP_PROCS = [("hem+merton", "cop-bst"), ("hem+merton", "cop-inv")]
COLLISION_T = 13 * M        # int(time) at which (pid * now) % 123456789 = 0 for every pid


def gen_cfgs(rng, tier):
    """configurations of one check run (all randomness from rng)"""
    big = tier != "quick"
    out = {"std": [], "mlc": [], "mlp": [], "pool": [], "mlpool": []}
    seeds = [None, 0, 7, rng.randrange(1, 2 ** 31)]

    def T():
        return rng.randrange(10 ** 9, 2 * 10 ** 9)

    for rep in range(4 if big else 1):
        for prod in ("fwd1", "fwd3", "cds"):
            for model, proc in STD_PROCS:
                for seed in seeds:
                    out["std"].append(dict(engine="std", prod=prod, model=model, proc=proc, n=rng.choice([1, 2, 3, 5, 6, 8] if big else [1, 2, 3, 5, 6]),
                                           seed=seed, nproc=1, T=T()))
        for prod in ("cfwd1", "cfwd3", "cjmp"):
            for model, proc in COP_PROCS:
                for seed in (None, 9):
                    out["std"].append(dict(engine="std", prod=prod, model=model, proc=proc, n=rng.choice([2, 3, 5]), seed=seed, nproc=1, T=T()))
    out["std"].append(dict(engine="std", prod="fwd1", model="hem", proc="levy", n=0, seed=5, nproc=1, T=1700000000))
    # the four max-step simulators (harness subclasses hand max_step_epsilon to `initialisation`) and the SDE processes
    EPS_STD = [("fwd1", "hem", "levy-eps"), ("fwd3", "merton", "levy-eps"), ("cds", "hem", "inv-eps"), ("fwd3", "merton", "bst1d-eps"),
               ("fwd1", "hem", "table-eps"), ("cfwd1", "hem+merton", "cop-inv-eps"), ("cfwd3", "hem+merton", "cop-bst-eps"),
               ("swpt1", "sde1", "sde-bst1d"), ("swpt1", "sde1", "sde-inv"), ("swpt2", "sde2", "sde-cop")]
    for rep in range(3 if big else 1):
        for prod, model, proc in EPS_STD:
            for seed in (None, 17):
                out["std"].append(dict(engine="std", prod=prod, model=model, proc=proc, n=rng.choice([2, 3, 4]), seed=seed, nproc=1, T=T()))
    # control variates and spot statistics switched on
    for prod, model, proc in (("fwd1", "hem", "levy"), ("fwd3", "merton", "inv"), ("cds", "hem", "bst1d")):
        out["std"].append(dict(engine="std", prod=prod, model=model, proc=proc, n=4, seed=rng.choice([None, 7]), nproc=1, T=T(), cv=True))
    EPS_ML = [("fwd1", "hem", "inv-eps"), ("fwd3", "merton", "bst1d-eps"), ("cds", "hem", "alias-eps"), ("cfwd1", "hem+merton", "cop-inv-eps"),
              ("swpt1", "sde1", "sde-bst1d"), ("swpt2", "sde2", "sde-cop")]
    for rep in range(3 if big else 1):
        for prod, model, proc in EPS_ML:
            out["mlc"].append(dict(engine="mlc", prod=prod, model=model, proc=proc, n0=rng.choice([2, 3]), L0=1, Lmax=rng.choice([1, 2]),
                                   seed=rng.choice([None, 11]), nproc=1, T=T()))
            out["mlp"].append(dict(engine="mlp", prod=prod, model=model, proc=proc, n0=2, L0=1, Lmax=2, seed=rng.choice([None, 13]), nproc=1,
                                   T=T(), ns=[[3, 3, 3], [4, 3, 3], [4, 4, 3, 2]], verdicts=[False, True]))
    for rep in range(4 if big else 1):
        for prod in ("fwd1", "fwd3", "cds"):
            for model, proc in ML_PROCS:
                for seed in (None, 0, 11):
                    out["mlc"].append(dict(engine="mlc", prod=prod, model=model, proc=proc, n0=rng.choice([1, 2, 3]), L0=1,
                                           Lmax=rng.choice([1, 2, 3]), seed=seed, nproc=1, T=T()))
        for prod in ("cfwd1", "cfwd3", "cjmp"):
            for model, proc in COP_PROCS:
                out["mlc"].append(dict(engine="mlc", prod=prod, model=model, proc=proc, n0=rng.choice([2, 3]), L0=1, Lmax=rng.choice([1, 2]),
                                       seed=rng.choice([None, 11]), nproc=1, T=T()))

    def history(n0):
        vec = [n0] * 6
        ns = []
        for _ in range(rng.choice([2, 3, 4, 5])):
            vec = [v + rng.choice([0, 0, 0, 1, 2]) for v in vec]
            ns.append(list(vec))
        return ns, [rng.random() < 0.35 for _ in range(4)]

    for rep in range(5 if big else 1):
        for prod in ("fwd1", "fwd3", "cds"):
            for model, proc in ML_PROCS:
                for seed in (None, 0, 13):
                    L0, n0 = rng.choice([1, 2]), rng.choice([1, 2, 3])
                    ns, verdicts = history(n0)
                    out["mlp"].append(dict(engine="mlp", prod=prod, model=model, proc=proc, n0=n0, L0=L0, Lmax=L0 + rng.choice([0, 1, 2]),
                                           seed=seed, nproc=1, T=T(), ns=ns, verdicts=verdicts))
        for prod in ("cfwd1", "cfwd3", "cjmp"):
            for model, proc in COP_PROCS:
                L0, n0 = 1, rng.choice([2, 3])
                ns, verdicts = history(n0)
                out["mlp"].append(dict(engine="mlp", prod=prod, model=model, proc=proc, n0=n0, L0=L0, Lmax=L0 + rng.choice([0, 1]),
                                       seed=rng.choice([None, 13]), nproc=1, T=T(), ns=ns, verdicts=verdicts))
    for prod, model, proc in (("fwd3", "hem", "inv"), ("cds", "merton", "bst1d"), ("fwd1", "hem", "bst1d")) * (3 if big else 1):
        n0 = rng.choice([4, 5, 6])
        out["mlp"].append(dict(engine="mlp", prod=prod, model=model, proc=proc, n0=n0, L0=2, Lmax=3, seed=rng.choice([None, 21]), nproc=1,
                               T=T(), ns=[[n0 + 3] * 3, [n0 + 5] * 3, [n0 + 5, n0 + 5, n0 + 5, 4], [n0 + 6, n0 + 6, n0 + 7, 6]],
                               verdicts=[False, True]))
    for rep in range(3 if big else 1):
        for prod in ("fwd1", "fwd3", "cds"):
            for nproc in (2, 4):
                for model, proc in (("hem", "levy"), ("merton", "inv"), ("hem", "table")):
                    out["pool"].append(dict(engine="std", prod=prod, model=model, proc=proc, n=rng.choice([3, 5, 8, 9, 17]),
                                            seed=rng.choice([None, 5]), nproc=nproc, T=T()))
    # the clock value at which the former seed (pid * now) % 123456789 was 0 for every worker; a 2-d process; all cores
    for prod, nproc in (("cds", 2), ("cds", 4), ("fwd1", 2), ("cjmp", 3)):
        model, proc = ("hem+merton", "cop-inv") if prod == "cjmp" else ("hem", "levy")
        out["pool"].append(dict(engine="std", prod=prod, model=model, proc=proc, n=9, seed=None, nproc=nproc, T=COLLISION_T))
    out["pool"].append(dict(engine="std", prod="cfwd1", model="hem+merton", proc="cop-bst", n=5, seed=None, nproc=2, T=T()))
    out["pool"].append(dict(engine="std", prod="cds", model="hem", proc="levy", n=20, seed=None, nproc=None, T=COLLISION_T))    # all cores
    out["pool"].append(dict(engine="std", prod="fwd1", model="hem", proc="inv", n=6, seed=None, nproc=2, T=T(), cv=True))
    out["pool"].append(dict(engine="std", prod="fwd3", model="merton", proc="bst1d-eps", n=6, seed=None, nproc=2, T=COLLISION_T))
    # multilevel engine with pools (compute_level_l builds one pool per level and pass): oracle only
    out["mlpool"] = [dict(engine="mlc", prod="fwd1", model="hem", proc="inv", n0=4, L0=1, Lmax=1, seed=None, nproc=2, T=1700000001),
                     dict(engine="mlc", prod="cds", model="hem", proc="inv", n0=3, L0=1, Lmax=1, seed=5, nproc=2, T=COLLISION_T),
                     dict(engine="mlc", prod="cjmp", model="hem+merton", proc="cop-inv", n0=3, L0=1, Lmax=1, seed=5, nproc=2, T=COLLISION_T),
                     dict(engine="mlc", prod="fwd3", model="merton", proc="table", n0=3, L0=1, Lmax=2, seed=7, nproc=4, T=T()),
                     dict(engine="mlp", prod="fwd3", model="merton", proc="bst1d", n0=3, L0=1, Lmax=2, seed=None, nproc=2, T=1700000003,
                          ns=[[3, 3, 3], [4, 3, 3], [4, 3, 5]], verdicts=[False, True]),
                     dict(engine="mlp", prod="cds", model="hem", proc="alias", n0=3, L0=1, Lmax=2, seed=3, nproc=2, T=COLLISION_T,
                          ns=[[3, 3, 3], [4, 4, 3], [4, 4, 5]], verdicts=[False, True])]
    return out


def fresh(cfg):
    c = dict(cfg)
    if "ns" in c:
        c["ns"] = [list(v) for v in c["ns"]]
        c["verdicts"] = list(c["verdicts"])
    return c


def process_run(res, E, group, cfg, rng):
    """one traced run: oracle on the implementation + the Coq case (or None)"""
    rt = E["rt"]
    cont = cfg["prod"] in CONTINUOUS

    def note_problems(can, who="parent"):
        if can.problems and sum(1 for b in res.broken if b["obligation"] == "correspondence trace well-formedness") < 12:
            res.broke("correspondence trace well-formedness",
                      f"{len(can.problems)} problem(s), first: {can.problems[0]} [{who}] config={cfg}")

    def bumps(can):
        res.bump("process", cfg["proc"])
        res.bump("dimension", dim_of(cfg))
        res.bump("python_stream_draws", min(20, sum(k for s in can.samples for st, k, _d in s["sched"] if st == 1) // 5 * 5))

    def worker_canons(parent, wl):
        wcan = []
        for pid in sorted(wl):
            c = rt.canonical(wl[pid], rowpos=parent.rowpos)
            if not c.samples and not c.seeds:
                continue        # a worker the pool terminated while it was still in its initializer: it simulated nothing
            note_problems(c, who=f"worker {pid}")
            wcan.append((pid, c))
            if c.seeds != [predicted_t(cfg["T"], pid)] and sum(1 for b in res.broken if b["obligation"] == "correspondence pool initializer") < 6:
                res.broke("correspondence pool initializer", f"worker {pid} seeded with {c.seeds}, the model predicts "
                                                             f"seed_of pid now = pid * 2**32 + now = {predicted_t(cfg['T'], pid)} config={cfg}")
        return wcan

    if group == "std":
        evs, _, stats, price = run_std(E, cfg, rng)
        can = rt.canonical(evs)
        note_problems(can)
        nt = len(can.samples) >= 2 and any(k > 0 for s in can.samples for _, k, _d in s["sched"])
        res.count(("std", str(cfg), len(can.events)), nontrivial=nt, kind=f"std/{cfg['prod']}/{cfg['proc']}")
        res.bump("seed_kind", "None" if cfg["seed"] is None else ("0" if cfg["seed"] == 0 else "k"))
        res.bump("samples_per_run", len(can.samples))
        res.bump("fresh_draws_per_run", min(50, sum(k for s in can.samples for _, k, _d in s["sched"]) // 5 * 5))
        bumps(can)
        oracle(res, cfg, can, {}, stats, continuous=cont)
        unpopped_oracle(res, cfg, can)
        return std_case(cfg, can)
    if group == "mlc":
        evs, _, stats, price, _ = run_ml(E, cfg, rng)
        can = rt.canonical(evs)
        note_problems(can)
        nt = len(can.samples) >= 2 and any(k > 0 for s in can.samples for _, k, _d in s["sched"])
        res.count(("mlc", str(cfg), len(can.events)), nontrivial=nt, kind=f"mlc/{cfg['prod']}/{cfg['proc']}")
        res.bump("levels", cfg["Lmax"] + 1)
        bumps(can)
        oracle(res, cfg, can, {}, stats, continuous=cont)
        unpopped_oracle(res, cfg, can)
        return mlc_case(cfg, can)
    if group == "mlp":
        evs, _, stats, price, script = run_ml(E, fresh(cfg), rng)
        can = rt.canonical(evs)
        note_problems(can)
        oracle(res, cfg, can, {}, stats, continuous=cont)
        try:
            case, passes, wasted = mlp_case(cfg, evs, can, script)
        except ValueError as e:
            res.broke("correspondence mlp history", f"{e} config={cfg}")
            unpopped_oracle(res, cfg, can)
            return None
        unpopped_oracle(res, cfg, can, expected=wasted)
        nt = len(can.samples) >= 2 and any(k > 0 for s in can.samples for _, k, _d in s["sched"]) and len(passes) >= 2
        res.count(("mlp", str(cfg), len(can.events)), nontrivial=nt, kind=f"mlp/{cfg['prod']}/{cfg['proc']}")
        res.bump("passes", len(passes))
        res.bump("levels_added", sum(1 for _, a in passes if a is not None))
        bumps(can)
        return case
    if group == "pool":
        evs, wl, stats, price = run_std(E, cfg, rng)
        parent = rt.canonical(evs)
        note_problems(parent)
        wcan = worker_canons(parent, wl)
        total = sum(len(c.samples) for _, c in wcan)
        if total != cfg["n"]:
            res.broke("correspondence pool", f"{total} samples traced in the workers for mc_paths={cfg['n']} config={cfg}")
        case, wseeds, chunks = pool_case(cfg, parent, wcan)
        res.count(("pool", str(cfg), total, len(chunks)), nontrivial=total >= 2 and len(chunks) >= 2,
                  kind=f"pool{cfg['nproc']}/{cfg['prod']}/{cfg['proc']}")
        res.bump("chunks", len(chunks))
        res.bump("workers_used", len(wcan))
        res.bump("pool_clock", "k*123456789" if cfg["T"] % M == 0 else "random")
        oracle(res, cfg, parent, dict(wcan), stats, continuous=cont)
        return case
    if group == "mlpool":   # multilevel engine with pools: oracle only (compute_level_l builds the same pool per level)
        evs, wl, stats, price, _ = run_ml(E, fresh(cfg), rng)
        parent = rt.canonical(evs)
        note_problems(parent)
        wcan = worker_canons(parent, wl)
        res.count(("mlpool", str(cfg), len(wcan)), nontrivial=len(wcan) >= 2, kind=f"{cfg['engine']}-pool/{cfg['prod']}")
        res.bump("pool_clock", "k*123456789" if cfg["T"] % M == 0 else "random")
        oracle(res, cfg, parent, dict(wcan), stats, continuous=cont)
        return None
    raise ValueError(group)


RUNNER = {"std": run_std, "mlc": run_ml, "mlp": lambda E, c, r: run_ml(E, fresh(c), r)}

COQ_GROUPS = {
    "std": ("(option Z * Z * mode * list sched) * (list (list Z) * list (list Z))",
            "fun c => let '(sd, t, m, ss, ex) := c in chk (std_ops sd t m ss) ex"),
    "mlc": ("(option Z * Z * mode * Z * list (list sched)) * (list (list Z) * list (list Z))",
            "fun c => let '(sd, t, m, n0, lv, ex) := c in chk (mlc_ops sd t m n0 lv) ex"),
    "mlp": ("(option Z * Z * mode * Z * list pass) * (list (list Z) * list (list Z))",
            "fun c => let '(sd, t, m, n0, ps, ex) := c in chk (mlp_ops sd t m n0 ps) ex"),
    "pool": ("(mode * Z * list Z * Z * list (nat * list sched)) * (list (list Z) * list (list (list Z)) * list (list Z))",
             "fun c => let '(m, n, pids, now, ch, ex) := c in chk_pool (pool_run_pids (mkGen (-1) 0 0) m n pids now ch) ex"),
}


MODEL_TERM = {
    "std": "let '(sd, t, m, ss, ex) := c in let '(es, sm, _) := run (std_ops sd t m ss) amb in (map enc_ev es, map enc_sample sm)",
    "mlc": "let '(sd, t, m, n0, lv, ex) := c in let '(es, sm, _) := run (mlc_ops sd t m n0 lv) amb in (map enc_ev es, map enc_sample sm)",
    "mlp": "let '(sd, t, m, n0, ps, ex) := c in let '(es, sm, _) := run (mlp_ops sd t m n0 ps) amb in (map enc_ev es, map enc_sample sm)",
    "pool": "let '(m, n, pids, now, ch, ex) := c in let '(pe, logs, sm) := pool_run_pids (mkGen (-1) 0 0) m n pids now ch in "
            "(map enc_ev pe ++ concat (map (map enc_ev) logs), map enc_sample sm)",
}


def explain_mismatch(group, case, expected):
    """evaluates the model on one disagreeing case and says where its trace leaves the implementation's"""
    import re
    from common import coq_eval_file
    text = (HEADER + f"Definition c : {COQ_GROUPS[group][0]} := {case}.\n"
            f"Definition out := Eval vm_compute in ({MODEL_TERM[group]}).\nPrint out.\n")
    try:
        rc, out = coq_eval_file(PROP, "explain", text, timeout=300)
        body = out[out.index("=") + 1:out.rindex(":")]
        body = re.sub(r"\s+", " ", body).replace(";", ",").replace("(", "[").replace(")", "]")
        mev, msm = json.loads(body)
    except Exception as e:  # noqa: BLE001 -- explanation only
        return f"(no explanation: {type(e).__name__}: {e})"
    xev, xsm = expected
    for name, a, b in (("event", mev, xev), ("sample", msm, xsm)):
        for i in range(max(len(a), len(b))):
            x = a[i] if i < len(a) else None
            y = b[i] if i < len(b) else None
            if x != y:
                return (f"first difference: {name} #{i}: model {x} vs implementation {y} "
                        f"(model {len(a)} {name}s, implementation {len(b)}; context impl {b[max(0, i - 3):i + 2]})")
    return "model output equals the expected lists when re-evaluated (literal/encoding problem?)"


def correspond(res):
    E = env()
    rng = random.Random(res.seed)
    cfgs = gen_cfgs(rng, res.tier)
    cases = {g: [] for g in COQ_GROUPS}
    info = {g: [] for g in COQ_GROUPS}
    expect = {g: [] for g in COQ_GROUPS}
    try:
        for group in ("std", "mlc", "mlp", "pool", "mlpool"):
            for cfg in cfgs[group]:
                case = process_run(res, E, group, cfg, rng)
                if case is not None:
                    cases[group].append(case)
                    info[group].append(cfg)
                    expect[group].append(LAST_EXPECTED[0])
            if group in RUNNER:   # two runs with the same seed, different ambient generator states: bit-for-bit equal
                seeded = [c for c in cfgs[group] if c["seed"] is not None]
                for cfg in seeded[:: (3 if res.tier == "quick" else 1)]:
                    repeat_oracle(res, E, cfg, RUNNER[group], rng)
                    res.count(("repeat", str(cfg)), kind=f"repeat/{group}")
    finally:
        cleanup(E)
    # ---- Coq side: the model must produce exactly the traced events and sample positions
    groups_coq = [(g, COQ_GROUPS[g][0], COQ_GROUPS[g][1], cases[g]) for g in COQ_GROUPS if cases[g]]
    res.case_lemmas += len(COQ_GROUPS)
    bad = coq_bad_indices(PROP, "cases", HEADER, groups_coq, timeout=900)   # common.run_dir: one directory per invocation
    for g, ty, chk, cs in groups_coq:
        if bad[g]:
            i = bad[g][0]
            res.broke(f"correspondence {g}", f"model trace and implementation trace differ on {len(bad[g])} of {len(cs)} run(s), first: "
                                             f"config={info[g][i]} {explain_mismatch(g, cs[i], expect[g][i])} case={cs[i][:600]}")
        else:
            res.case_ok += 1


def cleanup(E):
    import shutil
    shutil.rmtree(str(E["logdir"]), ignore_errors=True)


def search(res):
    """something is broken and the oracle of the quick sweep found nothing: larger oracle-only sweep"""
    E = env()
    rng = random.Random(res.seed + 1)
    cfgs = gen_cfgs(rng, "thorough")
    quiet = type(res)(res.prop, res.tier, res.seed)
    for group in ("std", "mlc", "mlp", "pool", "mlpool"):
        for cfg in cfgs[group][:: (2 if res.tier == "quick" else 1)]:
            process_run(quiet, E, group, cfg, rng)
        if group in RUNNER:
            for cfg in [c for c in cfgs[group] if c["seed"] is not None][::2]:
                repeat_oracle(quiet, E, cfg, RUNNER[group], rng)
    cleanup(E)
    res.violations.extend(quiet.violations)
    res.notes.append(f"search: {quiet.evaluations} further runs, {len(quiet.violations)} violations")


def replay(path):
    data = json.load(open(path))
    print(json.dumps({k: v for k, v in data.items() if k != "broken_obligations"}, indent=1)[:2500])
    cfg = data.get("config")
    if not cfg:
        print("replay: no configuration in this file (broken obligation without failing input); re-run ./check C08")
        return 1
    from common import Result
    E = env()
    res = Result(PROP, "quick", 0)
    rng = random.Random(12345)
    if data.get("kind") == "repeat":
        repeat_oracle(res, E, cfg, RUNNER[cfg["engine"]], rng)
    else:
        group = ("pool" if cfg["engine"] == "std" else "mlpool") if cfg["nproc"] != 1 else cfg["engine"]
        process_run(res, E, group, cfg, rng)
    cleanup(E)
    same = [v for v in res.violations if v["what"] == data.get("what")] or res.violations
    for v in same[:3]:
        print("REPRODUCED:", v["what"], json.dumps({k: v["replay"][k] for k in v["replay"] if k != "config"}, default=str)[:600])
    if not same:
        print("not reproduced: the implementation passes the oracle on this configuration")
    return 1 if same else 0

"""C09 -- closed-form Levy-measure integrals equal integrals of the model's own density.

correspond(res) =
  (1) oracle on the implementation only: nu.integrate / integrate_against_x / _xx / _xn versus mpmath quadrature of
      x^n * nu(x) with the implementation's own __call__ density (both sides of zero, straddling, half-lines, points,
      truncations, n = 0..5), tools.integral.integral_xn_exp_minus_x versus quadrature, additivity and sign sweeps;
  (2) correspondence of the Coq model with the implementation by interval-arithmetic case lemmas
      `Rabs (closed_R params a b - <impl float as exact rational>) <= tol`, compiled in parallel.
"""
import json
import math
import random
from fractions import Fraction

import levycases as L
from levycases import INF, rlit, tol_lit, Case

PROP = "C09"
PROPERTY_FILE = "Properties/C09.v"
GEN_DEPS = ["GenC09Hem", "GenC09Vg", "GenC09Merton", "GenC09Trunc"]
RULE = ("oracle cases: (model, parameters, interval kind, n, route) with models HEM/Merton/VG/CGMY (fixed + random parameters, "
        "CGMY y in {-0.5,0,0.3,1,1.5,random}), 14 interval kinds (pos, neg, straddle, touching 0, half-lines, whole line, points), "
        "n = 0..5 through integrate/_x/_xx and integrate_against_xn, truncations; non-trivial = the integral is finite and the "
        "interval is not a point; infinite integrals must be reported as +-inf; CGMY y = {0,1} +- 1e-3..1e-8 with relative tolerance 1e-6; "
        "Coq cases: interval-arithmetic lemmas per (model, closed form, branch), per density, CGMY formula-vs-code-value, and the generic "
        "fall-backs' branch structure with every recorded scipy.quad call as data; generic fall-backs driven through a LevyMeasure subclass "
        "that only defines its density (HEM/Merton densities: 10 interval kinds incl. straddling/half-lines/whole line, n = 0..4; VG/CGMY "
        "singular densities: one side of zero and, for n >= 3, straddling); CGMY with a rate of zero (g = 0 or m = 0, y > 0) on both sides "
        "and straddling, n = 0..3")
MODELLED = [
    "tools/integral.py (_helper_sum_fact_xk numpy dot, nested helper), VG integrate_against_xn, LevyMeasure.integrate_against_xn "
    "dispatch, TruncatedLevyMeasure.integrate*, CGMY tails: hand models in Model/LevyClosedForms.v tied by interval case lemmas",
    "float infinity: the token inf is the real parameter INF of the generated definitions; exp(-inf)=0, erf(inf)=1 are float "
    "semantics (half-line values are stated as limits)",
    "`raise ValueError` for a > b is modelled as the value 0 (all theorems assume a <= b); the oracle checks the exception",
    "scipy.special.erf / exp1 / gamma*gammaincc are modelled by their defining integrals (RInt), tied by `integral` case lemmas",
    "scipy.integrate.quad: never modelled, it is the parameter `quad` of Model/LevyGenericQuad.v with the specification quad_spec "
    "(returns the integral of x^n nu whenever it exists); the code AROUND it in LevyMeasure.integrate / _x / _xx / _xn (a > b guard, "
    "dispatch on n, split of a straddling interval at zero for n >= 3) is hand-modelled (generic_xn) and tied by case lemmas that take "
    "every quad call recorded on the implementation as a hypothesis; quad's accuracy (1e-6 rel + 1e-7 abs) is the oracle's business; "
    "CGMY second moment off the straddling case (scipy.quad inside cgmy.py): oracle only",
    "Python float `0.0 ** negative` raising ZeroDivisionError: option-valued model pypow / cgmy_x_neg_exec (None = the call raises), "
    "used only for the witness of finding F-C09-13",
]
ASSUMPTIONS = ["parameters in their declared domain (eta1, eta2, sigma_j, lambda+-, G, M > 0; 0 <= p <= 1; intensity >= 0)",
               "finite end points are strictly inside (-INF, INF) where INF stands for the float infinity"]
THEOREM_NOTES = {
    "count": "38 statements: 5 complete (HEM), 12 named _partial, 3 about the generic quadrature fall-backs (complete relative to quad_spec), "
             "10 corollaries/instances, 3 _refuted about the code BEFORE earlier fix: commits, 1 _refuted about the CURRENT code (F-C09-13), "
             "4 bookkeeping (C09_vg_x_nu, C09_hem_unroll_complete, C09_special_function_models, C09_vg_mass_infinite); 2 Examples",
    "C09_hem_mass/_x/_xx/_left_halfline/_right_halfline": "complete for HEM: every parameter set, every finite a <= b on either side of 0 or straddling, "
        "half-line values as limits of the finite integrals",
    "C09_xn_exp_partial": "every n and every finite a <= b; the half-line branches (a = -inf, b = +inf) of integral_xn_exp_minus_x are modelled "
        "(integral_xn_exp_left/right) but not proved as limits; oracle only",
    "C09_vg_*_partial": "finite end points (mass: one side of zero, where it is finite; C09_vg_mass_infinite: +inf is returned when 0 is in the closed "
        "interval); half-line values (exp(-inf) = 0, exp1(x) alone) oracle only",
    "C09_merton_*_partial": "finite end points; erf(+-inf) = +-1 needs the Gaussian integral (not in Coquelicot): half-lines oracle only",
    "C09_cgmy_*_partial": "0 < a <= b or a <= b < 0, every y < 2, stated on cgmy_tail_code / cgmy_tail_x_code = the branch structure the code executes "
        "(y = 0 and y = 1 through exp1, y >= 1 through one recursion step, otherwise the incomplete-gamma form). Not covered: end points at 0, "
        "straddling with y < 0, integrate_against_xx (gammainc / scipy.quad), half-lines, and FLOAT conditioning: near y = 0 and y = 1 the code "
        "loses all accuracy although the real formulas are exact (finding F-C09-7, oracle `_near_singular`)",
    "C09_additive / C09_sign": "generic in the closed form: hold for every F with is_RInt (x^n nu) a b (F a b); instantiated for HEM, x^n exp, VG n-th "
        "moments, Merton, CGMY (C09_additive_sign_cgmy: mass and first moment on each side of zero, every y < 2, 0 < g, m) and the generic "
        "fall-backs; these are the `Section Measure` hypotheses (mass_add, mass_pos) of C01/C03/C04",
    "C09_generic_fallback": "LevyMeasure.integrate / _x / _xx / integrate_against_xn of a measure WITHOUT closed forms: for every density nu, every "
        "quad meeting quad_spec, every n and every a <= b over which x^n nu is integrable, generic_xn quad n a b is the integral (n <= 2: one quad "
        "call over [a,b]; n >= 3: split at zero by Chasles).  Relative to the specification of scipy.quad: its numerical error, and its behaviour "
        "when the integral does not exist, are outside the statement (oracle: 1e-6 rel + 1e-7 abs; for n <= 2 the code does NOT split at zero, so "
        "across a singular density quad is only as accurate as it manages: observed 3e-6 relative for |x|^-0.5, not asserted)",
    "C09_generic_additive_sign / C09_generic_truncated": "what the callers rely on, for a density with x^n nu integrable on every interval (HEM, Merton "
        "and every bounded piecewise-continuous density; NOT VG/CGMY across zero): additivity, sign rules and TruncatedLevyMeasure over the "
        "generic fall-backs; C09_generic_nonvacuous: quad_spec is met by RInt itself and the three branches are taken",
    "C09_cgmy_rate0_refuted": "CURRENT code, finding F-C09-13 (known): CGMY(c=1, g=0, m=5, y=1/2), first moment over [-1,-1/4] is -1 (proved) but the "
        "executed closed form raises (0.0 ** (y-1)); the oracle reports ZeroDivisionError (first moment, 0 < y < 1) and nan (mass and first "
        "moment, y = 1) on the side whose rate is zero; the mass for y <> 1, every second moment and the other side agree with quadrature",
    "C09_truncated": "the closed form has to be valid only on the CLIPPED interval [max a l, min b r] (pair predicate P), so l < 0 < r is allowed for "
        "infinite-activity masses: instance C09_truncated_vg_mass; C09_truncated_hem is the end-point-domain instance",
    "C09_xn_exp_refuted / C09_base_xn0_refuted / C09_vg_xn_refuted": "witnesses about the code BEFORE the fix: commits (models *_old); findings F-C09-1/2/3",
    "not_covered": "CGMY second moment (gammainc closed form for straddling intervals, scipy.quad otherwise), CGMY end points at zero / straddling "
        "with y < 0 / half-lines, VG / Merton / x^n exp half-lines as limits: oracle only.  Considered in wave 5 and not attempted: the straddling CGMY "
        "second moment needs the lower incomplete gamma integral from 0, which is improper for 1 < y < 2 (not an is_RInt) and, for y < 1, has "
        "Coq's Rpower 0 s = 1 as a one-point discontinuity",
}

QUICK = dict(n_random=2, reps=1, coq_per_group=6)
THOROUGH = dict(n_random=8, reps=2, coq_per_group=40)


def _cfg(res):
    return QUICK if res.tier == "quick" else THOROUGH


# ============================================================================================ oracle
def _finding_for(kind, params, a, b, n, via):
    if kind == "cgmy" and (params["g"] == 0 or params["m"] == 0):
        return "F-C09-13"
    if kind == "cgmy" and params["y"] < 0 and (a == 0 or b == 0 or a < 0 < b) and n == 0:
        return "F-C09-4"
    if via == "xn" and kind == "vg":
        return "F-C09-3" if n >= 1 else "F-C09-5"
    if via == "xn" and n == 0:
        return "F-C09-1"
    if via == "xn" and n >= 3 and a < 0 < b:
        return "F-C09-6"
    return None


def _cancel_tol(n, alpha, scale=1.0):
    """helper(a) - helper(b) in integral_xn_exp_minus_x subtracts two numbers of size up to n!/alpha^(n+1): the float result
    carries an absolute rounding error of that size times a few ulps (stated tolerance, not a defect of the formula)"""
    return 1e-15 * abs(scale) * math.factorial(n) / alpha ** (n + 1)


def _quad_route(kind, n, via):
    """does the implementation answer through scipy.integrate.quad (default epsabs = epsrel = 1.49e-8)?"""
    if n >= 3 and kind != "vg":
        return True
    return kind == "cgmy" and n == 2


def _check_one(res, kind, params, nu, a, b, n, via, ikind, trunc=None):
    case = (kind, tuple(sorted(params.items())), a, b, n, via, trunc)
    finite = L.integral_is_finite(kind, params, *( _clip(a, b, trunc) if trunc else (a, b)), n)
    res.bump("oracle_interval_kind", ikind)
    res.bump("oracle_n", n)
    if not finite:
        _check_infinite(res, kind, params, nu, a, b, n, via, case, trunc)
        return
    extra = tuple(trunc) if trunc else ()
    ref = L.quad_xn_nu(nu, a, b, n, extra=extra)
    rep = dict(kind="integral", model=kind, params=params, a=a, b=b, n=n, via=via, truncations=list(trunc) if trunc else None,
               expected_quadrature=ref)
    fid = _finding_for(kind, params, a, b, n, via)
    if fid:
        rep["finding"] = fid
    try:
        val = L.call_integral(nu, a, b, n, via)
        val = float(val)
    except Exception as e:  # noqa
        res.count(case, nontrivial=a != b, kind=f"oracle {kind} {via}")
        rep["raised"] = f"{type(e).__name__}: {e}"
        res.violation(f"{kind}: {'integrate_against_xn' if via == 'xn' else ['integrate','integrate_against_x','integrate_against_xx'][n]} "
                      f"raises {type(e).__name__} on an interval where the integral is finite", rep)
        return
    res.count(case, nontrivial=a != b, kind=f"oracle {kind} {via}")
    quad = _quad_route(kind, n, via)
    if quad:
        res.bump("oracle_route", "scipy.quad fallback (tolerance 1e-6 rel + 1e-7 abs)")
    else:
        res.bump("oracle_route", "closed form (tolerance 5e-8 rel + 1e-10 abs)")
    extra = 0.0
    if kind == "vg" and via == "xn" and n >= 1:
        base = nu.levy_measure if trunc else nu
        pr = base.parameters
        extra = _cancel_tol(n - 1, min(float(pr._lambda_m), float(pr._lambda_p)), float(pr._c))
    if not (L.close(val, ref, rel=1e-6, ab=1e-7) if quad else L.close(val, ref, ab=1e-10 + extra)):
        rep["got"] = val
        res.violation(f"{kind}{' (truncated)' if trunc else ''}: closed-form integral of x^{n} nu differs from the quadrature of the "
                      f"model's own density (route {via})", rep)
    return val


def _check_infinite(res, kind, params, nu, a, b, n, via, case, trunc):
    """the integral of |x|^n nu over [a,b] is infinite (infinite activity / variation, zero in the closed interval):
    the mass must be reported as +inf; a first moment over an interval with ONE end point at zero as +inf / -inf.
    (odd moments over an interval that straddles zero are inf - inf: nothing is asserted)"""
    ca, cb = _clip(a, b, trunc) if trunc else (a, b)
    if n == 0:
        want = INF
    elif n == 1 and (ca == 0 or cb == 0) and not (ca < 0 < cb):
        want = INF if ca >= 0 else -INF
    else:
        res.count(case, nontrivial=False, kind=f"oracle {kind} (undefined integral: skipped)")
        return
    res.count(case, nontrivial=True, kind=f"oracle {kind} infinite integral must be reported as {want}")
    rep = dict(kind="infinite", model=kind, params=params, a=a, b=b, n=n, via=via, truncations=list(trunc) if trunc else None, expected=str(want),
               finding="F-C09-8" if n == 0 else "F-C09-9")
    try:
        val = float(L.call_integral(nu, a, b, n, via))
    except Exception as e:  # noqa
        rep["raised"] = f"{type(e).__name__}: {e}"
        res.violation(f"{kind}: integral of x^{n} nu over an interval where it is infinite raises {type(e).__name__} instead of returning {want}", rep)
        return
    if val != want:
        rep["got"] = val
        res.violation(f"{kind}: integral of x^{n} nu over an interval where it is infinite is reported as a finite / wrong-signed / nan value", rep)


def _near_singular(res, rng):
    """CGMY closed forms for an activity index within 1e-3 .. 1e-8 of the removable singularities y = 0 and y = 1
    (division by alpha, by alpha - 1, and the recursion entered with alpha - 1 ~ 0): relative tolerance 1e-6."""
    cfg = _cfg(res)
    deltas = [1e-3, 1e-4, 1e-5, 1e-6, 1e-7, 1e-8]
    for y0 in (0.0, 1.0):
        for d in deltas:
            for sgn in (1, -1):
                y = y0 + sgn * d
                params = dict(c=L.rnd(rng, 0.3, 2), g=L.rnd(rng, 2, 8, 1), m=L.rnd(rng, 2, 8, 1), y=y)
                _, nu = L.build("cgmy", params)
                x0 = rng.choice([0.1, 0.25, 0.5, 1.0])
                ivs = [(x0, x0 + 1e-7), (x0, x0 + 0.4), (-x0 - 0.4, -x0), (x0, INF)][: (4 if cfg is THOROUGH else 3)]
                for (a, b) in ivs:
                    for n in (0, 1):
                        ref = L.quad_xn_nu(nu, a, b, n)
                        case = ("near", y0, sgn * d, a, b, n, tuple(sorted(params.items())))
                        res.count(case, kind="oracle cgmy near y=0 / y=1")
                        res.bump("near_singular_delta", f"{d:.0e}")
                        u = params["m"] if a > 0 else params["g"]
                        h = min(abs(a), abs(b))
                        scale = params["c"] * math.exp(-u * h) / h ** (y + 1 - n)
                        rep = dict(kind="integral", model="cgmy", params=params, a=a, b=b, n=n, via="direct", truncations=None,
                                   expected_quadrature=ref, finding="F-C09-7", delta=d, near=y0, cancellation_scale=scale)
                        try:
                            val = float(L.call_integral(nu, a, b, n, "direct"))
                        except Exception as e:  # noqa
                            rep["raised"] = f"{type(e).__name__}: {e}"
                            res.violation("cgmy near y in {0,1}: closed form raises", rep)
                            continue
                        if not L.close(val, ref, rel=1e-6, ab=0.0):
                            rep["got"] = val
                            res.violation(f"cgmy: closed-form integral of x^{n} nu loses accuracy (relative error > 1e-6, possibly the sign) "
                                          f"for an activity index within {d:.0e} of {y0:g}", rep)


class PlainMeasure:
    """a LevyMeasure WITHOUT closed forms (only __call__): exercises the generic scipy.quad fall-backs of levymodel.py:81-110"""

    def __new__(cls, inner):
        from rpylib.model.levymodel.levymodel import LevyMeasure

        class _Plain(LevyMeasure):
            def __init__(self, inner_):
                self.inner = inner_

            def __call__(self, x):
                return self.inner(x)

            def jump_of_finite_activity(self):
                return True

            def jump_of_finite_variation(self):
                return True

            def blumenthal_getoor_index(self):
                return 0.0
        return _Plain(inner)


def _misc_oracle(res, rng):
    """(a) generic quadrature fall-backs of LevyMeasure (a measure that only defines its density);
       (b) a > b: every family either raises ValueError or returns minus the integral over [b, a] (orientation), never anything else;
       (c) parameters that make the density negative must be refused (HEM p outside [0,1])."""
    # (a)
    for kind, gen in (("hem", L.hem_params), ("merton", L.merton_params)):
        for _ in range(2 if res.tier == "quick" else 6):
            params = gen(rng)
            _, nu = L.build(kind, params)
            plain = PlainMeasure(nu)
            for ikind in ("pos", "neg", "right-halfline", "left-halfline", "point", "straddle", "touch0-right", "touch0-left",
                          "left-halfline-straddle", "whole-line"):
                a, b = L.interval(rng, ikind)
                for n in range(5):
                    for via in (["direct", "xn"] if n <= 2 else ["xn"]):
                        res.bump("generic_fallback", f"{kind} {ikind} n={n}{' split at zero' if n >= 3 and a < 0 < b else ''}")
                        ref = L.quad_xn_nu(nu, a, b, n)
                        res.count(("generic", kind, tuple(sorted(params.items())), a, b, n, via), kind="oracle generic quadrature fall-back")
                        rep = dict(kind="generic-fallback", model=kind, params=params, a=a, b=b, n=n, via=via, expected_quadrature=ref)
                        try:
                            val = float(L.call_integral(plain, a, b, n, via))
                        except Exception as e:  # noqa
                            rep["raised"] = f"{type(e).__name__}: {e}"
                            res.violation("generic LevyMeasure quadrature fall-back raises on a valid interval", rep)
                            continue
                        if not L.close(val, ref, rel=1e-6, ab=1e-7):
                            rep["got"] = val
                            res.violation("generic LevyMeasure quadrature fall-back differs from the quadrature of the density", rep)
            for f in (plain.integrate, plain.integrate_against_x, plain.integrate_against_xx, lambda a, b: plain.integrate_against_xn(a, b, 3)):
                try:
                    f(1.0, 0.5)
                    res.violation("generic LevyMeasure.integrate*(a,b) with a > b does not raise", dict(kind="order", model="generic"))
                except ValueError:
                    pass
    # (a') the same fall-backs on densities that are SINGULAR at zero (VG ~ 1/|x|, CGMY ~ |x|^-(1+y)): one side of zero for every n,
    # and straddling intervals for n >= 3, where integrate_against_xn splits at zero (integrate/_x/_xx do not split: a quadrature
    # across the singularity only has the accuracy scipy.quad reaches there, so those are not asserted)
    for kind, params in (("vg", L.vg_params(rng)), ("cgmy", L.cgmy_params(rng, y=0.3)), ("cgmy", L.cgmy_params(rng, y=-0.5))):
        _, nu = L.build(kind, params)
        plain = PlainMeasure(nu)
        for ikind in ("pos", "neg", "straddle", "right-halfline-straddle"):
            a, b = L.interval(rng, ikind)
            for n in range(6):
                if a < 0 < b and n < 3:
                    continue
                res.bump("generic_fallback", f"{kind} (singular density) {ikind} n={n}{' split at zero' if a < 0 < b else ''}")
                ref = L.quad_xn_nu(nu, a, b, n)
                res.count(("generic-singular", kind, tuple(sorted(params.items())), a, b, n), kind="oracle generic quadrature fall-back")
                rep = dict(kind="generic-fallback", model=kind, params=params, a=a, b=b, n=n, via="xn", expected_quadrature=ref)
                try:
                    val = float(plain.integrate_against_xn(a, b, n))
                except Exception as e:  # noqa
                    rep["raised"] = f"{type(e).__name__}: {e}"
                    res.violation("generic LevyMeasure quadrature fall-back raises on a valid interval", rep)
                    continue
                if not L.close(val, ref, rel=1e-6, ab=1e-7):
                    rep["got"] = val
                    res.violation("generic LevyMeasure quadrature fall-back differs from the quadrature of the density", rep)
    # (b)
    for kind, params in L.model_sets(rng, 1):
        _, nu = L.build(kind, params)
        for (a, b) in ((0.3, 1.2), (-1.1, -0.2)):
            for n in range(4):
                for via in (["direct", "xn"] if n <= 2 else ["xn"]):
                    if not L.integral_is_finite(kind, params, a, b, n):
                        continue
                    fwd = float(L.call_integral(nu, a, b, n, via))
                    res.count(("order", kind, tuple(sorted(params.items())), a, b, n, via), kind="oracle a > b raises or is orientation-consistent")
                    try:
                        rev = float(L.call_integral(nu, b, a, n, via))
                    except ValueError:
                        res.bump("a>b", f"{kind}: ValueError")
                        continue
                    except Exception as e:  # noqa
                        res.violation(f"{kind}: integrate*(a,b) with a > b raises {type(e).__name__}",
                                      dict(kind="order", model=kind, params=params, a=b, b=a, n=n, via=via, raised=str(e)))
                        continue
                    res.bump("a>b", f"{kind}: minus the integral over [b,a]")
                    if not L.close(rev, -fwd, rel=1e-6, ab=1e-7):
                        res.violation(f"{kind}: integrate*(a,b) with a > b neither raises nor returns minus the integral over [b,a]",
                                      dict(kind="order", model=kind, params=params, a=b, b=a, n=n, via=via, got=rev, forward=fwd))
    # (c)
    from rpylib.model.levymodel.mixed.hem import HEMParameters
    for p in (1.5, 1.0001, -0.2):
        res.count(("domain", "hem", p), kind="oracle parameter domain")
        try:
            hp = HEMParameters(sigma=0.1, p=p, eta1=8.0, eta2=4.0, intensity=2.0)
        except ValueError:
            continue
        _, nu = L.build("hem", dict(sigma=0.1, p=p, eta1=8.0, eta2=4.0, intensity=2.0))
        res.violation("hem: parameters with p outside [0,1] are accepted: the Levy density is negative on one side",
                      dict(kind="domain", model="hem", p=p, density_at_minus_0_1=float(nu(-0.1)), density_at_0_1=float(nu(0.1)), finding="F-C09-10"))
    for kind, params in L.model_sets(rng, 1):
        _, nu = L.build(kind, params)
        for x in (-1.3, -0.2, -0.01, 0.01, 0.2, 1.3):
            res.count(("density>=0", kind, tuple(sorted(params.items())), x), kind="oracle density non-negative")
            if not float(nu(x)) >= 0.0:
                res.violation(f"{kind}: the Levy density is negative", dict(kind="density-sign", model=kind, params=params, x=x, got=float(nu(x))))


def _degenerate_oracle(res, rng):
    """CGMYParameters declares g and m `positive` (>= 0) and integrate_against_xx has explicit `m == 0` / `g == 0` branches: a rate of
    zero (one-sided stable-like tail c/|x|^(1+y); a Levy measure for y > 0) is a parameter value of the family.  Every integral over a
    finite interval that does not contain zero is finite: integrate / _x / _xx / _xn against the quadrature of the model's own density,
    on the side whose rate is zero and on the other one, and the straddling second-moment closed form (gammainc branch vs power branch)."""
    for (g, m) in ((0.0, L.rnd(rng, 2, 8, 1)), (L.rnd(rng, 2, 8, 1), 0.0)):
        for y in (0.5, 1.0, 1.5, L.rnd(rng, 0.05, 0.95)):
            params = dict(c=L.rnd(rng, 0.3, 2), g=g, m=m, y=y)
            try:
                _, nu = L.build("cgmy", params)
            except ValueError:
                res.bump("degenerate_rate", "refused by CGMYParameters")
                continue
            for ikind in ("pos", "neg", "straddle"):
                a, b = L.interval(rng, ikind)
                for n in range(4):
                    if a < 0 < b and n - 1 - y <= -1:
                        continue    # not integrable at zero
                    for via in (["direct", "xn"] if n <= 2 else ["xn"]):
                        res.bump("degenerate_rate", f"{'g' if g == 0 else 'm'}=0 {ikind} n={n}")
                        _check_one(res, "cgmy", params, nu, a, b, n, via, "degenerate:" + ikind)


def _rebuilt_oracle(res, rng):
    """models REBUILT the way the library's calibration builds them (rpylib/model/utils.py): deep copy of the parameters, one
    attribute set to a new value, initialisation(), construction of the model -- every parameter of every family in turn.
    The closed forms (which may read quantities cached in the parameters) must still be the integrals of the rebuilt model's
    own density: integrate / _x / _xx / _xn, one side of zero, straddling, half-lines, truncated."""
    import copy
    from rpylib.model.levymodel.levymodel import TruncatedLevyMeasure
    news = {"hem": dict(sigma=[0.2], p=[0.25, 0.8], eta1=[4.0, 25.0], eta2=[2.5, 18.0], intensity=[0.6, 6.0]),
            "merton": dict(sigma=[0.2], mu_j=[0.3, 0.02], sigma_j=[0.1, 0.45], intensity=[0.4, 3.0]),
            "vg": dict(sigma=[0.3, 0.09], nu=[0.6, 0.08], theta=[0.2, -0.3]),
            "cgmy": dict(c=[0.12, 2.4], g=[2.5, 11.0], m=[12.0, 3.0], y=[1.3, -0.5, 1.0, 0.0, 0.7])}
    for kind in ("hem", "merton", "vg", "cgmy"):
        base_params = dict(L.FIXED[kind][0]) if kind != "cgmy" else dict(c=0.05, g=10.0, m=8.0, y=0.5)
        base_model, _ = L.build(kind, base_params)
        for name, values in news[kind].items():
            for value in (values if res.tier != "quick" else values[:2]):
                pars = copy.deepcopy(base_model.parameters)
                setattr(pars, name, value)
                pars.initialisation()
                model = type(base_model)(pars)
                nu = model.levy_triplet.nu
                params = dict(base_params, **{name: value})
                res.bump("rebuilt_parameter", f"{kind}.{name}")
                l, r = -L._pt(rng), L._pt(rng)
                tnu = TruncatedLevyMeasure(nu, (l, r))
                ikinds = ("straddle", "straddle", "pos", "neg", "touch0-right", "left-halfline-straddle", "right-halfline-straddle", "whole-line")
                for ikind in (ikinds if res.tier != "quick" else ("straddle", "neg", "touch0-right", "right-halfline-straddle")):
                    a, b = L.interval(rng, ikind)
                    for n in range(4):
                        for via in (["direct", "xn"] if n <= 2 else ["xn"]):
                            for meas, trunc in ((nu, None), (tnu, (l, r))):
                                before = len(res.violations)
                                _check_one(res, kind, params, meas, a, b, n, via, "rebuilt:" + ikind, trunc=trunc)
                                for v in res.violations[before:]:
                                    v["what"] = ("after the calibration sequence (deepcopy parameters, set " + name + ", initialisation(), rebuild): " + v["what"])
                                    v["replay"].update(rebuilt=dict(base=base_params, attribute=name, value=value))
                                    v["replay"].pop("finding", None)


def _emul_tail(alpha, h, u):
    """harness copy, in the same double arithmetic and operation order, of cgmy.py __integrate_h_to_inf"""
    import numpy as np
    import scipy.special as sp
    uh = u * h
    if alpha == 0:
        return sp.exp1(uh)
    if h == 0 and alpha < 0:
        return sp.gamma(-alpha) * u ** alpha
    expmuh = np.exp(-uh)
    if alpha >= 1:
        return expmuh / (alpha * h ** alpha) - (u / alpha) * _emul_tail(alpha - 1, h, u)
    g2malpha = sp.gamma(2 - alpha)
    ginccuh = sp.gammaincc(2 - alpha, uh)
    return (expmuh * (1 + uh / (1 - alpha)) - (uh ** alpha) * g2malpha * ginccuh / (1 - alpha)) / (alpha * (h ** alpha))


def _emul_tail_x(alpha, h, u):
    """harness copy of cgmy.py __integrate_h_to_inf_for_xx"""
    import numpy as np
    import scipy.special as sp
    uh = u * h
    if alpha == 1.0:
        return sp.exp1(uh)
    expmuh = np.exp(-uh)
    return (h ** (1 - alpha) * expmuh - u ** (alpha - 1) * sp.gamma(2 - alpha) * sp.gammaincc(2 - alpha, uh)) / (alpha - 1)


def _emul_cgmy(params, a, b, n):
    """the value cgmy.py's closed form takes in double arithmetic on a one-sided interval (mass n = 0, first moment n = 1)"""
    c, g, m, y = params["c"], params["g"], params["m"], params["y"]
    if n == 0:
        if a > 0:
            return c * _emul_tail(y, a, m) if b == INF else c * _emul_tail(y, a, m) - c * _emul_tail(y, b, m)
        return c * _emul_tail(y, -b, g) if a == -INF else c * _emul_tail(y, -b, g) - c * _emul_tail(y, -a, g)
    if a >= 0:
        return c * _emul_tail_x(y, a, m) if b == INF else c * (_emul_tail_x(y, a, m) - _emul_tail_x(y, b, m))
    return -c * _emul_tail_x(y, -b, g) if a == -INF else c * (_emul_tail_x(y, -a, g) - _emul_tail_x(y, -b, g))


def matches_known(v, known):
    """a recorded finding explains only the failures it predicts"""
    r = v["replay"]
    if known["id"] == "F-C09-7":
        # float cancellation at the removable singularities y = 0 / y = 1 of the CGMY closed forms.  The observed value must be the
        # one the code's OWN formula produces in double arithmetic (harness copy of the formula, same operation order): a different
        # formula (a series branch returning 0, a sign slip ...) does not reproduce it and stays an unlisted violation.
        if r.get("model") != "cgmy" or "got" not in r or r.get("truncations") or r.get("n") not in (0, 1):
            return False
        y, a, b = r["params"]["y"], float(r["a"]), float(r["b"])
        d = min(abs(y), abs(y - 1.0))
        if not (0 < d <= 1.001e-3) or a < 0 < b or a == 0 or b == 0:
            return False
        try:
            emul = float(_emul_cgmy(r["params"], a, b, r["n"]))
        except Exception:  # noqa
            return False
        ref = r["expected_quadrature"]
        err_emul = emul - ref
        return abs(err_emul) > 1e-6 * abs(ref) and abs(r["got"] - emul) <= 0.05 * abs(err_emul)
    if known["id"] == "F-C09-13":
        # CGMY with a rate of zero (g = 0 or m = 0, accepted by CGMYParameters): mass / first moment over an interval that meets the
        # side whose rate is zero.  Explains ONLY a ZeroDivisionError (0.0 ** negative) or a nan (inf - inf of the two tails); a finite
        # wrong value, another exception, the second moment, or an interval on the other side stay unlisted violations.
        if r.get("model") != "cgmy" or r.get("truncations") or r.get("n") not in (0, 1) or r.get("rebuilt"):
            return False
        g, m, a, b = r["params"]["g"], r["params"]["m"], float(r["a"]), float(r["b"])
        if not ((g == 0 and a < 0) or (m == 0 and b > 0)):
            return False
        if "raised" in r:
            return r["raised"].startswith("ZeroDivisionError")
        got = r.get("got")
        return isinstance(got, float) and got != got
    return False


def _clip(a, b, trunc):
    l, r = trunc
    return max(min(a, r), l), min(max(b, l), r)


def _oracle(res, rng):
    cfg = _cfg(res)
    models = L.model_sets(rng, cfg["n_random"])
    for kind, params in models:
        _, nu = L.build(kind, params)
        res.bump("oracle_model", kind if kind != "cgmy" else f"cgmy y={'<0' if params['y'] < 0 else ('0' if params['y'] == 0 else ('(0,1)' if params['y'] < 1 else ('1' if params['y'] == 1 else '(1,2)')))}")
        for ikind in L.INTERVAL_KINDS:
            for _ in range(cfg["reps"]):
                a, b = L.interval(rng, ikind)
                for n in range(6):
                    vias = ["direct", "xn"] if n <= 2 else ["xn"]
                    for via in vias:
                        _check_one(res, kind, params, nu, a, b, n, via, ikind)
        # a > b must raise (HEM declares it; the generic/truncated measure too)
        if kind == "hem":
            for f in (nu.integrate, nu.integrate_against_x, nu.integrate_against_xx):
                try:
                    f(1.0, 0.5)
                    res.violation("hem: integrate*(a,b) with a > b does not raise", dict(kind="order", model=kind, params=params))
                except ValueError:
                    pass
        # ---- additivity and sign sweeps (implementation only)
        for _ in range(6 * cfg["reps"]):
            pts = sorted(rng.sample([-3.0, -2.0, -1.0, -0.5, -0.1, 0.0, 0.1, 0.5, 1.0, 2.0, 3.0], 3))
            a, b, c = pts
            for n in range(6):
                if not L.integral_is_finite(kind, params, a, c, n):
                    continue
                try:
                    tot, l1, l2 = (L.call_integral(nu, u, v, n, "xn") for (u, v) in ((a, c), (a, b), (b, c)))
                except Exception:
                    continue  # reported by the sweep above
                res.count(("add", kind, tuple(sorted(params.items())), a, b, c, n), kind="oracle additivity")
                cx = 0.0
                if kind == "vg" and n >= 1:
                    cx = 3 * _cancel_tol(n - 1, min(float(nu.parameters._lambda_m), float(nu.parameters._lambda_p)), float(nu.parameters._c))
                if not (L.close(tot, l1 + l2, rel=1e-6, ab=2e-7) if _quad_route(kind, n, "xn") else L.close(tot, l1 + l2, ab=1e-10 + cx)):
                    rep = dict(kind="additivity", model=kind, params=params, a=a, b=b, c=c, n=n, whole=tot, parts=[l1, l2])
                    fid = _finding_for(kind, params, a, c, n, "xn")
                    if fid:
                        rep["finding"] = fid
                    res.violation(f"{kind}: integrate_against_xn is not additive over adjacent intervals", rep)
                sgn_ok = True
                for (u, v, val) in ((a, b, l1), (b, c, l2), (a, c, tot)):
                    eps = 1e-9 * max(1.0, abs(val)) + (2e-7 if _quad_route(kind, n, "xn") else 0.0) + cx
                    if n % 2 == 0 and val < -eps:
                        sgn_ok = False
                    if n % 2 == 1 and u >= 0 and val < -eps:
                        sgn_ok = False
                    if n % 2 == 1 and v <= 0 and val > eps:
                        sgn_ok = False
                    if not sgn_ok:
                        rep = dict(kind="sign", model=kind, params=params, a=u, b=v, n=n, got=val)
                        fid = _finding_for(kind, params, u, v, n, "xn")
                        if fid:
                            rep["finding"] = fid
                        res.violation(f"{kind}: integral of x^n nu has the wrong sign", rep)
                        break
        # ---- truncated measure
        from rpylib.model.levymodel.levymodel import TruncatedLevyMeasure
        for _ in range(2 * cfg["reps"]):
            l, r = -L._pt(rng), L._pt(rng)
            shape = rng.choice(["around0", "around0", "positive", "negative", "edge-at-zero"])
            if shape == "positive":
                l, r = sorted((abs(l), r + abs(l) + 0.125))
            elif shape == "negative":
                l, r = sorted((-r - abs(l) - 0.125, l))
            elif shape == "edge-at-zero":
                l, r = rng.choice([(0.0, r), (l, 0.0)])
            tnu = TruncatedLevyMeasure(nu, (l, r))
            res.bump("truncation_shape", shape)
            for x in (l - 0.5, l - 1e-9, r + 1e-9, r + 0.5):
                if tnu(x) != 0.0:
                    res.violation("truncated density does not vanish outside its truncation interval",
                                  dict(kind="trunc-density", model=kind, params=params, truncations=[l, r], x=x, got=float(tnu(x))))
            for ikind in rng.sample(L.INTERVAL_KINDS, 5) + ["disjoint"]:
                if ikind == "disjoint":     # an interval that does not meet the truncation: the integral is 0
                    a, b = (r + 0.5, r + 1.5) if rng.random() < 0.5 else (l - 2.0, l - 1.0)
                else:
                    a, b = L.interval(rng, ikind)
                for n in range(4):
                    for via in (["direct", "xn"] if n <= 2 else ["xn"]):
                        _check_one(res, kind, params, tnu, a, b, n, via, "trunc:" + ikind, trunc=(l, r))

    # ---- tools/integral.py directly
    from rpylib.tools.integral import integral_xn_exp_minus_x
    import mpmath as mp
    for _ in range(10 * cfg["reps"]):
        alpha = L.rnd(rng, 0.1, 9)
        for ikind in ("pos", "neg", "straddle", "touch0-right", "touch0-left", "right-halfline", "left-halfline",
                      "left-halfline-straddle", "right-halfline-straddle", "whole-line"):
            a, b = L.interval(rng, ikind)
            for n in range(7):
                pts = [a] + [p for p in (0.0,) if a < p < b] + [b]
                ref = float(mp.quad(lambda x: x ** n * mp.exp(-alpha * abs(x)), pts))
                rep = dict(kind="xn_exp", n=n, a=a, b=b, alpha=alpha, expected_quadrature=ref, finding="F-C09-2")
                res.count(("xnexp", alpha, a, b, n), kind="oracle integral_xn_exp_minus_x")
                try:
                    val = float(integral_xn_exp_minus_x(n=n, a=a, b=b, alpha=alpha))
                except Exception as e:  # noqa
                    rep["raised"] = f"{type(e).__name__}: {e}"
                    res.violation("integral_xn_exp_minus_x raises on a valid interval", rep)
                    continue
                if not L.close(val, ref, ab=1e-10 + _cancel_tol(n, alpha)):
                    rep["got"] = val
                    res.violation("integral_xn_exp_minus_x differs from the quadrature of x^n exp(-alpha|x|)", rep)



# ============================================================================================ Coq correspondence
HEADER = L.HEADER_COMMON + """From RV Require Import Base.RB Base.RSpecial Gen.GenC09Hem Gen.GenC09Vg Gen.GenC09Merton Gen.GenC09Trunc Model.LevyClosedForms Model.LevyGenericQuad
  Proofs.C09_Generic Proofs.C09_Hem Proofs.C09_XnExp Proofs.C09_Vg Proofs.C09_Merton Proofs.C09_Cgmy.
Lemma Reqb_eq x y : x = y -> Reqb x y = true.
Proof. intros ->. apply Reqb_same. Qed.
Ltac code_bool := repeat match goal with
  | |- context [Reqb ?x ?y] => first [rewrite (Reqb_eq x y) by lra | rewrite (Reqb_ne x y) by lra]
  | |- context [Rleb ?x ?y] => first [replace (Rleb x y) with true by (symmetry; apply Rleb_true; lra)
                                     | replace (Rleb x y) with false by (symmetry; apply Rleb_false; lra)]
  end.
Ltac xn_unfold := cbv [xn_helper helper_sum_fact_xk sum_pow_over_fact sgn_even fact Nat.even Nat.sub Nat.add Nat.mul
                       Init.Nat.add Init.Nat.mul INR negb].
"""
I80 = "interval with (i_prec 80)."
G80 = "integral with (i_prec 80)."


def _hem_cases(res, rng, per_group):
    cases = []
    names = ["hem_integrate", "hem_integrate_x", "hem_integrate_xx"]
    for kindk in ("pos", "neg", "straddle", "touch0-right", "touch0-left", "right-halfline", "left-halfline", "point"):
        for _ in range(per_group):
            params = L.hem_params(rng) if rng.random() < 0.8 else dict(L.FIXED["hem"][0])
            _, nu = L.build("hem", params)
            a, b = L.interval(rng, kindk)
            n = rng.randrange(3)
            try:
                v = float(L.call_integral(nu, a, b, n, "direct"))
            except Exception:
                continue
            args = " ".join(rlit(params[k]) for k in ("intensity", "p", "eta1", "eta2"))
            f = names[n]
            tl, _ = tol_lit(v)
            if a == -INF or b == INF:
                if n == 0:
                    # float semantics exp(-inf) = 0: the half-line mass is the limit form
                    side = f"hem_integrate_left {rlit(params['intensity'])} {rlit(params['p'])} {rlit(params['eta2'])} {rlit(b)}" if a == -INF \
                        else f"hem_integrate_right {rlit(params['intensity'])} {rlit(params['p'])} {rlit(params['eta1'])} {rlit(a)}"
                    stmt = f"Rabs ({side} - {rlit(v)}) <= {tl}"
                    proof = "unfold hem_integrate_left, hem_integrate_right. interval with (i_prec 80)."
                else:
                    aa = "(- INFV)" if a == -INF else rlit(a)
                    bb = "INFV" if b == INF else rlit(b)
                    stmt = f"Rabs ({f} INFV {args} {aa} {bb} - {rlit(v)}) <= {tl}"
                    proof = f"rewrite {f}_{'left' if a == -INF else 'right'} by lra. interval with (i_prec 80)."
            else:
                stmt = f"Rabs ({f} INFV {args} {rlit(a)} {rlit(b)} - {rlit(v)}) <= {tl}"
                if a < 0 < b:
                    proof = f"rewrite {f}_straddle, {f}_neg, {f}_pos by lra. interval with (i_prec 80)."
                elif b <= 0:
                    proof = f"rewrite {f}_neg by lra. interval with (i_prec 80)."
                else:
                    proof = f"rewrite {f}_pos by lra. interval with (i_prec 80)."
            cases.append(Case(("hem", n, kindk, a, b), stmt, proof, dict(model="hem", params=params, a=a, b=b, n=n, impl=v)))
            res.count(("coq-hem", tuple(sorted(params.items())), a, b, n), nontrivial=a != b, kind="coq hem")
    return cases


def _trunc_cases(res, rng, per_group):
    """truncated_interval (generated) against TruncatedLevyMeasure._truncated_interval: exact (max/min only)"""
    from rpylib.model.levymodel.levymodel import TruncatedLevyMeasure
    cases = []
    for _ in range(4 * per_group):
        l, r = sorted((round(rng.uniform(-2, 2), 2), round(rng.uniform(-2, 2), 2)))
        a, b = sorted((round(rng.uniform(-3, 3), 2), round(rng.uniform(-3, 3), 2)))
        t = TruncatedLevyMeasure(None, (l, r))
        aa, bb = t._truncated_interval(a, b)
        stmt = f"truncated_interval {rlit(l)} {rlit(r)} {rlit(a)} {rlit(b)} = ({rlit(aa)}, {rlit(bb)})"
        m1 = min(a, r)
        m2 = max(b, l)
        steps = [f"rewrite (Rmin_{'left' if a <= r else 'right'} {rlit(a)} {rlit(r)}) by lra.",
                 f"rewrite (Rmax_{'left' if m1 >= l else 'right'} {rlit(m1)} {rlit(l)}) by lra.",
                 f"rewrite (Rmax_{'left' if b >= l else 'right'} {rlit(b)} {rlit(l)}) by lra.",
                 f"rewrite (Rmin_{'left' if m2 <= r else 'right'} {rlit(m2)} {rlit(r)}) by lra."]
        proof = "rewrite truncated_interval_eq. " + " ".join(steps) + " reflexivity."
        cases.append(Case(("trunc", l, r, a, b), stmt, proof, dict(model="truncated_interval", l=l, r=r, a=a, b=b, impl=[aa, bb])))
        res.count(("coq-trunc", l, r, a, b), kind="coq truncated_interval")
    return cases


def _side(a, b):
    return "straddle" if a < 0 < b else ("neg" if b <= 0 else "pos")


def _xn_rewrites(a, b):
    """rewrites that expose xn_helper for integral_xn_exp_minus_x n alpha a b (finite a <= b)"""
    if a < 0 < b:
        return "rewrite xn_exp_straddle, xn_exp_neg, xn_exp_pos by lra."
    return "rewrite xn_exp_neg by lra." if b <= 0 else "rewrite xn_exp_pos by lra."


def _xn_exp_cases(res, rng, per_group):
    from rpylib.tools.integral import integral_xn_exp_minus_x
    cases = []
    for kindk in ("pos", "neg", "straddle", "touch0-right", "touch0-left"):
        for _ in range(per_group):
            a, b = L.interval(rng, kindk)
            n, alpha = rng.randrange(0, 6), L.rnd(rng, 0.2, 9)
            v = float(integral_xn_exp_minus_x(n=n, a=a, b=b, alpha=alpha))
            tl, _ = tol_lit(v, ab=1e-12 + _cancel_tol(n, alpha))
            stmt = f"Rabs (integral_xn_exp_minus_x {n}%nat {rlit(alpha)} {rlit(a)} {rlit(b)} - {rlit(v)}) <= {tl}"
            cases.append(Case(("xn_exp", n, kindk), stmt, f"{_xn_rewrites(a, b)} xn_unfold. {I80}", dict(n=n, alpha=alpha, a=a, b=b, impl=v)))
            res.count(("coq-xnexp", n, alpha, a, b), kind="coq integral_xn_exp_minus_x")
    return cases


def _vg_cases(res, rng, per_group):
    cases = []
    for kindk in ("pos", "neg", "straddle", "touch0-right", "touch0-left"):
        for _ in range(per_group):
            params = L.vg_params(rng) if rng.random() < 0.8 else dict(L.FIXED["vg"][0])
            _, nu = L.build("vg", params)
            c, lm, lp = (float(getattr(nu.parameters, k)) for k in ("_c", "_lambda_m", "_lambda_p"))
            args = f"{rlit(c)} {rlit(lm)} {rlit(lp)}"
            a, b = L.interval(rng, kindk)
            n = rng.randrange(0, 6)
            if n == 0 and kindk not in ("pos", "neg"):
                n = 1
            info = dict(model="vg", params=params, c=c, lm=lm, lp=lp, a=a, b=b, n=n)
            side = _side(a, b)
            if n == 0:
                v = float(nu.integrate(a, b))
                stmt = f"Rabs (vg_integrate (E1c 0) INFV {args} {rlit(a)} {rlit(b)} - {rlit(v)}) <= {tol_lit(v)[0]}"
                proof = f"rewrite vg_integrate_{'pospos' if side == 'pos' else 'negneg'} by lra. unfold e1f. {G80}"
                cases.append(Case(("vg", "mass", kindk), stmt, proof, dict(info, impl=v)))
            else:
                if n <= 2:
                    f = ["", "vg_integrate_x", "vg_integrate_xx"][n]
                    v = float([None, nu.integrate_against_x, nu.integrate_against_xx][n](a, b))
                    stmt = f"Rabs ({f} INFV {args} {rlit(a)} {rlit(b)} - {rlit(v)}) <= {tol_lit(v)[0]}"
                    rw = f"rewrite {f}_straddle, {f}_neg, {f}_pos by lra." if side == "straddle" else f"rewrite {f}_{side} by lra."
                    cases.append(Case(("vg", f, kindk), stmt, f"{rw} {I80}", dict(info, impl=v)))
                v = float(nu.integrate_against_xn(a, b, n))
                stmt = (f"Rabs (vg_integrate_xn {args} {n}%nat {rlit(a)} {rlit(b)} - {rlit(v)}) <= "
                        f"{tol_lit(v, ab=1e-12 + _cancel_tol(n - 1, min(lm, lp), c))[0]}")
                rw = ("rewrite vg_integrate_xn_straddle, vg_integrate_xn_neg, vg_integrate_xn_pos by lra. rewrite xn_exp_neg, xn_exp_pos by lra."
                      if side == "straddle" else f"rewrite vg_integrate_xn_{side} by lra. rewrite xn_exp_{side} by lra.")
                cases.append(Case(("vg", "xn", n, kindk), stmt, f"{rw} xn_unfold. {I80}", dict(info, impl=v, via="xn")))
            res.count(("coq-vg", tuple(sorted(params.items())), a, b, n), kind="coq vg")
    return cases


def _merton_cases(res, rng, per_group):
    cases = []
    for kindk in ("pos", "neg", "straddle", "touch0-right", "touch0-left"):
        for _ in range(per_group):
            params = L.merton_params(rng) if rng.random() < 0.8 else dict(L.FIXED["merton"][0])
            _, nu = L.build("merton", params)
            a, b = L.interval(rng, kindk)
            n = rng.randrange(3)
            v = float(L.call_integral(nu, a, b, n, "direct"))
            args = _lits(params, ("intensity", "mu_j", "sigma_j"))
            f = ["merton_integrate", "merton_integrate_x", "merton_integrate_xx"][n]
            call = f"{f} {'INFV ' if n == 2 else ''}{args} {rlit(a)} {rlit(b)}"
            stmt = f"Rabs ({call} - {rlit(v)}) <= {tol_lit(v)[0]}"
            proof = f"rewrite {f}_as_RInt{' by lra' if n == 2 else ''}. unfold gauss. {G80}"
            cases.append(Case(("merton", n, kindk), stmt, proof, dict(model="merton", params=params, a=a, b=b, n=n, impl=v)))
            res.count(("coq-merton", tuple(sorted(params.items())), a, b, n), nontrivial=a != b, kind="coq merton")
    return cases


def _lits(params, keys):
    return " ".join(rlit(params[k]) for k in keys)


def _act(y):
    return "y<0" if y < 0 else ("y=0" if y == 0 else ("0<y<1" if y < 1 else ("y=1" if y == 1 else "1<y<2")))


def _cgmy_cases(res, rng, per_group):
    """one side of zero, EVERY activity branch the code has (y<0, y=0, 0<y<1, y=1, 1<y<2), on the model of the executed branch
    structure (cgmy_mass_*_code / cgmy_x_*_code with exp1 := E1c 0, gamma*gammaincc := Gupc 0)"""
    cases = []
    for kindk in ("pos", "neg"):
        for y in [-0.5, 0.0, 0.3, 1.0, 1.5] + [rng.choice([L.rnd(rng, -1.5, -0.05), L.rnd(rng, 0.05, 0.95), L.rnd(rng, 1.05, 1.9)])
                                              for _ in range(max(1, per_group - 2))]:
            for n in (0, 1):
                params = L.cgmy_params(rng, y=y)
                _, nu = L.build("cgmy", params)
                a, b = L.interval(rng, kindk)
                v = float(L.call_integral(nu, a, b, n, "direct"))
                u = params["m"] if kindk == "pos" else params["g"]
                f = ["cgmy_mass", "cgmy_x"][n] + ("_pos_code" if kindk == "pos" else "_neg_code")
                fpos = ["cgmy_mass", "cgmy_x"][n] + "_pos_code"
                stmt = (f"Rabs ({f} (E1c 0) (Gupc 0) {rlit(params['c'])} {rlit(u)} {rlit(y)} {rlit(a)} {rlit(b)} - {rlit(v)}) "
                        f"<= {tol_lit(v)[0]}")
                rw = "" if kindk == "pos" else f"rewrite {f.replace('_pos_code', '_neg_code')}_as_pos. "
                if n == 0:
                    if y == 0:
                        rw += f"rewrite cgmy_mass_pos_code_y0 by lra. unfold e1f. {G80}"
                    elif y == 1:
                        rw += f"rewrite cgmy_mass_pos_code_y1 by lra. unfold e1f. {G80}"
                    elif y < 1:
                        rw += f"rewrite cgmy_mass_pos_code_lt1 by lra. rewrite cgmy_integrate_pos_as_RInt by lra. unfold igf. {G80}"
                    else:
                        rw += f"rewrite cgmy_mass_pos_code_rec by lra. rewrite cgmy_integrate_pos_as_RInt by lra. unfold igf. {G80}"
                else:
                    if y == 1:
                        rw += f"rewrite cgmy_x_pos_code_y1 by lra. unfold e1f. {G80}"
                    else:
                        rw += f"rewrite cgmy_x_pos_code_ne1 by lra. rewrite cgmy_integrate_x_pos_as_RInt by lra. unfold igf. {G80}"
                cases.append(Case(("cgmy", n, kindk, y), stmt, rw, dict(model="cgmy", params=params, a=a, b=b, n=n, impl=v)))
                res.count(("coq-cgmy", tuple(sorted(params.items())), a, b, n), kind="coq cgmy")
                res.bump("coq_cgmy_activity", _act(y))
    return cases


def _cgmy_value_cases(res, rng, per_group):
    """the model's FORMULA against the code's closed-form VALUE: cgmy_tail / cgmy_tail_x are unfolded and evaluated by interval
    arithmetic with the two special-function values gamma(2-y)*gammaincc(2-y, u h) the code computes fed in as data
    (no rewriting through the theorem, no integral): a different-but-equal formula in the model would not pass"""
    import scipy.special as sp
    cases = []
    for kindk in ("pos", "neg"):
        for _ in range(per_group):
            n = rng.randrange(2)
            y = rng.choice([-0.5, 0.3, L.rnd(rng, -1.5, -0.05), L.rnd(rng, 0.05, 0.95)] + ([1.5, L.rnd(rng, 1.05, 1.9)] if n == 1 else []))
            params = L.cgmy_params(rng, y=y)
            _, nu = L.build("cgmy", params)
            a, b = L.interval(rng, kindk)
            v = float(L.call_integral(nu, a, b, n, "direct"))
            u = params["m"] if kindk == "pos" else params["g"]
            h1, h2 = (a, b) if kindk == "pos" else (-b, -a)      # the two h values, in the order of the _pos form
            gv = [float(sp.gamma(2 - y) * sp.gammaincc(2 - y, u * h)) for h in (h1, h2)]
            f = ["cgmy_integrate", "cgmy_integrate_x"][n] + ("_pos" if kindk == "pos" else "_neg")
            hl = [rlit(a), rlit(b)] if kindk == "pos" else [f"(- {rlit(b)})", f"(- {rlit(a)})"]
            stmt = (f"forall G : R -> R -> R, G (2 - {rlit(y)}) ({rlit(u)} * {hl[0]}) = {rlit(gv[0])} -> "
                    f"G (2 - {rlit(y)}) ({rlit(u)} * {hl[1]}) = {rlit(gv[1])} -> "
                    f"Rabs ({f} G {rlit(params['c'])} {rlit(u)} {rlit(y)} {rlit(a)} {rlit(b)} - {rlit(v)}) <= {tol_lit(v, rel=1e-8)[0]}")
            proof = (f"intros G HG1 HG2. unfold {f}, cgmy_tail, cgmy_tail_x. cbv beta iota zeta. rewrite HG1, HG2. {I80}")
            cases.append(Case(("cgmy-value", n, kindk, y), stmt, proof, dict(model="cgmy", params=params, a=a, b=b, n=n, impl=v, gammas=gv)))
            res.count(("coq-cgmy-value", tuple(sorted(params.items())), a, b, n), kind="coq cgmy formula vs code value")
    return cases


def _cgmy_code_value_cases(res, rng, per_group):
    """the executed BRANCH STRUCTURE (cgmy_tail_code / cgmy_tail_x_code: y = 0, y = 1, the y > 1 recursion) unfolded and evaluated
    against the code's VALUE, with the special-function values exp1(u h) and gamma(s)*gammaincc(s, u h) the code computes fed in
    as data: ties the branch selection (Reqb alpha 0, Rleb 1 alpha, Reqb (alpha-1) 0, Reqb alpha 1) to cgmy.py:225-236/280-283"""
    import scipy.special as sp
    cases = []
    for kindk in ("pos", "neg"):
        for (n, y) in [(0, 0.0), (0, 1.0), (0, 1.5), (0, L.rnd(rng, 1.05, 1.9)), (1, 1.0)][: max(3, per_group)] + [(0, 1.25)]:
            params = L.cgmy_params(rng, y=y)
            _, nu = L.build("cgmy", params)
            a, b = L.interval(rng, kindk)
            v = float(L.call_integral(nu, a, b, n, "direct"))
            u = params["m"] if kindk == "pos" else params["g"]
            hs = [(rlit(a), a), (rlit(b), b)] if kindk == "pos" else [(f"- {rlit(b)}", -b), (f"- {rlit(a)}", -a)]
            hyps, names = [], []
            if (n == 0 and y in (0.0, 1.0)) or (n == 1 and y == 1.0):
                for k, (hl, hv) in enumerate(hs):
                    hyps.append(f"E1 ({rlit(u)} * {hl}) = {rlit(float(sp.exp1(u * hv)))}")
                    names.append(f"HE{k}")
            else:   # n == 0, 1 < y < 2: the inner call has alpha - 1 in (0, 1)
                am1 = y - 1
                for k, (hl, hv) in enumerate(hs):
                    hyps.append(f"G (2 - ({rlit(y)} - 1)) ({rlit(u)} * {hl}) = {rlit(float(sp.gamma(2 - am1) * sp.gammaincc(2 - am1, u * hv)))}")
                    names.append(f"HG{k}")
            f = ["cgmy_mass", "cgmy_x"][n] + ("_pos_code" if kindk == "pos" else "_neg_code")
            stmt = ("forall (E1 : R -> R) (G : R -> R -> R), " + " -> ".join(hyps) + " -> "
                    f"Rabs ({f} E1 G {rlit(params['c'])} {rlit(u)} {rlit(y)} {rlit(a)} {rlit(b)} - {rlit(v)}) <= {tol_lit(v, rel=1e-8)[0]}")
            proof = (f"intros E1 G {' '.join(names)}. unfold {f}, cgmy_tail_code, cgmy_tail_x_code, cgmy_tail. cbv beta iota zeta. code_bool. "
                     f"rewrite {', '.join('?' + x for x in names)}. {I80}")
            cases.append(Case(("cgmy-code-value", n, kindk, y), stmt, proof, dict(model="cgmy", params=params, a=a, b=b, n=n, impl=v)))
            res.count(("coq-cgmy-code-value", tuple(sorted(params.items())), a, b, n), kind="coq cgmy branch structure vs code value")
            res.bump("coq_cgmy_code_value_activity", _act(y))
    return cases


def _density_cases(res, rng, per_group):
    """the model densities against the implementation's __call__ (HEM, VG, Merton generated; CGMY hand-written; truncated)"""
    from rpylib.model.levymodel.levymodel import TruncatedLevyMeasure
    cases = []
    for kind in ("hem", "vg", "merton", "cgmy", "trunc"):
        for _ in range(per_group):
            x = rng.choice([-1, 1]) * L._pt(rng)
            if kind == "trunc":
                params = L.hem_params(rng)
                _, base = L.build("hem", params)
                l, r = -L._pt(rng), L._pt(rng)
                nu = TruncatedLevyMeasure(base, (l, r))
                v = float(nu(x))
                args = _lits(params, ("intensity", "p", "eta1", "eta2"))
                stmt = f"Rabs (truncated_nu (hem_nu {args}) {rlit(l)} {rlit(r)} {rlit(x)} - {rlit(v)}) <= {tol_lit(v)[0]}"
                if l <= x <= r:
                    proof = f"rewrite truncated_nu_inside by lra. rewrite hem_nu_{'pos' if x > 0 else 'neg'} by lra. {I80}"
                else:
                    proof = f"rewrite truncated_nu_outside by lra. {I80}"
                info = dict(model="truncated hem", params=params, truncations=[l, r], x=x, impl=v)
            else:
                params = dict(hem=L.hem_params, vg=L.vg_params, merton=L.merton_params, cgmy=L.cgmy_params)[kind](rng)
                _, nu = L.build(kind, params)
                v = float(nu(x))
                side = "pos" if x > 0 else "neg"
                if kind == "hem":
                    stmt = f"Rabs (hem_nu {_lits(params, ('intensity', 'p', 'eta1', 'eta2'))} {rlit(x)} - {rlit(v)}) <= {tol_lit(v)[0]}"
                    proof = f"rewrite hem_nu_{side} by lra. {I80}"
                elif kind == "vg":
                    c, lm, lp = (float(getattr(nu.parameters, k)) for k in ("_c", "_lambda_m", "_lambda_p"))
                    stmt = f"Rabs (vg_nu {rlit(c)} {rlit(lm)} {rlit(lp)} {rlit(x)} - {rlit(v)}) <= {tol_lit(v)[0]}"
                    proof = f"rewrite vg_nu_{side} by lra. {I80}"
                elif kind == "merton":
                    stmt = f"Rabs (merton_nu {_lits(params, ('intensity', 'mu_j', 'sigma_j'))} {rlit(x)} - {rlit(v)}) <= {tol_lit(v)[0]}"
                    proof = f"unfold merton_nu. {I80}"
                else:
                    stmt = f"Rabs (cgmy_nu {_lits(params, ('c', 'g', 'm', 'y'))} {rlit(x)} - {rlit(v)}) <= {tol_lit(v)[0]}"
                    proof = f"rewrite cgmy_nu_{side} by lra. {I80}"
                info = dict(model=kind, params=params, x=x, impl=v)
            cases.append(Case(("density", kind, x), stmt, proof, info))
            res.count(("coq-density", kind, json.dumps(info, sort_keys=True, default=str)), kind=f"coq density {kind}")
    return cases


def _truncated_hem_cases(res, rng, per_group):
    """TruncatedLevyMeasure(HEM).integrate*(a,b) against truncated_integrate (hand model) over the generated closed forms"""
    from rpylib.model.levymodel.levymodel import TruncatedLevyMeasure
    cases = []
    for _ in range(2 * per_group):
        params = L.hem_params(rng)
        _, nu = L.build("hem", params)
        l, r = -L._pt(rng), L._pt(rng)
        t = TruncatedLevyMeasure(nu, (l, r))
        a, b = L.interval(rng, rng.choice(["pos", "neg", "straddle", "touch0-right", "touch0-left"]))
        n = rng.randrange(3)
        v = float(L.call_integral(t, a, b, n, rng.choice(["direct", "xn"])))
        aa, bb = t._truncated_interval(a, b)
        f = ["hem_integrate", "hem_integrate_x", "hem_integrate_xx"][n]
        args = _lits(params, ("intensity", "p", "eta1", "eta2"))
        stmt = f"Rabs (truncated_integrate ({f} INFV {args}) {rlit(l)} {rlit(r)} {rlit(a)} {rlit(b)} - {rlit(v)}) <= {tol_lit(v)[0]}"
        m1, m2 = min(a, r), max(b, l)
        steps = [f"rewrite (Rmin_{'left' if a <= r else 'right'} {rlit(a)} {rlit(r)}) by lra.",
                 f"rewrite (Rmax_{'left' if m1 >= l else 'right'} {rlit(m1)} {rlit(l)}) by lra.",
                 f"rewrite (Rmax_{'left' if b >= l else 'right'} {rlit(b)} {rlit(l)}) by lra.",
                 f"rewrite (Rmin_{'left' if m2 <= r else 'right'} {rlit(m2)} {rlit(r)}) by lra."]
        if aa < 0 < bb:
            br = f"rewrite {f}_straddle, {f}_neg, {f}_pos by lra."
        elif bb <= 0:
            br = f"rewrite {f}_neg by lra."
        else:
            br = f"rewrite {f}_pos by lra."
        if aa == bb:
            proof = ("unfold truncated_integrate. replace (Rltb _ _) with false by (symmetry; apply Rltb_false; lra). "
                     "rewrite truncated_interval_eq. " + " ".join(steps) + f" rewrite Reqb_same. {I80}")
        else:
            proof = ("unfold truncated_integrate. replace (Rltb _ _) with false by (symmetry; apply Rltb_false; lra). "
                     "rewrite truncated_interval_eq. " + " ".join(steps) + f" rewrite Reqb_ne by lra. {br} {I80}")
        cases.append(Case(("trunc-hem", n, l, r, a, b), stmt, proof, dict(model="hem", params=params, truncations=[l, r], a=a, b=b, n=n, impl=v)))
        res.count(("coq-trunc-hem", tuple(sorted(params.items())), l, r, a, b, n), kind="coq truncated hem")
    return cases


def _generic_cases(res, rng, per_group):
    """the code AROUND scipy.quad in the generic fall-backs (guard, dispatch on n, split at zero for n >= 3) against generic_xn:
    every quad call the implementation makes is recorded (end points, value) and handed to the model as a hypothesis
    `quad n a_i b_i = v_i`; a call the model makes that the code did not make (or the converse) leaves the goal unprovable"""
    import rpylib.model.levymodel.levymodel as LM
    cases = []
    shapes = [("straddle", 3), ("straddle", 4), ("straddle", 2), ("straddle", 0), ("pos", 3), ("neg", 5), ("touch0-right", 3), ("touch0-left", 4),
              ("point", 3), ("neg", 1)]
    for (ikind, n) in shapes[: max(6, per_group)]:
        params = L.hem_params(rng) if rng.random() < 0.5 else L.merton_params(rng)
        kind = "hem" if "eta1" in params else "merton"
        _, nu = L.build(kind, params)
        plain = PlainMeasure(nu)
        a, b = L.interval(rng, ikind)
        calls, orig = [], LM.quad

        def recording(f, lo, hi, *args, **kw):
            out = orig(f, lo, hi, *args, **kw)
            calls.append((float(lo), float(hi), float(out[0])))
            return out
        LM.quad = recording
        try:
            v = float(plain.integrate_against_xn(a, b, n))
        finally:
            LM.quad = orig
        hyps = [f"quad {n}%nat {rlit(lo)} {rlit(hi)} = {rlit(val)}" for (lo, hi, val) in calls]
        names = [f"H{k}" for k in range(len(calls))]
        stmt = ("forall quad : nat -> R -> R -> R, " + " -> ".join(hyps) + f" -> Rabs (generic_xn quad {n}%nat {rlit(a)} {rlit(b)} - {rlit(v)}) <= {tol_lit(v)[0]}")
        proof = (f"intros quad {' '.join(names)}. unfold generic_xn, generic_xn_F, generic_integrate_n. rb. cbn [andb]. rb. cbn [andb]. "
                 f"rewrite {', '.join('?' + x for x in names)}. {I80}")
        cases.append(Case(("generic", ikind, n), stmt, proof, dict(model="generic fall-back over " + kind, params=params, a=a, b=b, n=n, impl=v,
                                                                  quad_calls=calls)))
        res.count(("coq-generic", tuple(sorted(params.items())), a, b, n), nontrivial=a != b, kind="coq generic fall-back branch structure")
        res.bump("coq_generic_quad_calls", f"{ikind} n={n}: {len(calls)} quad call(s)")
    return cases


def _coq(res, rng):
    cfg = _cfg(res)
    k = cfg["coq_per_group"]
    cases = (_hem_cases(res, rng, k) + _trunc_cases(res, rng, k) + _xn_exp_cases(res, rng, max(2, k // 2)) + _vg_cases(res, rng, max(2, k // 2))
             + _merton_cases(res, rng, max(2, k // 2)) + _cgmy_cases(res, rng, max(3, k // 4)) + _cgmy_value_cases(res, rng, max(3, k // 2)) + _cgmy_code_value_cases(res, rng, max(3, k // 8))
             + _density_cases(res, rng, max(2, k // 3)) + _truncated_hem_cases(res, rng, max(2, k // 2))
             + _generic_cases(res, random.Random(res.seed + 9), max(6, k // 4)))
    hdr = HEADER
    nfiles, failed = L.run_cases(PROP, "cases", hdr, cases, jobs=12, timeout=600)
    res.case_lemmas += len(cases)
    res.case_ok += len(cases) - len(failed)
    res.notes.append(f"{len(cases)} interval case lemmas in {nfiles} coqc processes")
    for c, err in failed[:20]:
        res.broke(f"correspondence case {c.cid}", f"kernel did not accept: {c.stmt}\n{err[-500:]}\ninfo={json.dumps(c.info, default=str)}")


def correspond(res):
    import warnings
    warnings.filterwarnings("ignore")
    rng = random.Random(res.seed)
    _oracle(res, rng)
    _near_singular(res, random.Random(res.seed + 3))
    _rebuilt_oracle(res, random.Random(res.seed + 5))
    _misc_oracle(res, random.Random(res.seed + 6))
    _degenerate_oracle(res, random.Random(res.seed + 8))
    _coq(res, random.Random(res.seed + 1))


def search(res):
    """deeper oracle sweep when a proof obligation / case lemma broke but the quick oracle found no failing input"""
    import copy
    saved = dict(QUICK)
    QUICK.update(n_random=8, reps=2)
    try:
        _oracle(res, random.Random(res.seed + 7))
    finally:
        QUICK.clear()
        QUICK.update(saved)


def replay(path):
    import warnings
    warnings.filterwarnings("ignore")
    data = json.load(open(path))
    print(json.dumps(data, indent=1)[:3000])
    k = data.get("kind")
    if k == "integral":
        kind, params = data["model"], data["params"]
        _, nu = L.build(kind, params)
        if data.get("rebuilt"):
            import copy
            rb = data["rebuilt"]
            base_model, _ = L.build(kind, rb["base"])
            pars = copy.deepcopy(base_model.parameters)
            setattr(pars, rb["attribute"], rb["value"])
            pars.initialisation()
            nu = type(base_model)(pars).levy_triplet.nu
        if data.get("truncations"):
            from rpylib.model.levymodel.levymodel import TruncatedLevyMeasure
            nu = TruncatedLevyMeasure(nu, tuple(data["truncations"]))
        a, b, n = float(data["a"]), float(data["b"]), data["n"]
        ref = L.quad_xn_nu(nu, a, b, n, extra=tuple(data.get("truncations") or ()))
        try:
            val = float(L.call_integral(nu, a, b, n, data["via"]))
        except Exception as e:  # noqa
            print("implementation raises", type(e).__name__, e, " quadrature:", ref)
            return 1
        print("implementation:", val, " quadrature of the model's density:", ref)
        return 0 if L.close(val, ref) else 1
    if k == "xn_exp":
        import mpmath as mp
        from rpylib.tools.integral import integral_xn_exp_minus_x
        a, b, n, alpha = float(data["a"]), float(data["b"]), data["n"], data["alpha"]
        ref = float(mp.quad(lambda x: x ** n * mp.exp(-alpha * abs(x)), [a] + [p for p in (0.0,) if a < p < b] + [b]))
        val = float(integral_xn_exp_minus_x(n=n, a=a, b=b, alpha=alpha))
        print("implementation:", val, " quadrature:", ref)
        return 0 if L.close(val, ref) else 1
    print("replay: re-run ./check C09 to re-evaluate this class of input")
    return 1


LEVEL_TEXT = ("Proof (partial): 38 Coq statements over R (Coquelicot), of which 5 are complete (HEM), 3 are complete relative to the specification "
              "of scipy.quad (generic fall-backs) and 12 are named _partial. For the HEM model the mass, first and second moment closed forms - "
              "re-translated from hem.py by py2coq on every run - are proved to be the Riemann integral of x^n times the generated density for all "
              "parameters and all finite a <= b (either side of zero or straddling), with the half-line values as limits; the integral of "
              "x^n exp(-alpha|x|) is proved for every n by induction; VG (first/second/n-th moments, mass through the exponential integral), "
              "Merton (through erf by substitution) and CGMY (one side of zero, every y < 2 on the branch structure the code executes) are "
              "proved for finite end points only (theorems named _partial). Additivity over adjacent intervals, the sign rules and the truncated-measure clause are proved once for "
              "every closed form that is an integral of x^n nu and instantiated per model (HEM, x^n exp, VG, Merton, CGMY, generic fall-backs). "
              "The generic quadrature fall-backs of LevyMeasure are proved, for every density, every n and every a <= b, to return the integral whenever "
              "scipy.quad meets its specification (guard, dispatch and split at zero are the modelled code; quad is a parameter), and additivity, sign "
              "and the truncated measure follow for them. The tie to the source is the translator plus "
              "~180 (quick) / ~1200 (thorough) interval-arithmetic case lemmas comparing the Coq closed forms AND the model densities with the "
              "implementation's floats (for CGMY also the unfolded formula against the code's value with the special-function values as data; for "
              "the generic fall-backs the branch structure with every recorded quad call as data). "
              "Improper integrals for VG/Merton/CGMY, end points at zero, the accuracy of scipy.quad, the CGMY second moment, the reporting of infinite "
              "integrals as +-inf, the float conditioning near y = 0 / y = 1 (known finding F-C09-7) and CGMY with a rate of zero (g = 0 or m = 0: "
              "ZeroDivisionError / nan, finding F-C09-13, witness proved as C09_cgmy_rate0_refuted) are checked only by the mpmath oracle.")
LEVEL_NOTE = ("Trusted: Coq kernel + vm_compute (Interval's reflexive checker), standard real/classical axioms (reported by Print Assumptions), "
              "py2coq (fail-closed), float infinity modelled as a real parameter INF, exp(-inf)=0/erf(inf)=1 float semantics, scipy special "
              "functions modelled by their defining integrals and tied by `integral` case lemmas, scipy.quad modelled by specification.")
TECHNIQUE = "Coq proof over R (Coquelicot is_RInt / is_derive, fundamental theorem of calculus) on py2coq-generated closed forms + Interval case lemmas"

"""C10 -- exponent, triplet, cumulants and simulation drifts describe one same process.

correspond(res) =
  (1) oracle on the implementation only
      * levy_exponent(u) (u = -i s on the real axis and real u) versus i u a - sigma^2 u^2/2 + mpmath quadrature of the
        Levy-Khintchine integrand of the DECLARED representation against the implementation's own density;
      * cumulantN(t) versus t * N-th derivative at 0 of s -> levy_exponent(-i s) (Cauchy integral of the implementation's exponent);
      * forward S0 exp((r-d)T) versus log_characteristic_function(T, -1j), versus the direct-simulation drift
        (LevyProcess.deterministic_path + sigma^2/2 + quadrature of (e^x - 1) nu), versus the Markov-chain drift under the exact
        (truncated) jump law;
      * LevyTriplet.set_representation: random sequences are path-independent and reversible;
  (2) correspondence of the Coq model with the implementation by interval-arithmetic case lemmas on levy_exponent(-1j*s).real,
      cumulantN(t), process_drift(), omega, and on sequences of set_representation;
      wave 6: the generated COMPLEX code (Gen.GenC10Cx) against both parts of levy_exponent(u) for real float u (HEM, VG) and
      against levy_exponent(-1j*s) (`_cx_cases`);
      seeded change C10_g: `_refused_conversions_oracle` (sequences on ONE triplet object with refused requests whose ValueError is
      caught, state compared after every request) and `_refused_conversion_cases` (the same against the generated state transformer).
"""
import copy
import json
import math
import random
from fractions import Fraction

import mpmath as mp
import numpy as np

import levycases as L
from levycases import INF, rlit, tol_lit, Case

PROP = "C10"
PROPERTY_FILE = "Properties/C10.v"
GEN_DEPS = ["GenC10Triplet", "GenC10Hem", "GenC10Merton", "GenC10Vg", "GenC10Cgmy", "GenC10Bs", "GenC10Exp", "GenC10Jump", "GenC10Cx", "GenC10SetRep", "GenC09Hem", "GenC09Vg"]
RULE = ("oracle cases: (model, parameters, argument / order / route) for HEM, Merton, VG, CGMY (y<0, y=0, 0<y<1, y=1, 1<y<2) and "
        "Black-Scholes; arguments s inside the strip of the exponent and real u; cumulant orders 1,2,4(,6); routes cf / direct / ctmc; "
        "random sequences of 1-5 representation changes; non-trivial = non-zero argument / non-empty sequence; "
        "Coq cases: interval lemmas per (model, function): kappa, cumulants, drifts, omega, conversion sequences, jump_increment of HEM "
        "(chosen uniforms, both branches and u == p, v = 0 and v next to 1) and Merton (replayed stream), process_drift / deterministic_path "
        "of the non-exponential models, cached constants after __init__ and after setattr + initialisation(), the closed-form VG "
        "Levy-Khintchine integral at the rebuilt model's constants; wave 6: Re and Im of levy_exponent(u) at real float u (negative, zero, "
        "positive) and of levy_exponent(-1j*s) for HEM and VG against the generated complex code levy_exponent_c / hem_pj_c / vg_pj_c; "
        "set_representation sequences of 2-7 requests on one triplet object with at least one REFUSED request (ZERO for infinite variation, "
        "ValueError caught) followed by further requests, dyadic stubs and the models' own triplets (CGMY 1 <= y < 2 in CENTER), state "
        "(raised, a, representation) after every request; non-trivial = at least one refused request so far")
MODELLED = [
    "LevyModel.levy_exponent is regenerated over the complex-pair domain C = R * R (Gen.GenC10Cx.levy_exponent_c, plug-in "
    "harness/py2coq_c10cx.py: float sub-expressions stay real, promotion with RtoC where Python promotes, 1j = Ci, z**2 = Cpow_nat, numpy's "
    "complex log = Cln_code = (ln|z|, atan2) in Base/CxPair.v), with levy_exponent_pure_jump as a function argument; the complex pure-jump "
    "exponents are regenerated for HEM and VG only (hem_pj_c, vg_pj_c). The hand model kappa(s) = a s + sigma^2 s^2/2 + pj(s) is PROVED equal to "
    "the generated code at x = -1j*s for HEM and VG (C10_kappa_is_generated_exponent); for Merton / CGMY kappa stays a hand model tied by "
    "cases, and their complex arguments are checked by the oracle only. Complex DIVISION is the field operation of C (CPython uses "
    "Smith's algorithm: same value over the reals, different rounding); float rounding is outside the model (stated tolerance)",
    "LevyTriplet.set_representation is ALSO regenerated as a state transformer with exceptions (Gen.GenC10SetRep.set_representation_gen: "
    "(raised?, (a, representation)); plug-in harness/py2coq_c10set.py executes the attribute assignments in source order, resolves "
    "self._drift_mapping[representation]() through the dict literal of __init__, and translates the exception paths of the four "
    "conversions to booleans *_raises); any other shape of the method (augmented assignment, another callee, else-branch) is refused = "
    "broken obligation; the hand model set_representation is proved equal to it on admissible requests; exceptions other than the "
    "modelled ValueError / NotImplementedError / KeyError (e.g. raised inside nu.integrate_against_x) are outside the model",
    "LevyTriplet.set_representation (attribute mutation), omega, log_characteristic_function(t,-1j), deterministic_path, the "
    "Markov-chain drift: hand models in Model/LevyExponent.v tied by case lemmas / oracle",
    "scipy.special.gamma is an opaque function (Section variable Gamma); c*gamma(-y) enters the CGMY exponent as data",
    "H_rep (the pure-jump exponent IS the Levy-Khintchine integral of the density in the declared representation) is proved for HEM "
    "(limits of finite integrals) and for Variance Gamma (Frullani, improper at 0 and at infinity: is_RInt_gen, no hypothesis) on the real "
    "axis of the Laplace exponent, and for HEM ALSO at every real argument u of the characteristic exponent (C10_hem_char_exponent: Re = int "
    "(cos(ux)-1) nu, Im = int sin(ux) nu over both half-lines, is_RInt_gen from / to the point 0); for VG at real u only the closed form of the "
    "generated complex code is proved (_partial); "
    "for Merton (Gaussian integral) and CGMY (Gamma integrals) it is validated by the quadrature oracle only",
    "jump_increment of HEM / Merton is translated POINTWISE (one jump; the k-th generator call of the straight-line body is the k-th "
    "argument; plug-in harness/py2coq_c10.py); np.random.normal(loc, scale) is read as loc + scale * g, g standard normal (numpy's legacy "
    "definition, checked by replaying the stream); that np.random.random is uniform on [0,1) and the draws independent is assumed; "
    "the law of the sampler (measure of {(u,v): jump <= x}) is stated through the interval characterisation jump <= x <-> v <= cdf(x), "
    "not as a measure-theoretic statement",
    "Parameters.initialisation() of HEM / VG / CGMY is translated next to __init__ (cached _xi, _c, _lambda_p, _lambda_m, _CGammamY, "
    "_GpowerY, _MpowerY); cgmy_pj reads _GpowerY / _MpowerY as Rpower g y / Rpower m y (specs/C10.py attrs), which "
    "C10_after_initialisation proves equal to the generated cached constants; the MUTATION (setattr on a deepcopy) is exercised by the "
    "correspondence and the oracle only",
    "VarianceGammaModel's triplet drift is the literal a=0.0 inside a constructor call (not extracted): the theorem uses 0, the "
    "levy-pd cases tie it",
]
ASSUMPTIONS = ["parameters in their declared domain; eta1 > 1 for the exponential HEM model; VG: sigma > 0, nu > 0",
               "direct route: np.random.random is uniform on [0,1), np.random.normal(loc, scale) = loc + scale * standard normal, draws independent; "
               "given that, HEM's jump_increment has law nu / intensity by C10_hem_jump_inverse_cdf; Merton: oracle `_jump_law`"]
THEOREM_NOTES = {
    "count": "33 statements (5 of them named _algebra, 3 named _partial); after seeded change C10_g: C10_refused_conversion_leaves_state, "
             "C10_generated_set_representation_is_model, C10_conversions_with_refused_requests, example C10_refused_nonvacuous; wave 6 added C10_hem_char_exponent, C10_vg_char_exponent_closed_form_partial, C10_vg_char_exponent_re_partial, "
             "C10_kappa_is_generated_exponent and the example C10_cx_nonvacuous; before: 6 conversions (4 positive under the guard valid_rep, the modelled ValueError, the need-for-the-guard witness), "
             "5 named _algebra (true by construction / conversion algebra / Merton mean rate), 3 direct-route identities on generated drifts, "
             "4 cumulant theorems (orders 1 and 2 only), C10_hem_exponent, C10_vg_exponent (Levy-Khintchine clause for two families), "
             "C10_levy_direct_mean_hem / _vg (non-exponential process_drift gives the mean rate cumulant1), C10_hem_jump_inverse_cdf, "
             "C10_after_initialisation, C10_martingale_ctmc_hem, C10_ctmc_truncation_bias_algebra, C10_ctmc_truncated_hem; 3 examples",
    "C10_vg_exponent": "GENUINE proof, no hypothesis on special functions: for 0 < sigma, 0 < nu, -lambda_m < s < lambda_p the integral of "
        "(e^{s x} - 1) vg_nu over (0, +oo) is c ln(lp/(lp-s)) and over (-oo, 0) is c ln(lm/(lm+s)) as Coquelicot improper integrals "
        "(is_RInt_gen, filters at_right 0 / Rbar_locally p_infty and Rbar_locally m_infty / at_left 0), and vg_pj = their sum; c, lm, lp are the "
        "generated VGParameters.__init__ constants (sqrt identities lp lm = 2/(nu sigma^2), lm - lp = 2 theta / sigma^2 proved), vg_nu is "
        "C09's generated density; real axis only; sigma = 0 (excluded: the code divides by sigma^2) and nu <= 0 are outside",
    "C10_levy_direct_mean_*": "mean rate of the directly simulated NON-exponential model = levy_process_drift a + first moment of nu = cumulant1(1) "
        "(HEM: 0, VG: theta), the first moment being the limit of the integrals of x * generated density; that the simulated process is "
        "drift t + sigma W + uncompensated jumps is the reading of the declared ZERO representation (process code: C15); Merton is _algebra: "
        "lam mu_j is the sampler's mean for a symmetric g, E g = 0 not formalised; CGMY (declared CENTER / ZERO by branch): oracle only; "
        "after set_representation the drift read by process_drift changes with the triplet: not covered by a theorem (oracle `_levy_model_drift_oracle` "
        "uses the constructed model)",
    "C10_hem_jump_inverse_cdf": "for all parameters 0 < eta1, eta2, every u and every v in [0,1): branch u < p: jump >= 0, cdf_up(jump) = v and "
        "jump <= x <-> v <= 1 - exp(-eta1 x) (x >= 0); branch p <= u: jump <= 0, cdf_down(jump) = 1 - v (the survival function is inverted) and "
        "jump <= x <-> 1 - exp(eta2 x) <= v (x <= 0); lam p cdf_up x = int_0^x hem_nu, lam (1-p) cdf_down x = lim int_a^x hem_nu; "
        "uniformity / independence of u, v and P(u < p) = p (needs 0 <= p <= 1, guarded by HEMParameters) are NOT formalised; v = 1 is never "
        "returned by random() (ln 0)",
    "C10_after_initialisation": "the re-derived constants are syntactically the __init__ ones (both py2coq translations, proofs by reflexivity): "
        "the content is the tie -- a change of initialisation() alone (stale or different formula) breaks the proof or the reinit cases",
    "C10_refused_conversion_leaves_state": "for ALL real arguments (a, rep, target; even numbers that code no representation): if the generated "
        "set_representation_gen reports a raise, the state it returns is the input state -- i.e. in the source every statement that can raise "
        "precedes every attribute assignment; a rewrite that assigns self.a before a raising call either is refused by the emitter or breaks this proof",
    "C10_generated_set_representation_is_model": "current representation admissible: an admissible request never raises and yields exactly the "
        "hand model set_representation (so every C10_conversions_* theorem is about the generated method); a non-admissible request (ZERO, "
        "infinite variation) raises with the state unchanged; a triplet CONSTRUCTED in ZERO with infinite variation is outside (constructor does not check)",
    "C10_conversions_with_refused_requests": "run_gen = requests applied one after the other on one object, exceptions caught by the caller: for every "
        "list of requests rs (refused ones included) the state is the hand model on filter valid_repb rs; an admissible request after rs gives what it "
        "gives on the original triplet; asking for the original representation restores (a, representation); the canonical drift (hence center "
        "drift = first cumulant of the triplet) is unchanged. run_gen_state (Proofs) gives the closed form used by the case lemmas",
    "C10_conversions_*": "every measure (first-moment function m1, finite-variation flag fv), every triplet, every sequence of ADMISSIBLE "
        "representations: valid_rep fv r := fv = true or r <> ZERO (the code raises ValueError for ZERO with infinite variation, fix a05eb0c); "
        "m1 is a total function: infinite first moments are outside the model (all shipped models have finite tail moments)",
    "C10_martingale_cf_algebra, C10_forward_direct_algebra, C10_ctmc_route_algebra": "ALGEBRA: omega = -kappa(1) cancels for any a, sigma, pj; Jc is a free "
        "number; they only say the hand-modelled formulas compose; content is in C10_hem_exponent / C10_martingale_ctmc_hem and in the oracle",
    "C10_hem_exponent": "the Levy-Khintchine clause for HEM (whole strip -eta2 < s < eta1, real axis); VG: C10_vg_exponent; Merton / CGMY: "
        "quadrature oracle only (needs the Gaussian and Gamma integrals, not available in Coquelicot)",
    "C10_cumulants_*": "orders 1 and 2 only, as first/second derivative of kappa at 0 for HEM, Merton, VG; CGMY partial (cumulant1 in every branch, "
        "cumulant2 for y not in {0,1} given CG = c Gamma(-y) and Gamma(2-y) = (1-y)(-y)Gamma(-y) for an OPAQUE Gamma: a hypothesis, not a "
        "fact about scipy.special.gamma); orders 4 and 6 by the Cauchy-integral oracle only; orders 3, 5 are not offered by the library",
    "C10_martingale_direct_*": "algebra on the generated drifts; that E exp(jumps) = exp(T pj(1)) is the LK clause (C10_hem_exponent for HEM, hence "
        "1 < eta1; oracle for Merton); the law of jump_increment is assumed (C02)",
    "C10_martingale_ctmc_hem": "un-truncated chain, HEM: Jc is the limit of int (e^x - 1 - x) hem_nu and m1 the generated hem_integrate_x: growth = r - d",
    "C10_ctmc_truncation_bias_algebra": "algebra over free numbers (shape of the bias)",
    "C10_ctmc_truncated_hem": "CONTENT: HEM, -1 < l < 0 < r < 1, m1t = truncated_integrate of the generated hem_integrate_x, Jct = RInt of "
        "(e^x-1-x) hem_nu over [l,r]: growth = r - d - removed_tail (closed form), < r - d when p = 1; other models / wider truncations: "
        "oracle only (finding F-C10-5, KNOWN, 1e-5 .. 7e-2 per year on the default grids, growing as h decreases)",
    "moment strip": "exponential models outside the strip (E exp(L_1) infinite) are refused by the code (fixes a7ff60d, 5d1e949): oracle `_strip_oracle`; "
        "C10_vg_exponent holds on the open strip (-lambda_m, lambda_p) but no theorem states divergence outside it; CGMY: none",
    "C10_hem_char_exponent": "for all a, sigma, lam, p, 0 < eta1, 0 < eta2 and EVERY real u: the four improper integrals (is_RInt_gen, filters "
        "Rbar_locally m_infty / at_point 0 and at_point 0 / Rbar_locally p_infty) of (cos(u x) - 1) hem_nu and sin(u x) hem_nu (declared ZERO, so "
        "no compensator: lk_integrand_im ZERO true u x = sin(u x) - u*0) are the closed forms CL{n,p}_{re,im} (antiderivatives of e^{-eta x} cos / sin, "
        "vanishing at infinity by a squeeze), the GENERATED complex code hem_pj_c at i u equals (CLn_re + CLp_re, CLn_im + CLp_im), and the generated "
        "levy_exponent_c at the real argument u equals (-sigma^2 u^2/2 + Re, a u + Im); hem_nu is C09's generated density. Not covered: complex "
        "u off the two axes; that the two-sided integral is the sum of the half-line ones is left implicit (hem_nu(0) = 0 in the code)",
    "C10_vg_char_exponent_closed_form_partial": "PARTIAL: for 0 < nu the generated vg_pj_c at i u is (-ln|z|/nu, -atan(B/A)/nu), z = A + iB, "
        "A = 1 + nu sigma^2 u^2/2 >= 1 (so numpy's atan2 is on its x > 0 branch), B = -theta nu u, and psi_c splits as for HEM; MISSING: that these are "
        "the Levy-Khintchine integrals of (cos(ux)-1) vg_nu and sin(ux) vg_nu (complex Frullani: -c/2 ln(1+u^2/lp^2), c atan(u/lp), ...), "
        "not attempted (needs differentiation under the integral or a complex-valued Frullani argument); validated by the quadrature oracle at real u",
    "C10_vg_char_exponent_re_partial": "PARTIAL: for 0 < sigma, 0 < nu and every real u, with c, lm, lp the generated VGParameters constants: "
        "A^2 + B^2 = (1 + u^2/lp^2)(1 + u^2/lm^2) (from lp lm = 2/(nu sigma^2), lm - lp = 2 theta/sigma^2) and Re vg_pj_c(i u) = -(c/2) ln(1 + u^2/lm^2) "
        "- (c/2) ln(1 + u^2/lp^2); MISSING: is_RInt_gen of (cos(ux)-1) vg_nu over each half-line equals the respective term, and the imaginary part",
    "C10_kappa_is_generated_exponent": "kappa a sigma pj s (hand model used by every real-axis theorem above) = the generated levy_exponent_c at "
        "minus_i_times s = Cmult (Copp Ci) (RtoC s) (Python: -1j * s), as a complex number with zero imaginary part, for HEM (s off the poles "
        "eta1, -eta2) and VG (nu <> 0 and positive argument of the logarithm, where numpy's complex log is the real one: Cmod = the value, atan2 = 0); "
        "generic lemma kappa_is_levy_exponent_c for any pair (complex code, real code) that agree on the real axis; Merton / CGMY: their complex "
        "pure-jump code is not regenerated (np.exp of a complex is in the layer, CGMY's np.power with complex base is not)",
    "complex arguments of levy_exponent": "modelled for HEM and VG (generated over C = R * R) and tied by interval case lemmas on both parts at real float u "
        "and at -1j*s; Merton / CGMY: oracle compares levy_exponent(u) at real u with the complex LK quadrature",
}

QUICK = dict(n_random=2, coq_per_group=4, seqs=40)
THOROUGH = dict(n_random=12, coq_per_group=40, seqs=400)


def _cfg(res):
    return QUICK if res.tier == "quick" else THOROUGH


# ============================================================================================ oracle helpers
def _rep_h(model):
    from rpylib.model.levymodel.levymodel import LevyRepresentation as LR
    rep = model.levy_triplet.representation
    fv = model.levy_triplet.nu.jump_of_finite_variation()
    if rep == LR.ZERO or (rep == LR.TILDE and fv):
        return "zero"
    if rep == LR.CENTER:
        return "center"
    return "oneone"


def lk_quad(nu, hkind, z, outside=None, split=()):
    """int (exp(z x) - 1 - z h(x)) nu(dx) by mpmath with the implementation's density; z complex (mp).
    outside=(l, r): integrate only over the complement of [l, r]."""
    z = mp.mpmathify(z)

    def g(x):
        zx = z * x
        if hkind == "zero":
            return mp.expm1(zx)
        hx = x if (hkind == "center" or abs(x) < 1) else 0
        if hx != 0 and abs(zx) < mp.mpf("1e-3"):
            return sum(zx ** k / mp.factorial(k) for k in range(2, 10))
        return mp.expm1(zx) - z * hx

    def f(x):
        if abs(x) < mp.mpf("1e-100"):
            return mp.mpf(0)
        return g(x) * mp.mpf(float(nu(float(x))))

    if outside is not None:
        l, r = outside
        return mp.quad(f, [-mp.inf, min(l - 1, -8), l]) + mp.quad(f, [r, max(r + 1, 8), mp.inf])
    # the pieces next to 0 ((e^{zx} - 1 - z h) nu ~ |x|^(1-y) for CGMY, y < 2) after the substitution x = +-t^24
    c0 = min([mp.mpf("0.05")] + [abs(mp.mpf(p)) for p in split if p != 0])
    neg = sorted({-mp.inf, -8, -1, -c0} | {mp.mpf(p) for p in split if p < -c0})
    pos = sorted({c0, 1, 8, mp.inf} | {mp.mpf(p) for p in split if p > c0})
    return mp.quad(f, neg) + L.sing_quad(f, -c0) + L.sing_quad(f, c0) + mp.quad(f, pos)


def strip(kind, params):
    """(lo, hi): kappa(s) is finite for lo < s < hi"""
    if kind == "hem":
        return -params["eta2"], params["eta1"]
    if kind == "merton":
        return -6.0, 6.0
    if kind == "vg":
        s2, nu, th = params["sigma"] ** 2, params["nu"], params["theta"]
        lp = math.sqrt(th ** 2 + 2 * s2 / nu) / s2 - th / s2
        return -(lp + 2 * th / s2), lp
    if kind == "cgmy":
        return -params["g"], params["m"]
    return -6.0, 6.0


def kappa_impl(model, s):
    return complex(model.levy_exponent(-1j * s))


def cauchy_derivative(model, n, rho, N=96):
    """n-th derivative at 0 of z -> levy_exponent(-i z) by the trapezoid rule on the circle |z| = rho (analytic inside)"""
    acc = 0j
    for k in range(N):
        th = 2 * math.pi * k / N
        z = rho * complex(math.cos(th), math.sin(th))
        acc += complex(model.levy_exponent(-1j * z)) * complex(math.cos(-n * th), math.sin(-n * th))
    return math.factorial(n) * acc / (N * rho ** n)


def _close(x, ref, rel=2e-7, ab=1e-9):
    return abs(x - ref) <= rel * max(abs(ref), abs(x), 1.0) * 1.0 + ab


# ============================================================================================ oracle
def _oracle(res, rng):
    cfg = _cfg(res)
    models = L.model_sets(rng, cfg["n_random"])
    for kind, params in models:
        model, nu = L.build(kind, params)
        hk = _rep_h(model)
        a0, sig = model._original_drift, model.levy_triplet.sigma
        lo, hi = strip(kind, params)
        ykey = ""
        if kind == "cgmy":
            y = params["y"]
            ykey = " y<0" if y < 0 else (" y=0" if y == 0 else (" 0<y<1" if y < 1 else (" y=1" if y == 1 else " 1<y<2")))
        res.bump("oracle_model", kind + ykey)
        pk = tuple(sorted(params.items()))
        # ---- (a) exponent versus Levy-Khintchine integral of the implementation's density in the declared representation
        ss = [0.35 * hi, 0.8 * hi, 0.5 * lo, 1.0 if 1.0 < 0.95 * hi else 0.5 * hi]
        for s in ss:
            ref = a0 * s + 0.5 * sig ** 2 * s ** 2 + complex(lk_quad(nu, hk, s))
            got = kappa_impl(model, s)
            res.count(("lk-real", kind, pk, s), kind="oracle exponent real axis")
            if not _close(got, ref):
                rep = dict(kind="exponent", model=kind, params=params, s=s, declared=model.levy_triplet.representation.name,
                           got=[got.real, got.imag], expected_LK_integral=[ref.real, ref.imag])
                if kind == "cgmy":
                    rep["finding"] = "F-C10-2" if params["y"] < 0 else ("F-C10-3" if params["y"] == 0 else ("F-C10-4" if params["y"] == 1 else None))
                res.violation(f"{kind}{ykey}: levy_exponent(-i s) differs from the Levy-Khintchine integral of the model's density in the declared representation", rep)
        for u in (0.7, -2.5, 6.0):
            ref = 1j * u * a0 - 0.5 * sig ** 2 * u ** 2 + complex(lk_quad(nu, hk, 1j * u))
            got = complex(model.levy_exponent(u))
            res.count(("lk-cplx", kind, pk, u), kind="oracle exponent real argument (characteristic exponent)")
            if not _close(got, ref, rel=1e-6):
                rep = dict(kind="exponent-u", model=kind, params=params, u=u, declared=model.levy_triplet.representation.name,
                           got=[got.real, got.imag], expected_LK_integral=[ref.real, ref.imag])
                if kind == "cgmy":
                    rep["finding"] = "F-C10-2" if params["y"] < 0 else ("F-C10-3" if params["y"] == 0 else ("F-C10-4" if params["y"] == 1 else None))
                res.violation(f"{kind}{ykey}: levy_exponent(u) differs from the Levy-Khintchine integral of the model's density in the declared representation", rep)
        # ---- (b) cumulants versus derivatives of the exponent
        rho = 0.45 * min(abs(lo), abs(hi)) if kind != "merton" else 1.0
        t = rng.choice([0.5, 1.0, 2.0])
        for n in (1, 2, 3, 4, 5, 6):
            try:
                c = float(getattr(model.cumulant, f"cumulant{n}")(t))
            except NotImplementedError:
                res.bump("cumulant_order_not_offered_by_the_library", f"{kind} cumulant{n}")
                continue
            ref = t * cauchy_derivative(model, n, rho)
            res.count(("cum", kind, pk, n, t), kind=f"oracle cumulant{n}")
            if abs(ref.imag) > 1e-8 * max(1, abs(ref)) or not _close(c, ref.real, rel=1e-7, ab=1e-10):
                rep = dict(kind="cumulant", model=kind, params=params, n=n, t=t, got=c, expected_derivative=[ref.real, ref.imag])
                if kind == "cgmy":
                    rep["finding"] = "F-C10-2" if params["y"] < 0 else ("F-C10-3" if params["y"] == 0 else ("F-C10-4" if params["y"] == 1 else None))
                res.violation(f"{kind}{ykey}: cumulant{n}(t) is not t times the {n}-th derivative of the exponent at 0", rep)
        # ---- (c) forwards
        if kind == "hem" and params["eta1"] <= 1.05:
            continue
        if 1.0 >= 0.97 * hi:
            continue   # E exp(L_1) infinite
        spot, r, d, T = rng.choice([100.0, 80.0, 1.0]), L.rnd(rng, 0.0, 0.08, 3), L.rnd(rng, 0.0, 0.05, 3), rng.choice([0.25, 1.0, 2.5])
        em = L.build_exp(kind, params, spot, r, d)
        fwd = spot * math.exp((r - d) * T)
        got = complex(em.log_characteristic_function(T, -1j))
        res.count(("fwd-cf", kind, pk, spot, r, d, T), kind="oracle forward cf route")
        if not _close(got, fwd, rel=1e-9):
            res.violation(f"{kind}: log_characteristic_function(T,-1j) is not the forward S0 exp((r-d)T)",
                          dict(kind="forward-cf", model=kind, params=params, spot=spot, r=r, d=d, T=T, got=[got.real, got.imag], expected=fwd))
        if kind in ("hem", "merton"):
            from rpylib.process.levyprocess import LevyProcess
            det = float(LevyProcess(em).deterministic_path(np.array([T]))[0])
            J0 = complex(lk_quad(nu, "zero", 1.0)).real
            got = math.exp(det + T * (0.5 * em.diffusion_coefficient() ** 2 + J0))
            res.count(("fwd-direct", kind, pk, spot, r, d, T), kind="oracle forward direct route")
            if not _close(got, fwd, rel=1e-8):
                res.violation(f"{kind}: the direct-simulation drift does not give the forward S0 exp((r-d)T) under the exact jump law",
                              dict(kind="forward-direct", model=kind, params=params, spot=spot, r=r, d=d, T=T, got=got, expected=fwd,
                                   finding="F-C10-1" if kind == "hem" else None))
        _ctmc_route(res, rng, kind, params, em, nu, hk, r, d, ykey)
    # Black-Scholes
    for _ in range(3):
        sigma, spot, r, d, T = L.rnd(rng, 0.05, 0.5), 100.0, L.rnd(rng, 0, 0.08, 3), L.rnd(rng, 0, 0.05, 3), rng.choice([0.5, 1.0, 3.0])
        em = L.build_exp("bs", dict(sigma=sigma), spot, r, d)
        from rpylib.process.levyprocess import LevyProcess
        fwd = spot * math.exp((r - d) * T)
        det = float(LevyProcess(em).deterministic_path(np.array([T]))[0])
        got1 = math.exp(det + T * 0.5 * sigma ** 2)
        got2 = complex(em.log_characteristic_function(T, -1j))
        res.count(("fwd-bs", sigma, r, d, T), kind="oracle forward Black-Scholes")
        if not _close(got1, fwd, rel=1e-10) or not _close(got2, fwd, rel=1e-10):
            res.violation("bs: forward routes disagree with S0 exp((r-d)T)", dict(kind="forward-bs", sigma=sigma, r=r, d=d, T=T,
                                                                               direct=got1, cf=[got2.real, got2.imag], expected=fwd))
    _conversions_oracle(res, rng)
    _truncated_conversions_oracle(res, rng)
    _levy_model_drift_oracle(res, rng)
    _rebuilt_oracle(res, rng)
    _strip_oracle(res, rng)
    _ctmc_skips(res)


CTMC_BIAS_TOL = 1e-6      # stated tolerance on |growth rate - (r - d)| per year for the Markov-chain route
CTMC = {"attempts": 0, "skipped": 0}


def _ctmc_route(res, rng, kind, params, em, nu, hk, r, d, ykey):
    """growth rate of E S_t when the chain's jump law is replaced by the exact law of the measure the chain works with
    (the TRUNCATED measure): it must be r - d within CTMC_BIAS_TOL.  The truncation removes
    tail = int_outside (e^x - 1 - x h_declared(x)) nu from the exponent while omega is computed from the un-truncated
    exponent: bias = -tail (finding F-C10-5); a bias that is NOT -tail is some other defect and is reported untagged."""
    from rpylib.distribution.sampling import SamplingMethod
    from rpylib.grid.spatial import CTMCUniformGrid
    from rpylib.process.markovchain.markovchain import MarkovChainProcess, compute_mu_h
    from rpylib.product.payoff import Forward
    from rpylib.product.product import Product
    from rpylib.product.underlying import Spot
    # grids: the default truncation (probability 0.99999) at several h, and a hand-sized grid whose truncation lies strictly
    # inside (-1, 1) (so that the tails [1, inf), (-inf, -1] do not meet it)
    specs = [("auto", h) for h in ((0.05, 0.02) if res.tier == "quick" else (0.05, 0.02, 0.01))] + [("narrow", 0.02), ("narrow", 0.04)]
    for gkind, h in specs:
        CTMC["attempts"] += 1
        try:
            grid = CTMCUniformGrid(h=h, model=em) if gkind == "auto" else \
                CTMCUniformGrid.create_from_fixed_nb_of_points(h=h, nb_of_points=20)
            mcp = MarkovChainProcess(model=em, method=SamplingMethod.BINARYSEARCHTREEADAPTED1D
                                     if hasattr(SamplingMethod, "BINARYSEARCHTREEADAPTED1D") else list(SamplingMethod)[0], grid=grid)
            mcp.initialisation(Product(payoff_underlying=Spot(), payoff=Forward(strike=1.0), maturity=1.0))
        except Exception as e:  # noqa  (the chain construction itself belongs to C01/C04); counted, see _ctmc_skips
            CTMC["skipped"] += 1
            res.bump("ctmc_route_skipped", f"{kind}{ykey} {type(e).__name__}")
            res.notes.append(f"ctmc route skipped for {kind} {params} h={h}: {type(e).__name__}: {str(e)[:80]}")
            continue
        tnu = mcp.model.levy_triplet.nu           # truncated measure
        l, rr = tnu.truncations
        mu_h = float(compute_mu_h(levy_measure=tnu, grid=grid, axis=grid.axes[0], origin=grid.origin_coordinate.value))
        sig = em.levy_triplet.sigma
        Jc = complex(lk_quad(tnu, "center", 1.0, split=(l, rr))).real   # int (e^x - 1 - x) nu_truncated
        tail = complex(lk_quad(nu, hk, 1.0, outside=(l, rr))).real      # what the truncation removed from kappa(1)
        growth = float(mcp._process_drift) + mu_h + 0.5 * sig ** 2 + Jc
        bias = growth - (r - d)
        res.count(("fwd-ctmc", kind, tuple(sorted(params.items())), r, d, gkind, h), kind="oracle forward ctmc route")
        res.bump("ctmc_grid", f"{gkind} h={h}" + (" (truncation inside (-1,1))" if -1 < l and rr < 1 else ""))
        rep = dict(kind="forward-ctmc", model=kind, params=params, r=r, d=d, h=h, grid=gkind, truncations=[l, rr], process_drift=float(mcp._process_drift),
                   mu_h=mu_h, growth_under_exact_truncated_law=growth, bias=bias, removed_tail=tail, expected=r - d)
        rep["truncation_as_specified"] = bool(_truncation_ok(nu, gkind, h, float(l), float(rr)))
        explained = _close(bias + tail, 0.0, rel=1e-7, ab=1e-8)
        if not explained:
            if kind == "cgmy":
                rep["finding"] = "F-C10-2" if params["y"] < 0 else ("F-C10-3" if params["y"] == 0 else ("F-C10-4" if params["y"] == 1 else None))
            res.violation(f"{kind}{ykey}: the Markov-chain drift with the exact jump law does not grow at r-d "
                          f"(and the gap is not the truncated tail)", rep)
        elif abs(bias) > CTMC_BIAS_TOL:
            rep["finding"] = "F-C10-5"
            res.violation(f"{kind}{ykey}: the Markov-chain drift with the exact law of the truncated measure misses r-d by the exponential "
                          f"moment of the truncated tails (|bias| > {CTMC_BIAS_TOL:g} per year)", rep)


def _truncation_ok(nu, gkind, h, l, r, p=0.99999):
    """is the truncation [l, r] the chain works with the one its constructor's ARGUMENTS specify (computed here independently)?
    `narrow`: create_from_fixed_nb_of_points(h, 20) -> [-10 h, 10 h];  `auto`: CTMCUniformGrid(h, model, 0.99999) -> the points
    where the mass of the density between h/2 and the bound is the fraction p of the mass beyond h/2, on each side."""
    if gkind == "narrow":
        return abs(l + 10 * h) <= 1e-12 and abs(r - 10 * h) <= 1e-12
    f = lambda x: mp.mpf(float(nu(float(x))))
    try:
        right = mp.quad(f, [h / 2, r]) / (mp.quad(f, [h / 2, r]) + mp.quad(f, [r, max(2 * r, r + 1), mp.inf]))
        left = mp.quad(f, [l, -h / 2]) / (mp.quad(f, [l, -h / 2]) + mp.quad(f, [-mp.inf, min(2 * l, l - 1), l]))
    except Exception:  # noqa
        return False
    return abs(float(right) - p) <= 1e-8 and abs(float(left) - p) <= 1e-8


def _ctmc_skips(res):
    if CTMC["attempts"] and CTMC["skipped"] > 0.25 * CTMC["attempts"]:
        res.broke("ctmc route oracle", f"{CTMC['skipped']} of {CTMC['attempts']} Markov-chain constructions raised: the route is not being checked")
    res.notes.append(f"ctmc route: {CTMC['attempts'] - CTMC['skipped']} of {CTMC['attempts']} chain constructions evaluated")
    CTMC["attempts"] = CTMC["skipped"] = 0


def matches_known(v, known):
    """a recorded finding explains only the failures it predicts"""
    r = v["replay"]
    if known["id"] == "F-C10-5":
        # truncation bias of the Markov-chain route: the gap must BE minus the removed tail integral (same quadrature, same
        # declared representation) and of the recorded order of magnitude (observed 1e-5 .. 7e-2 per year; cap 0.5)
        return (r.get("kind") == "forward-ctmc" and "bias" in r and "removed_tail" in r and r.get("truncation_as_specified") is True
                and abs(r["bias"] + r["removed_tail"]) <= 1e-7 * max(1.0, abs(r["removed_tail"])) + 1e-8
                and CTMC_BIAS_TOL < abs(r["bias"]) and (abs(r["bias"]) < 0.5 or r.get("grid") == "narrow"))
        # (hand-sized `narrow` grids cut the measure wherever the user puts the grid: the size of the tail is then arbitrary;
        #  what identifies the finding is that the gap IS minus the removed tail)
    return False


class StubMeasure:
    """first-moment function with exactly representable (dyadic) values: the conversions are then exact in floats"""

    def __init__(self, i11, tl, tr, fv):
        self.v, self.fv = {(-1, 1): i11, (-INF, -1): tl, (1, INF): tr}, fv

    def integrate_against_x(self, a, b):
        return self.v[(a, b)]

    def jump_of_finite_variation(self):
        return self.fv


def _dy(rng):
    return rng.randrange(-64, 65) / 16.0


def _run_sequence(nu, a0, r0, seq):
    """(status, a after the sequence, a after the direct change, a after coming back)"""
    from rpylib.model.levymodel.levymodel import LevyTriplet
    try:
        t = LevyTriplet(sigma=0.0, nu=nu, a=a0, representation=r0)
        for r_ in seq:
            t.set_representation(r_)
        direct = LevyTriplet(sigma=0.0, nu=nu, a=a0, representation=r0)
        direct.set_representation(seq[-1])
        a_seq, a_dir, rep_ok = t.a, direct.a, t.representation == direct.representation
        t.set_representation(r0)
        return "ok", a_seq, a_dir, t.a, rep_ok
    except ValueError as e:
        return f"ValueError: {e}", None, None, None, None
    except Exception as e:  # noqa
        return f"{type(e).__name__}: {e}", None, None, None, None


def _zero_involved(fv, r0, seq):
    """does some actual conversion of the sequence (or of the way back) need the ZERO representation of an infinite-variation measure?"""
    from rpylib.model.levymodel.levymodel import LevyRepresentation as LR
    if fv:
        return False
    cur = r0
    for r_ in list(seq) + [r0]:
        if r_ != cur and (r_ == LR.ZERO or cur == LR.ZERO):
            return True
        cur = r_
    # the direct change r0 -> seq[-1]
    return seq[-1] != r0 and (seq[-1] == LR.ZERO or r0 == LR.ZERO)


def _conversions_oracle(res, rng):
    """`raises ValueError (ZERO representation of an infinite-variation measure) or is path-independent and reversible`:
    dyadic stub measures (exact) and the real measures of every model, CGMY y >= 1 included, every representation included"""
    from rpylib.model.levymodel.levymodel import LevyRepresentation as LR
    reps = [LR.ZERO, LR.CENTER, LR.ONEONE, LR.TILDE]
    jobs = []
    for _ in range(_cfg(res)["seqs"]):
        jobs.append(("dyadic", None, StubMeasure(_dy(rng), _dy(rng), _dy(rng), rng.random() < 0.5), _dy(rng), 0.0))
    for kind, params in L.model_sets(rng, 1):
        model, nu = L.build(kind, params)
        for _ in range(3):
            jobs.append((kind, params, nu, L.rnd(rng, -1, 1, 3), 1e-12))
    for src, params, nu, a0, tol in jobs:
        fv = bool(nu.jump_of_finite_variation())
        r0 = rng.choice(reps)
        if src != "dyadic":
            r0 = rng.choice([LR.CENTER, LR.ONEONE, LR.TILDE] + ([LR.ZERO] if fv else []))   # a declared representation that exists
        seq = [rng.choice(reps) for _ in range(rng.randrange(1, 6))]
        status, a_seq, a_dir, a_back, rep_ok = _run_sequence(nu, a0, r0, seq)
        must_raise = _zero_involved(fv, r0, seq)
        res.count(("conv", src, a0, r0.name, tuple(x.name for x in seq), fv, json.dumps(params, sort_keys=True)), kind=f"oracle set_representation sequences ({'real measure' if src != 'dyadic' else 'dyadic stub'})")
        res.bump("conversion_sequence_length", len(seq))
        res.bump("conversion_outcome", "raises ValueError" if status.startswith("ValueError") else status.split(":")[0])
        rep = dict(kind="conversion", source=src, params=params, a=a0, rep=r0.name, seq=[x.name for x in seq], fv=fv, status=status,
                   got=a_seq, direct=a_dir, back=a_back, finding="F-C10-6" if not fv else None)
        if status != "ok":
            if not (status.startswith("ValueError") and must_raise):
                res.violation("set_representation raises where the conversion is well defined (or raises something other than ValueError)", rep)
            continue
        if must_raise:
            res.violation("set_representation through the ZERO representation of an infinite-variation measure neither raises nor is meaningful", rep)
            continue
        bad = (not rep_ok or any(x is None or x != x or abs(x) == INF for x in (a_seq, a_dir, a_back))
               or abs(a_seq - a_dir) > tol * max(1.0, abs(a_dir)) or abs(a_back - a0) > tol * max(1.0, abs(a0)))
        if bad:
            res.violation("set_representation is path dependent or not reversible", rep)


# ------------------------------------------------------------------------------------------------ refused conversions (seed C10_g)
def _ref_step(fv, i11, tails, a, rep, target):
    """reference semantics of ONE request on the state (a, rep): (raised, a', rep'); exact on Fractions"""
    from rpylib.model.levymodel.levymodel import LevyRepresentation as LR
    if target == rep:
        return False, a, rep
    if not fv and LR.ZERO in (target, rep):
        return True, a, rep                      # refused: ValueError, state unchanged
    def to_can(r, x):
        return x + i11 if r == LR.ZERO or (r == LR.TILDE and fv) else (x - tails if r == LR.CENTER else x)
    def of_can(r, c):
        return c - i11 if r == LR.ZERO or (r == LR.TILDE and fv) else (c + tails if r == LR.CENTER else c)
    return False, of_can(target, to_can(rep, a)), target


def _center_of(fv, i11, tails, a, rep):
    """center drift (= first cumulant per unit time of the triplet) read off a state"""
    from rpylib.model.levymodel.levymodel import LevyRepresentation as LR
    c = a + i11 if rep == LR.ZERO or (rep == LR.TILDE and fv) else (a - tails if rep == LR.CENTER else a)
    return c + tails


def _stepwise(triplet, seq):
    """runs the requests on ONE triplet object, catching ValueError; [(raised, a, representation)] after every request"""
    out = []
    for r_ in seq:
        try:
            triplet.set_representation(r_)
            raised = False
        except ValueError:
            raised = True
        out.append((raised, triplet.a, triplet.representation))
    return out


def _refused_sequence(rng, fv, n):
    from rpylib.model.levymodel.levymodel import LevyRepresentation as LR
    reps = [LR.ZERO, LR.CENTER, LR.ONEONE, LR.TILDE]
    seq = [rng.choice(reps) for _ in range(n)]
    if not fv and LR.ZERO not in seq[:-1]:
        seq[rng.randrange(0, max(1, n - 1))] = LR.ZERO       # at least one refused probe that is followed by further requests
    return seq


def _refused_conversions_oracle(res, rng):
    """conversion SEQUENCES on one triplet object that include REFUSED requests (ZERO for infinite variation: ValueError caught by the
    caller) followed by further requests: after EVERY request (a, representation) is what the reference semantics gives -- a refused
    request changes nothing --, the center drift (first cumulant of the triplet) never moves, and for the real models it stays
    cumulant1(1).  Dyadic stub measures (exact comparison) and the models' own triplets (CGMY 1 <= y < 2 in CENTER included)."""
    from rpylib.model.levymodel.levymodel import LevyTriplet, LevyRepresentation as LR
    jobs = []
    for _ in range(_cfg(res)["seqs"]):
        fv = rng.random() < 0.35
        nu = StubMeasure(_dy(rng), _dy(rng), _dy(rng), fv)
        r0 = rng.choice([LR.CENTER, LR.ONEONE, LR.TILDE] + ([LR.ZERO] if fv else []))
        a0 = _dy(rng)
        jobs.append(("dyadic", None, LevyTriplet(sigma=0.0, nu=nu, a=a0, representation=r0), Fraction(nu.v[(-1, 1)]),
                     Fraction(nu.v[(-INF, -1)]) + Fraction(nu.v[(1, INF)]), fv, None, 0.0))
    extra = [("cgmy", dict(c=0.8, g=6.0, m=4.5, y=1.3)), ("cgmy", dict(c=1.0, g=4.0, m=6.0, y=1.0)), ("cgmy", L.cgmy_params(rng, y=L.rnd(rng, 1.05, 1.9)))]
    for kind, params in extra + L.model_sets(rng, 1):
        model, nu = L.build(kind, params)
        fv = bool(nu.jump_of_finite_variation())
        i11 = float(nu.integrate_against_x(-1, 1)) if fv else 0.0   # never used by an admissible conversion of an infinite-variation measure
        tails = float(nu.integrate_against_x(-INF, -1)) + float(nu.integrate_against_x(1, INF))
        c1 = float(model.cumulant.cumulant1(1.0)) if nu.finite_first_moment() else None
        jobs.append((kind, params, model.levy_triplet, i11, tails, fv, c1, 1e-11))
    for src, params, t, i11, tails, fv, c1, tol in jobs:
        exact = src == "dyadic"
        a, rep = (Fraction(t.a) if exact else float(t.a)), t.representation
        a0, r0 = a, rep
        center0 = _center_of(fv, i11, tails, a, rep)
        seq = _refused_sequence(rng, fv, rng.randrange(2, 8))
        got = _stepwise(t, seq)
        n_ref = 0
        res.bump("refused-sequence measure", "finite variation" if fv else "infinite variation")
        for k, (r_, (raised, ga, grep)) in enumerate(zip(seq, got)):
            want_raise, a, rep = _ref_step(fv, i11, tails, a, rep, r_)
            n_ref += want_raise
            res.count(("conv-refused", src, json.dumps(params, sort_keys=True), float(a0), r0.name, tuple(x.name for x in seq[:k + 1]), fv),
                      nontrivial=n_ref > 0, kind=f"oracle set_representation sequences with refused requests ({'dyadic stub' if exact else 'model triplet'})")
            ga_ = Fraction(ga) if exact else float(ga)
            center = _center_of(fv, i11, tails, ga_, grep)
            scale = max(1.0, abs(float(a)), abs(float(tails)))
            bad = []
            if raised != want_raise:
                bad.append("raises" if raised else "does not raise")
            if grep != rep or (ga_ != a if exact else abs(ga_ - a) > tol * scale):
                bad.append("state (a, representation) differs from the conversion semantics" + (" (a refused request must change nothing)" if want_raise else ""))
            if (center != center0) if exact else abs(center - center0) > tol * scale:
                bad.append("the center drift (first cumulant of the triplet) moved")
            if c1 is not None and abs(center - c1) > 1e-9 * max(1.0, abs(c1)):
                bad.append("the center drift of the triplet is no longer cumulant1(1)")
            if bad:
                res.violation("set_representation sequence with refused (caught) requests: after request #%d (%s): %s" % (k + 1, r_.name, "; ".join(bad)),
                              dict(kind="conversion-refused", source=src, params=params, a=float(a0), rep=r0.name, seq=[x.name for x in seq], step=k + 1,
                                   fv=fv, I11=float(i11), tails=float(tails), got=[bool(raised), float(ga), grep.name],
                                   expected=[bool(want_raise), float(a), rep.name], cumulant1=c1))
                break
        res.bump("refused requests per sequence", n_ref)


def _truncated_conversions_oracle(res, rng):
    """representation changes of a TRUNCATED triplet (what MarkovChainProcess does before simulating) against the Levy-Khintchine
    meaning of each representation, with the moments int_{-1}^{1} x nu_T and int_{|x|>1} x nu_T computed independently by mpmath
    from the truncated measure's own density; truncations strictly inside (-1,1), around +-1 and wide"""
    import copy
    from rpylib.model.levymodel.levymodel import LevyRepresentation as LR
    sets = [("hem", dict(L.FIXED["hem"][0])), ("merton", dict(L.FIXED["merton"][0])), ("vg", dict(L.FIXED["vg"][0])),
            ("cgmy", dict(c=0.5, g=3.0, m=8.0, y=0.5)), ("cgmy", dict(c=1.0, g=4.0, m=6.0, y=0.0)), ("cgmy", dict(c=1.0, g=4.0, m=6.0, y=-0.5)),
            ("cgmy", dict(c=1.0, g=4.0, m=6.0, y=1.5)), ("cgmy", L.cgmy_params(rng)), ("hem", L.hem_params(rng)), ("vg", L.vg_params(rng))]
    truncs = [(-0.2, 0.2), (-0.4, 0.7), (-L.rnd(rng, 0.1, 0.9), L.rnd(rng, 0.1, 0.9)), (-0.6, 1.4), (-1.7, 0.8), (-2.5, 2.0)]
    for kind, params in sets:
        for (l, r) in truncs:
            model, _ = L.build(kind, params)
            m = copy.deepcopy(model)
            m.truncate_levy_measure((l, r))
            t = m.levy_triplet
            tnu, fv = t.nu, bool(t.nu.jump_of_finite_variation())
            a0, rep0 = float(t.a), t.representation
            tails = L.quad_xn_nu(tnu, -INF, -1.0, 1, extra=(l, r)) + L.quad_xn_nu(tnu, 1.0, INF, 1, extra=(l, r))
            i11 = L.quad_xn_nu(tnu, -1.0, 1.0, 1, extra=(l, r)) if fv else None
            canon = {LR.ONEONE: a0, LR.ZERO: a0 + (i11 or 0.0), LR.CENTER: a0 - tails, LR.TILDE: a0 + (i11 if fv else 0.0)}[rep0]
            want = {LR.ONEONE: canon, LR.CENTER: canon + tails, LR.TILDE: canon - (i11 if fv else 0.0)}
            if fv:
                want[LR.ZERO] = canon - i11
            seq = rng.sample(list(want), len(want))
            for r_ in seq:
                res.count(("conv-trunc", kind, tuple(sorted(params.items())), l, r, rep0.name, r_.name), kind="oracle conversions of a truncated triplet")
                res.bump("truncation_inside_(-1,1)", -1 < l and r < 1)
                rep = dict(kind="conversion-truncated", model=kind, params=params, truncations=[l, r], declared=rep0.name, a=a0, to=r_.name,
                           expected=want[r_], I11_truncated=i11, tails_truncated=tails)
                try:
                    t.set_representation(r_)
                except Exception as e:  # noqa
                    rep["raised"] = f"{type(e).__name__}: {e}"
                    res.violation(f"{kind}: set_representation of a truncated triplet raises", rep)
                    break
                if not _close(float(t.a), want[r_], rel=1e-8, ab=1e-10):
                    rep["got"] = float(t.a)
                    res.violation(f"{kind}: drift of the truncated triplet in the {r_.name} representation disagrees with the "
                                  f"Levy-Khintchine moments of the truncated density", rep)
                    break


def _levy_model_drift_oracle(res, rng):
    """NON-exponential models simulated directly (process L itself): the mean rate of the simulated process,
    process_drift() + (int x nu if the declared representation does not compensate the jumps), must be cumulant1(1);
    and for the families with a jump sampler (HEM, Merton) the law of jump_increment must be nu / intensity."""
    from rpylib.model.levymodel.levymodel import LevyRepresentation as LR
    from rpylib.process.levyprocess import LevyProcess
    for kind, params in L.model_sets(rng, 1 if res.tier == "quick" else 4):
        model, nu = L.build(kind, params)
        rep = model.levy_triplet.representation
        mean_jumps = L.quad_xn_nu(nu, -INF, INF, 1) if rep == LR.ZERO else 0.0     # CENTER: jumps are compensated
        pd = float(LevyProcess(model).deterministic_path(np.array([1.0]))[0]) - float(model.x0_value())
        want = float(model.cumulant.cumulant1(1.0))
        res.count(("levy-drift", kind, tuple(sorted(params.items()))), kind="oracle direct simulation of the Levy model: mean rate = cumulant1")
        if not _close(pd + mean_jumps, want, rel=1e-8, ab=1e-10):
            res.violation(f"{kind}: process_drift() of the (non-exponential) Levy model plus the mean of the jumps is not cumulant1",
                          dict(kind="levy-drift", model=kind, params=params, process_drift=pd, triplet_a=float(model.levy_triplet.a),
                               mean_of_jumps=mean_jumps, cumulant1=want, finding="F-C10-9"))
        if kind in ("hem", "merton"):
            _jump_law(res, kind, params, model, nu)


def _jump_law(res, kind, params, model, nu):
    """law of jump_increment: the uniforms / normals it draws are replaced by a product grid of mid-point quantiles, so the sample
    IS the sampler's law up to the grid; its distribution function must be nu(-inf, x] / intensity"""
    from scipy.special import ndtri
    N, M = 64, 400
    u = np.repeat((np.arange(N) + 0.5) / N, M)
    v = np.tile((np.arange(M) + 0.5) / M, N)
    seq = [u, v]
    orig_random, orig_normal = np.random.random, np.random.normal
    calls = {}

    def fake_random(size=None):
        return seq.pop(0)[: size if size is not None else 1]

    def fake_normal(loc=0.0, scale=1.0, size=None):
        calls["loc"], calls["scale"] = loc, scale
        return loc + scale * ndtri((np.arange(size) + 0.5) / size)
    np.random.random, np.random.normal = fake_random, fake_normal
    try:
        z = np.asarray(model.jump_increment(n=N * M), dtype=float)
    finally:
        np.random.random, np.random.normal = orig_random, orig_normal
    lam = float(model.intensity())
    for x in (-0.5, -0.2, -0.05, 0.05, 0.2, 0.5):
        emp = float(np.mean(z <= x))
        want = float(nu.integrate(-INF, x)) / lam
        res.count(("jump-law", kind, tuple(sorted(params.items())), x), kind="oracle law of jump_increment")
        if abs(emp - want) > 3.0 / N + 3.0 / M:
            res.violation(f"{kind}: the law of jump_increment is not nu / intensity",
                          dict(kind="jump-law", model=kind, params=params, x=x, sampled_cdf=emp, expected_cdf=want))
            break


def _rebuilt_oracle(res, rng):
    """exponent, omega and forward after the library's calibration sequence (deepcopy parameters, set one attribute,
    initialisation(), rebuild the exponential model): quantities cached in the parameters must be refreshed"""
    import copy
    news = {"hem": dict(p=[0.25], eta1=[4.0], eta2=[2.5], intensity=[0.6], sigma=[0.2]),
            "merton": dict(mu_j=[0.3], sigma_j=[0.1], intensity=[0.4], sigma=[0.25]),
            "vg": dict(sigma=[0.3], nu=[0.6], theta=[0.2]),
            "cgmy": dict(c=[0.12], g=[2.5], m=[12.0], y=[1.3, -0.5, 1.0, 0.0])}
    for kind in ("hem", "merton", "vg", "cgmy"):
        base_params = dict(L.FIXED[kind][0]) if kind != "cgmy" else dict(c=0.05, g=10.0, m=8.0, y=0.5)
        base = L.build_exp(kind, base_params, 100.0, 0.03, 0.01)
        for name, values in news[kind].items():
            for value in values:
                pars = copy.deepcopy(base.levy_model.parameters)
                setattr(pars, name, value)
                pars.initialisation()
                em = type(base)(100.0, 0.03, 0.01, pars)
                model, nu = em.levy_model, em.levy_triplet.nu
                params = dict(base_params, **{name: value})
                hk = _rep_h(model)
                lo, hi = strip(kind, params)
                a0, sig = model._original_drift, model.levy_triplet.sigma
                res.count(("rebuilt", kind, name, value), kind="oracle exponent / omega after Parameters.initialisation")
                rep = dict(kind="rebuilt", model=kind, base=base_params, attribute=name, value=value)
                for s_ in (1.0 if hi > 1.05 else 0.5 * hi, 0.5 * lo):
                    ref = a0 * s_ + 0.5 * sig ** 2 * s_ ** 2 + complex(lk_quad(nu, hk, s_))
                    got = kappa_impl(model, s_)
                    if not _close(got, ref):
                        res.violation(f"after the calibration sequence (set {name}, initialisation(), rebuild): {kind} levy_exponent(-i s) "
                                      f"differs from the Levy-Khintchine integral of the rebuilt model's density",
                                      dict(rep, s=s_, got=[got.real, got.imag], expected_LK_integral=[ref.real, ref.imag]))
                        break
                if hi > 1.05:
                    om = -(a0 + 0.5 * sig ** 2 + complex(lk_quad(nu, hk, 1.0)).real)
                    fwd = complex(em.log_characteristic_function(1.0, -1j))
                    if not _close(float(em.omega), om) or not _close(fwd, 100.0 * math.exp(0.02), rel=1e-9):
                        res.violation(f"after the calibration sequence (set {name}, initialisation(), rebuild): {kind} omega / forward are stale",
                                      dict(rep, omega=float(em.omega), expected_omega=om, forward=[fwd.real, fwd.imag]))
                c1 = float(model.cumulant.cumulant1(1.0))
                d1 = cauchy_derivative(model, 1, 0.45 * min(abs(lo), abs(hi)) if kind != "merton" else 1.0)
                if not _close(c1, d1.real, rel=1e-7, ab=1e-10):
                    res.violation(f"after the calibration sequence (set {name}, initialisation(), rebuild): {kind} cumulant1 is stale",
                                  dict(rep, cumulant1=c1, derivative=[d1.real, d1.imag]))


def _strip_oracle(res, rng):
    """exponential models whose parameters make E exp(L_1) infinite must be refused (ValueError), never return a forward"""
    bad_sets = [("cgmy", dict(c=1.0, g=4.0, m=0.8, y=0.5)), ("cgmy", dict(c=0.7, g=3.0, m=0.3, y=1.5)), ("cgmy", dict(c=1.0, g=4.0, m=0.9, y=-0.5)),
                ("cgmy", dict(c=1.0, g=4.0, m=0.8, y=-1.0)), ("cgmy", dict(c=0.6, g=3.0, m=0.5, y=-2.0)), ("cgmy", dict(c=1.0, g=4.0, m=1.0, y=-1.0)),
                ("cgmy", dict(c=1.0, g=4.0, m=1.0, y=0.0)), ("cgmy", dict(c=1.0, g=4.0, m=0.7, y=1.0)), ("cgmy", dict(c=1.0, g=4.0, m=0.7, y=0.0)),
                ("vg", dict(sigma=0.9, nu=1.5, theta=0.3)), ("vg", dict(sigma=1.2, nu=2.0, theta=0.0)),
                ("hem", dict(sigma=0.1, p=0.4, eta1=0.5, eta2=5.0, intensity=1.0)), ("hem", dict(sigma=0.1, p=0.4, eta1=0.9, eta2=5.0, intensity=2.0)),
                ("hem", dict(sigma=0.1, p=0.4, eta1=1.0, eta2=5.0, intensity=2.0))]
    bad_sets.append(("cgmy", dict(c=L.rnd(rng, 0.2, 2), g=L.rnd(rng, 2, 8, 1), m=L.rnd(rng, 0.1, 0.95), y=rng.choice([-3.0, -2.0, -1.0, -0.5, 0.0, 0.3, 1.0, 1.5]))))
    bad_sets.append(("hem", dict(sigma=0.1, p=L.rnd(rng, 0.1, 0.9), eta1=L.rnd(rng, 0.1, 0.99), eta2=L.rnd(rng, 1, 9, 1), intensity=L.rnd(rng, 0.5, 3))))
    for kind, params in bad_sets:
        lo, hi = strip(kind, params)
        if hi > 1.0 or (hi == 1.0 and kind == "cgmy" and params["y"] > 0):
            continue       # E exp(L_1) finite (at m = 1 the CGMY tail x^(-1-y) is integrable iff y > 0)
        res.bump("strip_case", f"{kind}" + (f" y={params['y']:g}" if kind == "cgmy" else ""))
        res.count(("strip", kind, tuple(sorted(params.items()))), kind="oracle parameters outside the moment strip must be refused")
        try:
            em = L.build_exp(kind, params, 100.0, 0.03, 0.01)
            got = complex(em.log_characteristic_function(1.0, -1j))
        except (ValueError, ZeroDivisionError) as e:
            res.bump("strip_outcome", type(e).__name__)
            continue
        except Exception as e:  # noqa
            res.violation(f"{kind}: exponential model with E exp(L_1) infinite raises {type(e).__name__} (not a clear refusal)",
                          dict(kind="strip", model=kind, params=params, raised=f"{type(e).__name__}: {e}", finding="F-C10-7"))
            continue
        res.violation(f"{kind}: exponential model accepts parameters with E exp(L_1) infinite and returns a forward",
                      dict(kind="strip", model=kind, params=params, strip=[lo, hi], forward=[got.real, got.imag], omega=float(em.omega),
                           finding="F-C10-7"))


# ============================================================================================ Coq correspondence
HEADER = L.HEADER_COMMON + """From Coq Require Import List.
Import ListNotations.
From RV Require Import Base.RB Gen.GenC10Triplet Gen.GenC10Hem Gen.GenC10Merton Gen.GenC10Vg Gen.GenC10Cgmy Gen.GenC10Bs Gen.GenC10Exp
  Gen.GenC10Jump Model.LevyExponent Proofs.C10_Triplet Proofs.C10_Exponent Proofs.C10_VgLK
  Base.CxPair Gen.GenC10Cx Model.LevyExponentCx Proofs.C10_HemCx Proofs.C10_VgCx Proofs.C10_CxAxis Gen.GenC10SetRep Proofs.C10_SetRepGen.
"""

I80 = "interval with (i_prec 80)."


def _args(params, keys):
    return " ".join(rlit(params[k]) for k in keys)


def _kappa_cases(res, rng, per_group):
    cases = []
    for kind in ("hem", "merton", "vg", "cgmy"):
        plist = [dict(p) for p in L.FIXED[kind]] if kind == "cgmy" else []
        gen = dict(hem=L.hem_params, merton=L.merton_params, vg=L.vg_params, cgmy=L.cgmy_params)[kind]
        plist += [gen(rng) for _ in range(per_group)]
        for params in plist:
            model, _ = L.build(kind, params)
            lo, hi = strip(kind, params)
            s = round(rng.uniform(0.6 * lo, 0.6 * hi), 2)
            if rng.random() < 0.4 and 1.0 < 0.9 * hi:
                s = 1.0
            v = kappa_impl(model, s).real
            a0, sig = float(model._original_drift), float(model.levy_triplet.sigma)
            tl, _ = tol_lit(v)
            if kind == "hem":
                pj, un = f"(hem_pj {_args(params, ('intensity', 'p', 'eta1', 'eta2'))})", "unfold kappa, hem_pj."
            elif kind == "merton":
                pj, un = f"(merton_pj {_args(params, ('intensity', 'mu_j', 'sigma_j'))})", "unfold kappa, merton_pj."
            elif kind == "vg":
                pj, un = f"(vg_pj {_args(params, ('sigma', 'nu', 'theta'))})", "unfold kappa, vg_pj."
            else:
                cg = float(model.parameters._CGammamY)
                if not math.isfinite(cg):
                    cg = 0.0
                pj = f"(cgmy_kappa_pj {_args(params, ('c', 'g', 'm', 'y'))} {rlit(cg)})"
                y = params["y"]
                un = "unfold kappa. " + ("rewrite cgmy_pj_y0." if y == 0 else ("rewrite cgmy_pj_y1." if y == 1 else "rewrite cgmy_pj_gen by lra."))
            stmt = f"Rabs (kappa {rlit(a0)} {rlit(sig)} {pj} {rlit(s)} - {rlit(v)}) <= {tl}"
            cases.append(Case(("kappa", kind, s), stmt, f"{un} {I80}", dict(model=kind, params=params, s=s, impl=v)))
            res.count(("coq-kappa", kind, tuple(sorted(params.items())), s), nontrivial=s != 0, kind=f"coq kappa {kind}")
            # cumulants
            t = rng.choice([0.5, 1.0, 2.0])
            for n in (1, 2, 4):
                if kind == "cgmy" and n != 1:
                    continue    # gamma(2-y): opaque function, not evaluated by interval
                c = float(getattr(model.cumulant, f"cumulant{n}")(t))
                drift = float(model.cumulant.drift)
                if kind == "hem":
                    call = {1: f"hem_cumulant1 {rlit(drift)} {_args(params, ('intensity', 'p', 'eta1', 'eta2'))}",
                            2: f"hem_cumulant2 {_args(params, ('sigma', 'intensity', 'p', 'eta1', 'eta2'))}",
                            4: f"hem_cumulant4 {_args(params, ('intensity', 'p', 'eta1', 'eta2'))}"}[n]
                elif kind == "merton":
                    call = {1: f"merton_cumulant1 {rlit(drift)} {_args(params, ('intensity', 'mu_j', 'sigma_j'))}",
                            2: f"merton_cumulant2 {_args(params, ('sigma', 'intensity', 'mu_j', 'sigma_j'))}",
                            4: f"merton_cumulant4 {_args(params, ('intensity', 'mu_j', 'sigma_j'))}"}[n]
                elif kind == "vg":
                    call = {1: f"vg_cumulant1 {rlit(drift)} {_args(params, ('sigma', 'nu', 'theta'))}",
                            2: f"vg_cumulant2 {_args(params, ('sigma', 'nu', 'theta'))}",
                            4: f"vg_cumulant4 {_args(params, ('sigma', 'nu', 'theta'))}"}[n]
                else:
                    call = f"cgmy_cumulant1 {rlit(drift)} {rlit(params['y'])}"
                fn = call.split()[0]
                tl2, _ = tol_lit(c)
                proof = f"unfold {fn}. {I80}" if kind != "cgmy" else \
                    f"unfold {fn}. cbv beta iota zeta. destruct (Reqb _ _); {I80}"
                cases.append(Case(("cumulant", kind, n), f"Rabs ({call} {rlit(t)} - {rlit(c)}) <= {tl2}", proof,
                                  dict(model=kind, params=params, n=n, t=t, impl=c)))
                res.count(("coq-cum", kind, tuple(sorted(params.items())), n, t), kind=f"coq cumulant {kind}")
    return cases


CX_UNFOLD = ("cbv beta iota zeta delta [psi_c levy_exponent_c hem_pj_c minus_i_times Cre Cim Cpow_nat Cmult Cminus Cplus Cdiv Cinv Copp "
             "RtoC Ci fst snd].")


def _cx_cases(res, rng, per_group):
    """wave 6: the generated COMPLEX code (Gen.GenC10Cx: levy_exponent_c, hem_pj_c, vg_pj_c) against model.levy_exponent(u) of the
    implementation for a real float u (both parts of the complex value), and against levy_exponent(-1j*s) on the real axis of the
    Laplace exponent (the generated code evaluated at minus_i_times s, independently of the hand model kappa)."""
    cases = []
    for kind in ("hem", "vg"):
        gen = dict(hem=L.hem_params, vg=L.vg_params)[kind]
        plist = [dict(p) for p in L.FIXED[kind]] + [gen(rng) for _ in range(per_group)]
        for k, params in enumerate(plist):
            model, _ = L.build(kind, params)
            a0, sig = float(model._original_drift), float(model.levy_triplet.sigma)
            if kind == "hem":
                pjc = f"(hem_pj_c {_args(params, ('intensity', 'p', 'eta1', 'eta2'))})"
            else:
                pjc = f"(vg_pj_c {_args(params, ('sigma', 'nu', 'theta'))})"
            # ---- real argument u: complex value
            us = [round(rng.uniform(-15, 15), 2), rng.choice([-3.0, -0.5, 0.25, 1.0, 7.5])] + ([0.0] if k == 0 else [])
            for u in us:
                got = complex(model.levy_exponent(u))
                tr, _ = tol_lit(got.real)
                ti, _ = tol_lit(got.imag)
                term = f"psi_c {rlit(a0)} {rlit(sig)} {pjc} {rlit(u)}"
                stmt = f"Rabs (Cre ({term}) - {rlit(got.real)}) <= {tr} /\\ Rabs (Cim ({term}) - {rlit(got.imag)}) <= {ti}"
                if kind == "hem":
                    proof = f"{CX_UNFOLD} split; {I80}"
                else:
                    proof = f"rewrite psi_c_parts, vg_pj_c_parts by lra. unfold Cre, Cim, fst, snd, vg_A, vg_B. split; {I80}"
                cases.append(Case(("psi-real-u", kind, u), stmt, proof,
                                  dict(model=kind, params=params, u=u, impl=[got.real, got.imag])))
                res.count(("coq-psi-u", kind, tuple(sorted(params.items())), u), nontrivial=u != 0, kind=f"coq levy_exponent(real u) {kind}")
                res.bump("psi-real-u sign of u", "neg" if u < 0 else ("zero" if u == 0 else "pos"))
            # ---- x = -1j * s inside the strip: the generated complex code on the real axis of the Laplace exponent
            lo, hi = strip(kind, params)
            s_ = round(rng.uniform(0.6 * lo, 0.6 * hi), 2)
            got = complex(model.levy_exponent(-1j * s_))
            tr, _ = tol_lit(got.real)
            ti, _ = tol_lit(got.imag)
            term = f"levy_exponent_c {rlit(a0)} {rlit(sig)} {pjc} (minus_i_times {rlit(s_)})"
            stmt = f"Rabs (Cre ({term}) - {rlit(got.real)}) <= {tr} /\\ Rabs (Cim ({term}) - {rlit(got.imag)}) <= {ti}"
            if kind == "hem":
                proof = f"{CX_UNFOLD} split; {I80}"
            else:
                proof = ("rewrite kappa_is_generated_vg by (first [lra | unfold vg_logarg; " + I80[:-1] + "]). "
                         f"unfold Cre, Cim, RtoC, fst, snd, kappa, vg_pj. split; {I80}")
            cases.append(Case(("psi-minus-i-s", kind, s_), stmt, proof, dict(model=kind, params=params, s=s_, impl=[got.real, got.imag])))
            res.count(("coq-psi-mis", kind, tuple(sorted(params.items())), s_), nontrivial=s_ != 0, kind=f"coq levy_exponent(-1j*s) complex code {kind}")
    return cases


def _drift_cases(res, rng, per_group):
    cases = []
    for _ in range(per_group):
        r, d, spot = L.rnd(rng, 0, 0.08, 3), L.rnd(rng, 0, 0.05, 3), 100.0
        # HEM
        p = L.hem_params(rng)
        em = L.build_exp("hem", p, spot, r, d)
        v = float(em.process_drift())
        tl, _ = tol_lit(v)
        cases.append(Case(("pd", "hem"), f"Rabs (hem_process_drift {rlit(r)} {rlit(d)} {rlit(p['sigma'])} {rlit(p['intensity'])} {rlit(p['eta1'])} "
                                         f"(hem_xi {_args(p, ('p', 'eta1', 'eta2'))}) - {rlit(v)}) <= {tl}",
                          "unfold hem_process_drift, hem_xi. replace (Rleb _ 1) with false by (symmetry; apply Rleb_false; lra). "
                          f"{I80}", dict(model="hem", params=p, r=r, d=d, impl=v)))
        om = float(em.omega)
        tl, _ = tol_lit(om)
        cases.append(Case(("omega", "hem"), f"Rabs (omega_of (hem_a {_args(p, ('intensity', 'p', 'eta1', 'eta2'))}) {rlit(p['sigma'])} "
                                            f"(hem_pj {_args(p, ('intensity', 'p', 'eta1', 'eta2'))}) - {rlit(om)}) <= {tl}",
                          f"unfold omega_of, kappa, hem_a, hem_pj. {I80}", dict(model="hem", params=p, impl=om)))
        dr = float(em.drift())
        tl, _ = tol_lit(dr)
        cases.append(Case(("drift", "hem"), f"Rabs (exp_model_drift {rlit(r)} {rlit(d)} {rlit(om)} - {rlit(dr)}) <= {tl}",
                          f"unfold exp_model_drift. {I80}", dict(model="hem", params=p, impl=dr)))
        # Merton
        p = L.merton_params(rng)
        em = L.build_exp("merton", p, spot, r, d)
        v = float(em.process_drift())
        tl, _ = tol_lit(v)
        cases.append(Case(("pd", "merton"), f"Rabs (merton_process_drift {rlit(r)} {rlit(d)} {rlit(p['sigma'])} "
                                            f"{_args(p, ('intensity', 'mu_j', 'sigma_j'))} - {rlit(v)}) <= {tl}",
                          f"unfold merton_process_drift. {I80}", dict(model="merton", params=p, r=r, d=d, impl=v)))
        om = float(em.omega)
        tl, _ = tol_lit(om)
        cases.append(Case(("omega", "merton"), f"Rabs (omega_of (merton_a {_args(p, ('intensity', 'mu_j', 'sigma_j'))}) {rlit(p['sigma'])} "
                                               f"(merton_pj {_args(p, ('intensity', 'mu_j', 'sigma_j'))}) - {rlit(om)}) <= {tl}",
                          f"unfold omega_of, kappa, merton_a, merton_pj. {I80}", dict(model="merton", params=p, impl=om)))
        # Black-Scholes
        sigma = L.rnd(rng, 0.05, 0.6)
        em = L.build_exp("bs", dict(sigma=sigma), spot, r, d)
        v = float(em.process_drift())
        tl, _ = tol_lit(v)
        cases.append(Case(("pd", "bs"), f"Rabs (bs_process_drift {rlit(r)} {rlit(d)} {rlit(sigma)} - {rlit(v)}) <= {tl}",
                          f"unfold bs_process_drift. {I80}", dict(model="bs", sigma=sigma, r=r, d=d, impl=v)))
        for c in cases[-6:]:
            res.count(("coq-drift", c.cid, json.dumps(c.info, sort_keys=True, default=str)), kind=f"coq {c.cid[0]} {c.cid[1]}")
    return cases


def _sampler_cases(res, rng, per_group):
    """jump_increment of HEM (the two uniforms it draws are replaced by chosen arrays, both branches u < p / p <= u, v near 0 and
    near 1) and of Merton (the legacy stream is replayed through np.random.standard_normal under the same seed) against the
    generated hem_jump / merton_jump; LevyModel.process_drift() and LevyProcess.deterministic_path of the NON-exponential models
    against the generated levy_process_drift applied to the generated triplet drift"""
    from rpylib.process.levyprocess import LevyProcess
    cases = []
    for k in range(per_group):
        p = L.hem_params(rng)
        model, _ = L.build("hem", p)
        n = 6
        us = [round(rng.uniform(0, p["p"]), 4) for _ in range(n // 2)] + [round(rng.uniform(p["p"], 1), 4) for _ in range(n - n // 2)]
        us = [u if (u < p["p"]) == (i < n // 2) else (p["p"] / 2 if i < n // 2 else (1 + p["p"]) / 2) for i, u in enumerate(us)]
        us[-1] = p["p"]                      # the boundary u == p takes the negative branch
        vs = [rng.choice([0.0, 2.0 ** -20, round(rng.random(), 4), round(rng.random(), 4), 1 - 2.0 ** -30]) for _ in range(n)]
        seq = [np.array(us), np.array(vs)]
        orig = np.random.random
        np.random.random = lambda size=None: seq.pop(0)
        try:
            z = np.asarray(model.jump_increment(n=n), dtype=float)
        finally:
            np.random.random = orig
        if seq or z.shape != (n,):
            res.broke("correspondence hem jump_increment", f"the sampler did not consume exactly two uniform arrays of size n (left {len(seq)}, shape {z.shape})")
            continue
        for u, v, zi in zip(us, vs, z):
            up = u < p["p"]
            tl, _ = tol_lit(float(zi))
            br = "true by (symmetry; apply Rltb_true; lra)" if up else "false by (symmetry; apply Rltb_false; lra)"
            cases.append(Case(("jump", "hem", "up" if up else "down"),
                              f"Rabs (hem_jump {rlit(p['p'])} {rlit(p['eta1'])} {rlit(p['eta2'])} {rlit(u)} {rlit(v)} - {rlit(float(zi))}) <= {tl}",
                              f"unfold hem_jump. cbv zeta. replace (Rltb _ _) with {br}. {I80}",
                              dict(model="hem", params=p, u=u, v=v, impl=float(zi))))
            res.count(("coq-jump", "hem", tuple(sorted(p.items())), u, v), nontrivial=v != 0, kind="coq hem jump_increment")
            res.bump("hem_jump_branch", "u<p (positive jump)" if up else ("u==p" if u == p["p"] else "u>p (negative jump)"))
        # Merton: same seed, same legacy stream
        pm = L.merton_params(rng)
        mm, _ = L.build("merton", pm)
        seed = rng.randrange(1 << 30)
        st = np.random.get_state()
        try:
            np.random.seed(seed)
            zs = np.asarray(mm.jump_increment(n=3), dtype=float)
            np.random.seed(seed)
            gs = np.random.standard_normal(3)
        finally:
            np.random.set_state(st)
        for g, zi in zip(gs, zs):
            tl, _ = tol_lit(float(zi))
            cases.append(Case(("jump", "merton"), f"Rabs (merton_jump {rlit(pm['mu_j'])} {rlit(pm['sigma_j'])} {rlit(float(g))} - {rlit(float(zi))}) <= {tl}",
                              f"unfold merton_jump. {I80}", dict(model="merton", params=pm, g=float(g), seed=seed, impl=float(zi))))
            res.count(("coq-jump", "merton", tuple(sorted(pm.items())), float(g)), kind="coq merton jump_increment")
        # process_drift of the non-exponential models, through the model and through LevyProcess.deterministic_path
        for kind, params in (("hem", p), ("merton", pm), ("vg", L.vg_params(rng)), ("cgmy", L.cgmy_params(rng))):
            model, _ = L.build(kind, params)
            v1 = float(model.process_drift())
            t = rng.choice([0.5, 1.0, 2.0])
            v2 = float(LevyProcess(model).deterministic_path(np.array([t]))[0]) - float(model.x0_value())
            if kind == "hem":
                a = f"(hem_a {_args(params, ('intensity', 'p', 'eta1', 'eta2'))})"
                un = "unfold deterministic_path, levy_process_drift, hem_a."
            elif kind == "merton":
                a = f"(merton_a {_args(params, ('intensity', 'mu_j', 'sigma_j'))})"
                un = "unfold deterministic_path, levy_process_drift, merton_a."
            else:
                a = rlit(float(model._original_drift))      # VG: the literal 0.0; CGMY: data (its drift is tied by the kappa cases)
                un = "unfold deterministic_path, levy_process_drift."
            tl, _ = tol_lit(v1)
            cases.append(Case(("levy-pd", kind), f"Rabs (levy_process_drift {a} - {rlit(v1)}) <= {tl}", f"{un} {I80}",
                              dict(model=kind, params=params, impl=v1)))
            tl, _ = tol_lit(v2)
            cases.append(Case(("levy-path", kind), f"Rabs (deterministic_path 0 (levy_process_drift {a}) {rlit(t)} - {rlit(v2)}) <= {tl}", f"{un} {I80}",
                              dict(model=kind, params=params, t=t, impl=v2)))
            res.count(("coq-levy-pd", kind, tuple(sorted(params.items())), t), kind=f"coq process_drift of the Levy model ({kind})")
    return cases


def _constants_cases(res, rng, per_group):
    """cached constants of the Parameters classes, as __init__ leaves them and as initialisation() re-derives them after a setattr
    (the calibration sequence), against the generated *_init_* / *_reinit_* definitions; and the closed-form Levy-Khintchine
    integral VLn + VLp of C10_vg_exponent, evaluated at the implementation's cached constants, against levy_exponent(-1j*s).real"""
    import copy
    from scipy.special import gamma as sgamma
    cases = []
    for k in range(per_group):
        # ---- VG
        pv = L.vg_params(rng)
        model, _ = L.build("vg", pv)
        pars = model.parameters
        pv2 = dict(pv, **{rng.choice(["sigma", "nu", "theta"]): None})
        name = [n for n, v_ in pv2.items() if v_ is None][0]
        pv2[name] = L.vg_params(rng)[name]
        pars2 = copy.deepcopy(pars)
        setattr(pars2, name, pv2[name])
        pars2.initialisation()
        for tag, prm, pr in (("init", pv, pars), ("reinit", pv2, pars2)):
            for fld, attr in (("c", "_c"), ("lambda_p", "_lambda_p"), ("lambda_m", "_lambda_m")):
                v = float(getattr(pr, attr))
                tl, _ = tol_lit(v)
                fn = f"vg_{tag}_{fld}"
                cases.append(Case(("const", "vg", tag, fld), f"Rabs ({fn} {_args(prm, ('sigma', 'nu', 'theta'))} - {rlit(v)}) <= {tl}",
                                  f"unfold {fn}. cbv zeta. {I80}", dict(model="vg", params=prm, changed=name if tag == "reinit" else None, impl=v)))
            res.count(("coq-const", "vg", tag, tuple(sorted(prm.items()))), kind=f"coq cached constants vg ({tag})")
        # closed-form LK integral at the rebuilt model's cached constants versus its exponent
        m2 = type(model)(pars2)
        lo, hi = -float(pars2._lambda_m), float(pars2._lambda_p)
        s_ = round(rng.uniform(0.7 * lo, 0.7 * hi), 2) or 0.25 * hi
        v = kappa_impl(m2, s_).real
        tl, _ = tol_lit(v)
        c_, lm_, lp_ = rlit(float(pars2._c)), rlit(float(pars2._lambda_m)), rlit(float(pars2._lambda_p))
        cases.append(Case(("vg-lk-closed-form",), f"Rabs (VLn {c_} {lm_} {rlit(s_)} + VLp {c_} {lp_} {rlit(s_)} - {rlit(v)}) <= {tl}",
                          f"unfold VLn, VLp. {I80}", dict(model="vg", params=pv2, s=s_, impl=v)))
        res.count(("coq-vg-lk", tuple(sorted(pv2.items())), s_), kind="coq vg Levy-Khintchine closed form vs levy_exponent (after initialisation)")
        # ---- HEM
        ph = L.hem_params(rng)
        from rpylib.model.levymodel.mixed.hem import HEMParameters
        parh = HEMParameters(**ph)
        name = rng.choice(["p", "eta1", "eta2"])
        ph2 = dict(ph, **{name: L.hem_params(rng)[name]})
        parh2 = copy.deepcopy(parh)
        setattr(parh2, name, ph2[name])
        parh2.initialisation()
        for tag, prm, pr in (("init", ph, parh), ("reinit", ph2, parh2)):
            v = float(pr._xi)
            tl, _ = tol_lit(v)
            cases.append(Case(("const", "hem", tag), f"Rabs (hem_{tag}_xi {_args(prm, ('sigma', 'p', 'eta1', 'eta2', 'intensity'))} - {rlit(v)}) <= {tl}",
                              f"unfold hem_{tag}_xi. cbv zeta. {I80}", dict(model="hem", params=prm, changed=name if tag == "reinit" else None, impl=v)))
            res.count(("coq-const", "hem", tag, tuple(sorted(prm.items()))), kind=f"coq cached constants hem ({tag})")
        # ---- CGMY (Gamma is opaque: its value at -y is fed as data; positive g, m for Rpower)
        pc = L.cgmy_params(rng)
        if pc["y"] in (0, 1, 0.0, 1.0) or float(pc["y"]) == int(pc["y"]) and pc["y"] >= 0:
            pc["y"] = 0.5
        from rpylib.model.levymodel.purejump.cgmy import CGMYParameters
        parc = CGMYParameters(**pc)
        name = rng.choice(["c", "g", "m"])
        pc2 = dict(pc, **{name: L.cgmy_params(rng)[name]})
        parc2 = copy.deepcopy(parc)
        setattr(parc2, name, pc2[name])
        parc2.initialisation()
        for tag, prm, pr in (("init", pc, parc), ("reinit", pc2, parc2)):
            gv = float(sgamma(-prm["y"]))
            if not math.isfinite(gv):
                continue
            for fld, attr in (("CGammamY", "_CGammamY"), ("GpowerY", "_GpowerY"), ("MpowerY", "_MpowerY")):
                v = float(getattr(pr, attr))
                tl, _ = tol_lit(v, rel=1e-8)
                fn = f"cgmy_{tag}_{fld}"
                cases.append(Case(("const", "cgmy", tag, fld),
                                  f"forall Gamma : R -> R, Gamma (- {rlit(prm['y'])}) = {rlit(gv)} -> "
                                  f"Rabs ({fn} Gamma {_args(prm, ('c', 'g', 'm', 'y'))} - {rlit(v)}) <= {tl}",
                                  f"intros Gamma HG. unfold {fn}. cbv zeta. rewrite ?HG. unfold Rpower. {I80}",
                                  dict(model="cgmy", params=prm, changed=name if tag == "reinit" else None, gamma_minus_y=gv, impl=v)))
            res.count(("coq-const", "cgmy", tag, tuple(sorted(prm.items()))), kind=f"coq cached constants cgmy ({tag})")
    return cases


REPN = {1: "ZERO", 2: "CENTER", 3: "ONEONE", 4: "TILDE"}


def _conversion_cases(res, rng, per_group):
    """sequences of set_representation on the real LevyTriplet with (a) dyadic stub measures (exact) and (b) the real models
    (first moments fed to both sides as data, tolerance)"""
    from rpylib.model.levymodel.levymodel import LevyTriplet, LevyRepresentation as LR
    cases = []
    for k in range(3 * per_group):
        if k % 3 == 2:
            kind = rng.choice(["hem", "merton", "vg", "cgmy"])
            params = dict(hem=L.hem_params, merton=L.merton_params, vg=L.vg_params, cgmy=L.cgmy_params)[kind](rng)
            _, real_nu = L.build(kind, params)
            fv_real = bool(real_nu.jump_of_finite_variation())
            # infinite variation (CGMY y >= 1): int_{-1}^{1} x nu is not finite and never used by an admissible conversion
            i11 = float(real_nu.integrate_against_x(-1, 1)) if fv_real else 0.0
            tl_, tr_ = float(real_nu.integrate_against_x(-INF, -1)), float(real_nu.integrate_against_x(1, INF))
            nu = StubMeasure(i11, tl_, tr_, fv_real)
            a0 = L.rnd(rng, -1, 1, 3)
            src = kind
        else:
            nu = StubMeasure(_dy(rng), _dy(rng), _dy(rng), rng.random() < 0.5)
            a0 = _dy(rng)
            src = "dyadic"
        admissible = [x for x in LR if nu.fv or x != LR.ZERO]     # the guard valid_rep of the theorems
        r0 = rng.choice(admissible)
        seq = [rng.choice(admissible) for _ in range(rng.randrange(1, 5))]
        t = LevyTriplet(sigma=0.0, nu=nu, a=a0, representation=r0)
        for r_ in seq:
            t.set_representation(r_)
        v = float(t.a)
        i11, tl_, tr_ = nu.v[(-1, 1)], nu.v[(-INF, -1)], nu.v[(1, INF)]
        seq_l = "[" + "; ".join(REPN[x.value] for x in seq[:-1]) + "]"
        fvs = "true" if nu.fv else "false"
        tol = "0" if src == "dyadic" else tol_lit(v)[0]
        stmt = (f"forall m1 : R -> R -> R, m1 (-1) 1 = {rlit(i11)} -> m1 (- INFV) (-1) = {rlit(tl_)} -> m1 1 INFV = {rlit(tr_)} -> "
                f"Rabs (t_a (set_representation INFV m1 {fvs} {REPN[seq[-1].value]} (set_representations INFV m1 {fvs} {seq_l} "
                f"(mkTriplet {rlit(a0)} {REPN[r0.value]}))) - {rlit(v)}) <= {tol}")
        proof = ("intros m1 H1 H2 H3. rewrite conversions_path_independent, set_representation_a by "
                 "(unfold valid_rep; cbn [t_rep]; repeat first [apply Forall_nil | apply Forall_cons]; first [left; reflexivity | right; discriminate]). "
                 "unfold canonical_of, to_canonical, of_canonical, I11, Tails. cbn [t_a t_rep]. rewrite ?H1, ?H2, ?H3. "
                 + ("match goal with |- Rabs ?e <= 0 => replace e with 0 by field end. rewrite Rabs_R0. lra." if src == "dyadic" else I80))
        cases.append(Case(("conv", src, k), stmt, proof, dict(a=a0, rep=r0.name, seq=[x.name for x in seq], I11=i11, tails=[tl_, tr_], fv=nu.fv, impl=v)))
        res.count(("coq-conv", a0, r0.name, tuple(x.name for x in seq), i11, tl_, tr_, nu.fv), kind=f"coq set_representation ({src})")
    return cases


def _refused_conversion_cases(res, rng, per_group):
    """wave 6 (seed C10_g): sequences with refused requests on the real LevyTriplet against run_gen over the GENERATED
    set_representation_gen (state after the whole sequence: a and representation), and the raised flag + unchanged state of one
    request of the sequence against set_representation_gen directly"""
    from rpylib.model.levymodel.levymodel import LevyTriplet, LevyRepresentation as LR
    cases = []
    V = "(unfold valid_rep; cbn [t_rep]; first [left; reflexivity | right; discriminate])"
    for k in range(2 * per_group):
        fv = rng.random() < 0.3
        nu = StubMeasure(_dy(rng), _dy(rng), _dy(rng), fv)
        a0 = _dy(rng)
        r0 = rng.choice([LR.CENTER, LR.ONEONE, LR.TILDE] + ([LR.ZERO] if fv else []))
        seq = _refused_sequence(rng, fv, rng.randrange(2, 6))
        t = LevyTriplet(sigma=0.0, nu=nu, a=a0, representation=r0)
        got = _stepwise(t, seq)
        i11, tl_, tr_ = nu.v[(-1, 1)], nu.v[(-INF, -1)], nu.v[(1, INF)]
        fvs = "true" if fv else "false"
        seq_l = "[" + "; ".join(REPN[x.value] for x in seq) + "]"
        # one request of the sequence, evaluated on the state the implementation was in: the first refused one if any
        j = next((i for i, g in enumerate(got) if g[0]), 0)
        pa, pr = (a0, r0) if j == 0 else (float(got[j - 1][1]), got[j - 1][2])
        raised, ja, jr = got[j]
        hyp = f"forall m1 : R -> R -> R, m1 (-1) 1 = {rlit(i11)} -> m1 (- INFV) (-1) = {rlit(tl_)} -> m1 1 INFV = {rlit(tr_)} -> "
        tpl = f"(mkTriplet {rlit(pa)} {REPN[pr.value]})"
        stmt = (hyp + f"(fst (run_gen INFV m1 {fvs} {seq_l} (state_of (mkTriplet {rlit(a0)} {REPN[r0.value]}))) = {rlit(float(t.a))} /\\ "
                f"snd (run_gen INFV m1 {fvs} {seq_l} (state_of (mkTriplet {rlit(a0)} {REPN[r0.value]}))) = rep_code {REPN[t.representation.value]}) /\\ "
                f"(fst (set_representation_gen INFV m1 {fvs} (t_a {tpl}) (rep_code (t_rep {tpl})) (rep_code {REPN[seq[j].value]})) = {'true' if raised else 'false'} /\\ "
                f"fst (snd (set_representation_gen INFV m1 {fvs} (t_a {tpl}) (rep_code (t_rep {tpl})) (rep_code {REPN[seq[j].value]}))) = {rlit(float(ja))} /\\ "
                f"snd (snd (set_representation_gen INFV m1 {fvs} (t_a {tpl}) (rep_code (t_rep {tpl})) (rep_code {REPN[seq[j].value]}))) = rep_code {REPN[jr.value]})")
        arith = ("unfold canonical_of, to_canonical, of_canonical, I11, Tails; cbn [t_a t_rep fst snd]; rewrite ?H1, ?H2, ?H3; "
                 "repeat split; first [reflexivity | field]")
        proof = (f"intros m1 H1 H2 H3. split. "
                 f"- rewrite run_gen_state by {V}. cbn [filter valid_repb rep_eqb orb negb last t_rep]. {arith}. "
                 f"- rewrite set_representation_gen_spec by {V}. cbn [valid_repb rep_eqb orb negb fst snd]. "
                 f"rewrite ?set_representation_rep, ?set_representation_a by {V}. {arith}.")
        cases.append(Case(("conv-refused", k), stmt, proof, dict(a=a0, rep=r0.name, seq=[x.name for x in seq], I11=i11, tails=[tl_, tr_], fv=fv,
                                                                  impl=[[bool(g[0]), float(g[1]), g[2].name] for g in got])))
        res.count(("coq-conv-refused", a0, r0.name, tuple(x.name for x in seq), i11, tl_, tr_, fv), nontrivial=any(g[0] for g in got),
                  kind="coq set_representation sequences with refused requests (generated transformer)")
    return cases


def _coq(res, rng):
    cfg = _cfg(res)
    cases = _kappa_cases(res, rng, cfg["coq_per_group"]) + _cx_cases(res, rng, cfg["coq_per_group"]) + _drift_cases(res, rng, cfg["coq_per_group"]) + \
        _conversion_cases(res, rng, cfg["coq_per_group"]) + _refused_conversion_cases(res, random.Random(res.seed + 12), cfg["coq_per_group"]) + _sampler_cases(res, rng, min(10, max(2, cfg["coq_per_group"] // 2))) + \
        _constants_cases(res, rng, min(10, max(2, cfg["coq_per_group"] // 2)))
    nfiles, failed = L.run_cases(PROP, "cases", HEADER, cases, jobs=12, timeout=600)
    res.case_lemmas += len(cases)
    res.case_ok += len(cases) - len(failed)
    res.notes.append(f"{len(cases)} interval case lemmas in {nfiles} coqc processes")
    for c, err in failed[:20]:
        res.broke(f"correspondence case {c.cid}", f"kernel did not accept: {c.stmt}\n{err[-500:]}\ninfo={json.dumps(c.info, default=str)}")


def correspond(res):
    import warnings
    warnings.filterwarnings("ignore")
    rng = random.Random(res.seed)
    _oracle(res, rng)
    _refused_conversions_oracle(res, random.Random(res.seed + 11))
    _coq(res, random.Random(res.seed + 1))


def search(res):
    saved = dict(QUICK)
    QUICK.update(n_random=8)
    try:
        _oracle(res, random.Random(res.seed + 7))
        _refused_conversions_oracle(res, random.Random(res.seed + 17))
    finally:
        QUICK.clear()
        QUICK.update(saved)


def replay(path):
    import warnings
    warnings.filterwarnings("ignore")
    data = json.load(open(path))
    print(json.dumps(data, indent=1)[:3000])
    k = data.get("kind")
    if k in ("exponent", "exponent-u"):
        model, nu = L.build(data["model"], data["params"])
        hk = _rep_h(model)
        a0, sig = model._original_drift, model.levy_triplet.sigma
        if k == "exponent":
            s = data["s"]
            ref = a0 * s + 0.5 * sig ** 2 * s ** 2 + complex(lk_quad(nu, hk, s))
            got = kappa_impl(model, s)
        else:
            u = data["u"]
            ref = 1j * u * a0 - 0.5 * sig ** 2 * u ** 2 + complex(lk_quad(nu, hk, 1j * u))
            got = complex(model.levy_exponent(u))
        print("levy_exponent:", got, " Levy-Khintchine integral (declared", model.levy_triplet.representation.name, "):", ref)
        return 0 if _close(got, ref, rel=1e-6) else 1
    if k == "cumulant":
        model, _ = L.build(data["model"], data["params"])
        lo, hi = strip(data["model"], data["params"])
        rho = 0.45 * min(abs(lo), abs(hi)) if data["model"] != "merton" else 1.0
        n, t = data["n"], data["t"]
        c = float(getattr(model.cumulant, f"cumulant{n}")(t))
        ref = t * cauchy_derivative(model, n, rho)
        print(f"cumulant{n}({t}) =", c, " t * derivative of the exponent:", ref)
        return 0 if _close(c, ref.real, rel=1e-7, ab=1e-10) else 1
    if k == "forward-direct":
        from rpylib.process.levyprocess import LevyProcess
        em = L.build_exp(data["model"], data["params"], data["spot"], data["r"], data["d"])
        _, nu = L.build(data["model"], data["params"])
        T = data["T"]
        det = float(LevyProcess(em).deterministic_path(np.array([T]))[0])
        J0 = complex(lk_quad(nu, "zero", 1.0)).real
        got = math.exp(det + T * (0.5 * em.diffusion_coefficient() ** 2 + J0))
        fwd = data["spot"] * math.exp((data["r"] - data["d"]) * T)
        print("forward by the direct-simulation drift:", got, " S0 exp((r-d)T):", fwd)
        return 0 if _close(got, fwd, rel=1e-8) else 1
    if k == "conversion-refused":
        from rpylib.model.levymodel.levymodel import LevyTriplet, LevyRepresentation as LR
        if data["source"] == "dyadic":
            nu = StubMeasure(data["I11"], 0.0, data["tails"], data["fv"])
            t = LevyTriplet(sigma=0.0, nu=nu, a=data["a"], representation=LR[data["rep"]])
        else:
            t = L.build(data["source"], data["params"])[0].levy_triplet
        a, rep = float(t.a), t.representation
        for i, (r_, g) in enumerate(zip([LR[x] for x in data["seq"]], _stepwise(t, [LR[x] for x in data["seq"]]))):
            want, a, rep = _ref_step(data["fv"], data["I11"], data["tails"], a, rep, r_)
            print(f"request #{i + 1} {r_.name}: raised={g[0]} a={g[1]!r} representation={g[2].name}   expected raised={want} a={a!r} representation={rep.name}")
            if g[0] != want or g[2] != rep or abs(float(g[1]) - a) > 1e-11 * max(1.0, abs(a), abs(data["tails"])):
                return 1
        return 0
    print("replay: re-run ./check C10 to re-evaluate this class of input")
    return 1


LEVEL_TEXT = ("Proof (partial): 33 Coq statements (5 of them plain algebra, named _algebra). The four drift conversions of LevyTriplet are re-translated from levymodel.py on every run and "
              "set_representation is proved path-independent and reversible for all triplets, measures and sequences of representations admissible "
              "for the measure (ZERO needs finite variation; the code raises otherwise). "
              "On the real axis (kappa(s) = psi(-i s)) the generated pure-jump exponents, cumulants and simulation drifts of HEM, Merton, VG, "
              "CGMY and Black-Scholes satisfy: cumulant1/2 = t * first/second derivative of kappa at 0 (CGMY partially), the characteristic-"
              "function route (algebra) and the direct-simulation drift (BS, Merton, HEM with 1 < eta1) give the forward S0 exp((r-d)T); for HEM "
              "the exponent is proved to be the Levy-Khintchine integral of the generated density and the un-truncated Markov-chain drift "
              "to give the forward; with the truncation the code applies, a HEM instance (grid inside (-1,1)) is proved to grow at r - d minus the exponential "
              "moment of the removed tails, strictly below r - d for upward jumps only; for the other models this bias is measured by "
              "the quadrature oracle (known finding F-C10-5). For Variance Gamma the exponent is proved to be the improper Levy-Khintchine integral "
              "(singular at 0, both half-lines) of the generated density with the generated VGParameters constants on the whole strip (Frullani, no "
              "hypothesis). The drift of the directly simulated non-exponential model (LevyModel.process_drift, regenerated) plus the first moment of "
              "the generated density is cumulant1 for HEM and VG (Merton: algebra); HEM's jump_increment (regenerated pointwise) is proved to be the "
              "inverse-cdf sampler of the normalised generated density; the constants re-derived by Parameters.initialisation() (regenerated) carry "
              "the HEM direct-route identity and the VG Levy-Khintchine clause. For Merton and CGMY the exponent-versus-"
              "density clause, and for all models higher cumulants, are validated only by the mpmath quadrature / Cauchy-integral oracle. "
              "Wave 6: LevyModel.levy_exponent and the HEM / VG pure-jump exponents are regenerated over complex pairs (C = R * R); for HEM the characteristic "
              "exponent at every REAL argument u is proved to be the Levy-Khintchine integral (real part: cos(ux)-1, imaginary part: sin(ux), both half-lines, "
              "improper integrals) of the generated density plus -sigma^2 u^2/2 + i a u; the real-axis model kappa is proved to be the generated complex code "
              "at -1j*s for HEM and VG; for VG at real u only the closed form (ln|z|, atan) of the generated code and its real part in the constants of the Levy density are proved (partial); Merton / CGMY at complex "
              "arguments: oracle only. set_representation is additionally regenerated as a state transformer with its exception paths and statement order: "
              "a refused conversion (ValueError) is proved to leave (a, representation) unchanged, the generated method is proved equal to the hand model on "
              "admissible requests, and path independence / reversibility / preservation of the first cumulant are proved for sequences that contain "
              "refused requests caught by the caller; the oracle drives such sequences on one triplet object and compares the state after every request.")
LEVEL_NOTE = ("Trusted: Coq kernel, standard real/classical axioms, py2coq and its complex-pair plug-in py2coq_c10cx (fail-closed; typing float / complex "
              "as Python's numeric tower), Base/CxPair.v's reading of numpy's complex log / integer power, the hand model kappa of levy_exponent on the real "
              "axis for Merton / CGMY (HEM / VG: proved equal to the generated complex code), interval case lemmas on levy_exponent(-1j*s) and "
              "levy_exponent(u), Gamma as an opaque function.")
TECHNIQUE = ("Coq proof over R (field algebra, Coquelicot is_derive / auto_derive / is_RInt_gen improper integrals) on py2coq-generated drifts, exponents, "
             "cumulants, densities, jump samplers and cached constants, and over C = R * R (Coquelicot Complex) on the generated complex exponent code + Interval case lemmas")

"""C10 -- exponent, triplet, cumulants and simulation drifts describe one same process.

correspond(res) =
  (1) oracle on the implementation only
      * levy_exponent(u) (u = -i s on the real axis and real u) versus i u a - sigma^2 u^2/2 + mpmath quadrature of the
        Levy-Khintchine integrand of the DECLARED representation against the implementation's own density;
      * cumulantN(t) versus t * N-th derivative at 0 of s -> levy_exponent(-i s) (Cauchy integral of the implementation's exponent);
      * forward S0 exp((r-d)T) versus log_characteristic_function(T, -1j), versus the direct-simulation drift
        (LevyProcess.deterministic_path + sigma^2/2 + quadrature of (e^x - 1) nu), versus the Markov-chain drift under the exact
        (truncated) jump law;
      * LevyTriplet.set_representation: random sequences are path-independent and reversible;
  (2) correspondence of the Coq model with the implementation by interval-arithmetic case lemmas on levy_exponent(-1j*s).real,
      cumulantN(t), process_drift(), omega, and on sequences of set_representation.
"""
import copy
import json
import math
import random
from fractions import Fraction

import mpmath as mp
import numpy as np

import levycases as L
from levycases import INF, rlit, tol_lit, Case

PROP = "C10"
PROPERTY_FILE = "Properties/C10.v"
GEN_DEPS = ["GenC10Triplet", "GenC10Hem", "GenC10Merton", "GenC10Vg", "GenC10Cgmy", "GenC10Bs", "GenC10Exp", "GenC09Hem"]
RULE = ("oracle cases: (model, parameters, argument / order / route) for HEM, Merton, VG, CGMY (y<0, y=0, 0<y<1, y=1, 1<y<2) and "
        "Black-Scholes; arguments s inside the strip of the exponent and real u; cumulant orders 1,2,4(,6); routes cf / direct / ctmc; "
        "random sequences of 1-5 representation changes; non-trivial = non-zero argument / non-empty sequence; "
        "Coq cases: interval lemmas per (model, function)")
MODELLED = [
    "LevyModel.levy_exponent only on the real axis u = -i s (kappa(s) = a s + sigma^2 s^2/2 + pj(s)); complex arguments are checked by "
    "the oracle only",
    "LevyTriplet.set_representation (attribute mutation), omega, log_characteristic_function(t,-1j), deterministic_path, the "
    "Markov-chain drift: hand models in Model/LevyExponent.v tied by case lemmas / oracle",
    "scipy.special.gamma is an opaque function (Section variable Gamma); c*gamma(-y) enters the CGMY exponent as data",
    "H_rep (the pure-jump exponent IS the Levy-Khintchine integral of the density in the declared representation) is proved for HEM; "
    "for Merton (Gaussian integral), VG (Frullani) and CGMY (Gamma integrals) it is validated by the quadrature oracle only",
]
ASSUMPTIONS = ["parameters in their declared domain; eta1 > 1 for the exponential HEM model",
               "direct route: the jump law simulated by jump_increment is the density nu (C02/C09)"]
THEOREM_NOTES = {
    "C10_conversions_*": "complete: every measure (through its first-moment function m1 and finite-variation flag), every triplet, every "
        "sequence of representation changes; exact over R (the floats add rounding of a few ulps, bounded in the case lemmas)",
    "C10_hem_exponent": "the Levy-Khintchine clause is proved for HEM only (whole strip -eta2 < s < eta1, real axis); Merton / VG / CGMY: "
        "quadrature oracle only (needs the Gaussian, Frullani and Gamma integrals)",
    "C10_cumulants_*": "cumulant1 and cumulant2 as first/second derivative of kappa at 0 for HEM, Merton, VG; CGMY partial (cumulant1 in every "
        "branch, cumulant2 for y not in {0,1} given the functional equation of Gamma); cumulant4/6 by the Cauchy-integral oracle only",
    "C10_martingale_direct_*": "algebra on the generated drifts; that E exp(jumps) = exp(T pj(1)) is the LK clause (proved for HEM, "
        "oracle for Merton)",
    "C10_martingale_ctmc": "algebra: given additivity of the first moment at 0 and H_rep, the chain drift with the exact jump law grows at r-d; "
        "H_rep discharged for ZERO-declared models by C10_Hrep_zero_declared (+ C10_hem_exponent for HEM)",
    "complex arguments of levy_exponent": "not modelled; oracle compares levy_exponent(u) at real u with the complex LK quadrature",
}

QUICK = dict(n_random=2, coq_per_group=4, seqs=40)
THOROUGH = dict(n_random=12, coq_per_group=40, seqs=400)


def _cfg(res):
    return QUICK if res.tier == "quick" else THOROUGH


# ============================================================================================ oracle helpers
def _rep_h(model):
    from rpylib.model.levymodel.levymodel import LevyRepresentation as LR
    rep = model.levy_triplet.representation
    fv = model.levy_triplet.nu.jump_of_finite_variation()
    if rep == LR.ZERO or (rep == LR.TILDE and fv):
        return "zero"
    if rep == LR.CENTER:
        return "center"
    return "oneone"


def lk_quad(nu, hkind, z, outside=None, split=()):
    """int (exp(z x) - 1 - z h(x)) nu(dx) by mpmath with the implementation's density; z complex (mp).
    outside=(l, r): integrate only over the complement of [l, r]."""
    z = mp.mpmathify(z)

    def g(x):
        zx = z * x
        if hkind == "zero":
            return mp.expm1(zx)
        hx = x if (hkind == "center" or abs(x) < 1) else 0
        if hx != 0 and abs(zx) < mp.mpf("1e-3"):
            return sum(zx ** k / mp.factorial(k) for k in range(2, 10))
        return mp.expm1(zx) - z * hx

    def f(x):
        if abs(x) < mp.mpf("1e-100"):
            return mp.mpf(0)
        return g(x) * mp.mpf(float(nu(float(x))))

    if outside is not None:
        l, r = outside
        return mp.quad(f, [-mp.inf, min(l - 1, -8), l]) + mp.quad(f, [r, max(r + 1, 8), mp.inf])
    neg = sorted({-mp.inf, -8, -1, -mp.mpf("1e-3"), 0} | {mp.mpf(p) for p in split if p < 0})
    pos = sorted({0, mp.mpf("1e-3"), 1, 8, mp.inf} | {mp.mpf(p) for p in split if p > 0})
    return mp.quad(f, neg) + mp.quad(f, pos)


def strip(kind, params):
    """(lo, hi): kappa(s) is finite for lo < s < hi"""
    if kind == "hem":
        return -params["eta2"], params["eta1"]
    if kind == "merton":
        return -6.0, 6.0
    if kind == "vg":
        s2, nu, th = params["sigma"] ** 2, params["nu"], params["theta"]
        lp = math.sqrt(th ** 2 + 2 * s2 / nu) / s2 - th / s2
        return -(lp + 2 * th / s2), lp
    if kind == "cgmy":
        return -params["g"], params["m"]
    return -6.0, 6.0


def kappa_impl(model, s):
    return complex(model.levy_exponent(-1j * s))


def cauchy_derivative(model, n, rho, N=96):
    """n-th derivative at 0 of z -> levy_exponent(-i z) by the trapezoid rule on the circle |z| = rho (analytic inside)"""
    acc = 0j
    for k in range(N):
        th = 2 * math.pi * k / N
        z = rho * complex(math.cos(th), math.sin(th))
        acc += complex(model.levy_exponent(-1j * z)) * complex(math.cos(-n * th), math.sin(-n * th))
    return math.factorial(n) * acc / (N * rho ** n)


def _close(x, ref, rel=2e-7, ab=1e-9):
    return abs(x - ref) <= rel * max(abs(ref), abs(x), 1.0) * 1.0 + ab


# ============================================================================================ oracle
def _oracle(res, rng):
    cfg = _cfg(res)
    models = L.model_sets(rng, cfg["n_random"])
    for kind, params in models:
        model, nu = L.build(kind, params)
        hk = _rep_h(model)
        a0, sig = model._original_drift, model.levy_triplet.sigma
        lo, hi = strip(kind, params)
        ykey = ""
        if kind == "cgmy":
            y = params["y"]
            ykey = " y<0" if y < 0 else (" y=0" if y == 0 else (" 0<y<1" if y < 1 else (" y=1" if y == 1 else " 1<y<2")))
        res.bump("oracle_model", kind + ykey)
        pk = tuple(sorted(params.items()))
        # ---- (a) exponent versus Levy-Khintchine integral of the implementation's density in the declared representation
        ss = [0.35 * hi, 0.8 * hi, 0.5 * lo, 1.0 if 1.0 < 0.95 * hi else 0.5 * hi]
        for s in ss:
            ref = a0 * s + 0.5 * sig ** 2 * s ** 2 + complex(lk_quad(nu, hk, s))
            got = kappa_impl(model, s)
            res.count(("lk-real", kind, pk, s), kind="oracle exponent real axis")
            if not _close(got, ref):
                rep = dict(kind="exponent", model=kind, params=params, s=s, declared=model.levy_triplet.representation.name,
                           got=[got.real, got.imag], expected_LK_integral=[ref.real, ref.imag])
                if kind == "cgmy":
                    rep["finding"] = "F-C10-2" if params["y"] < 0 else ("F-C10-3" if params["y"] == 0 else ("F-C10-4" if params["y"] == 1 else None))
                res.violation(f"{kind}{ykey}: levy_exponent(-i s) differs from the Levy-Khintchine integral of the model's density in the declared representation", rep)
        for u in (0.7, -2.5, 6.0):
            ref = 1j * u * a0 - 0.5 * sig ** 2 * u ** 2 + complex(lk_quad(nu, hk, 1j * u))
            got = complex(model.levy_exponent(u))
            res.count(("lk-cplx", kind, pk, u), kind="oracle exponent real argument (characteristic exponent)")
            if not _close(got, ref, rel=1e-6):
                rep = dict(kind="exponent-u", model=kind, params=params, u=u, declared=model.levy_triplet.representation.name,
                           got=[got.real, got.imag], expected_LK_integral=[ref.real, ref.imag])
                if kind == "cgmy":
                    rep["finding"] = "F-C10-2" if params["y"] < 0 else ("F-C10-3" if params["y"] == 0 else ("F-C10-4" if params["y"] == 1 else None))
                res.violation(f"{kind}{ykey}: levy_exponent(u) differs from the Levy-Khintchine integral of the model's density in the declared representation", rep)
        # ---- (b) cumulants versus derivatives of the exponent
        rho = 0.45 * min(abs(lo), abs(hi)) if kind != "merton" else 1.0
        t = rng.choice([0.5, 1.0, 2.0])
        for n in (1, 2, 3, 4, 5, 6):
            try:
                c = float(getattr(model.cumulant, f"cumulant{n}")(t))
            except NotImplementedError:
                continue
            ref = t * cauchy_derivative(model, n, rho)
            res.count(("cum", kind, pk, n, t), kind=f"oracle cumulant{n}")
            if abs(ref.imag) > 1e-8 * max(1, abs(ref)) or not _close(c, ref.real, rel=1e-7, ab=1e-10):
                rep = dict(kind="cumulant", model=kind, params=params, n=n, t=t, got=c, expected_derivative=[ref.real, ref.imag])
                if kind == "cgmy":
                    rep["finding"] = "F-C10-2" if params["y"] < 0 else ("F-C10-3" if params["y"] == 0 else ("F-C10-4" if params["y"] == 1 else None))
                res.violation(f"{kind}{ykey}: cumulant{n}(t) is not t times the {n}-th derivative of the exponent at 0", rep)
        # ---- (c) forwards
        if kind == "hem" and params["eta1"] <= 1.05:
            continue
        if 1.0 >= 0.97 * hi:
            continue   # E exp(L_1) infinite
        spot, r, d, T = rng.choice([100.0, 80.0, 1.0]), L.rnd(rng, 0.0, 0.08, 3), L.rnd(rng, 0.0, 0.05, 3), rng.choice([0.25, 1.0, 2.5])
        em = L.build_exp(kind, params, spot, r, d)
        fwd = spot * math.exp((r - d) * T)
        got = complex(em.log_characteristic_function(T, -1j))
        res.count(("fwd-cf", kind, pk, spot, r, d, T), kind="oracle forward cf route")
        if not _close(got, fwd, rel=1e-9):
            res.violation(f"{kind}: log_characteristic_function(T,-1j) is not the forward S0 exp((r-d)T)",
                          dict(kind="forward-cf", model=kind, params=params, spot=spot, r=r, d=d, T=T, got=[got.real, got.imag], expected=fwd))
        if kind in ("hem", "merton"):
            from rpylib.process.levyprocess import LevyProcess
            det = float(LevyProcess(em).deterministic_path(np.array([T]))[0])
            J0 = complex(lk_quad(nu, "zero", 1.0)).real
            got = math.exp(det + T * (0.5 * em.diffusion_coefficient() ** 2 + J0))
            res.count(("fwd-direct", kind, pk, spot, r, d, T), kind="oracle forward direct route")
            if not _close(got, fwd, rel=1e-8):
                res.violation(f"{kind}: the direct-simulation drift does not give the forward S0 exp((r-d)T) under the exact jump law",
                              dict(kind="forward-direct", model=kind, params=params, spot=spot, r=r, d=d, T=T, got=got, expected=fwd,
                                   finding="F-C10-1" if kind == "hem" else None))
        _ctmc_route(res, rng, kind, params, em, nu, hk, r, d, ykey)
    # Black-Scholes
    for _ in range(3):
        sigma, spot, r, d, T = L.rnd(rng, 0.05, 0.5), 100.0, L.rnd(rng, 0, 0.08, 3), L.rnd(rng, 0, 0.05, 3), rng.choice([0.5, 1.0, 3.0])
        em = L.build_exp("bs", dict(sigma=sigma), spot, r, d)
        from rpylib.process.levyprocess import LevyProcess
        fwd = spot * math.exp((r - d) * T)
        det = float(LevyProcess(em).deterministic_path(np.array([T]))[0])
        got1 = math.exp(det + T * 0.5 * sigma ** 2)
        got2 = complex(em.log_characteristic_function(T, -1j))
        res.count(("fwd-bs", sigma, r, d, T), kind="oracle forward Black-Scholes")
        if not _close(got1, fwd, rel=1e-10) or not _close(got2, fwd, rel=1e-10):
            res.violation("bs: forward routes disagree with S0 exp((r-d)T)", dict(kind="forward-bs", sigma=sigma, r=r, d=d, T=T,
                                                                               direct=got1, cf=[got2.real, got2.imag], expected=fwd))
    _conversions_oracle(res, rng)


def _ctmc_route(res, rng, kind, params, em, nu, hk, r, d, ykey):
    """drift of the Markov-chain approximation + exact (truncated) jump law = r - d, up to the mass outside the truncation"""
    from rpylib.distribution.sampling import SamplingMethod
    from rpylib.grid.spatial import CTMCUniformGrid
    from rpylib.process.markovchain.markovchain import MarkovChainProcess, compute_mu_h
    from rpylib.product.payoff import Forward
    from rpylib.product.product import Product
    from rpylib.product.underlying import Spot
    try:
        grid = CTMCUniformGrid(h=0.05, model=em)
        mcp = MarkovChainProcess(model=em, method=SamplingMethod.BINARYSEARCHTREEADAPTED1D
                                 if hasattr(SamplingMethod, "BINARYSEARCHTREEADAPTED1D") else list(SamplingMethod)[0], grid=grid)
        mcp.initialisation(Product(payoff_underlying=Spot(), payoff=Forward(strike=1.0), maturity=1.0))
    except Exception as e:  # noqa  (the chain construction itself belongs to C01/C04)
        res.notes.append(f"ctmc route skipped for {kind} {params}: {type(e).__name__}: {str(e)[:80]}")
        return
    tnu = mcp.model.levy_triplet.nu           # truncated measure
    l, rr = tnu.truncations
    mu_h = float(compute_mu_h(levy_measure=tnu, grid=grid, axis=grid.axes[0], origin=grid.origin_coordinate.value))
    sig = em.levy_triplet.sigma
    Jc = complex(lk_quad(tnu, "center", 1.0, split=(l, rr))).real   # int (e^x - 1 - x) nu_truncated
    tail = complex(lk_quad(nu, hk, 1.0, outside=(l, rr))).real  # what the truncation removed from kappa(1)
    growth = float(mcp._process_drift) + mu_h + 0.5 * sig ** 2 + Jc
    res.count(("fwd-ctmc", kind, tuple(sorted(params.items())), r, d), kind="oracle forward ctmc route")
    if not _close(growth + tail, r - d, rel=1e-7, ab=1e-8):
        rep = dict(kind="forward-ctmc", model=kind, params=params, r=r, d=d, truncations=[l, rr], process_drift=float(mcp._process_drift), mu_h=mu_h,
                   growth_under_exact_truncated_law=growth, removed_tail=tail, expected=r - d)
        if kind == "cgmy":
            rep["finding"] = "F-C10-2" if params["y"] < 0 else ("F-C10-3" if params["y"] == 0 else ("F-C10-4" if params["y"] == 1 else None))
        res.violation(f"{kind}{ykey}: the Markov-chain drift with the exact jump law does not grow at r-d", rep)


class StubMeasure:
    """first-moment function with exactly representable (dyadic) values: the conversions are then exact in floats"""

    def __init__(self, i11, tl, tr, fv):
        self.v, self.fv = {(-1, 1): i11, (-INF, -1): tl, (1, INF): tr}, fv

    def integrate_against_x(self, a, b):
        return self.v[(a, b)]

    def jump_of_finite_variation(self):
        return self.fv


def _dy(rng):
    return rng.randrange(-64, 65) / 16.0


def _conversions_oracle(res, rng):
    from rpylib.model.levymodel.levymodel import LevyTriplet, LevyRepresentation as LR
    reps = [LR.ZERO, LR.CENTER, LR.ONEONE, LR.TILDE]
    for _ in range(_cfg(res)["seqs"]):
        nu = StubMeasure(_dy(rng), _dy(rng), _dy(rng), rng.random() < 0.5)
        a0, r0 = _dy(rng), rng.choice(reps)
        seq = [rng.choice(reps) for _ in range(rng.randrange(1, 6))]
        t = LevyTriplet(sigma=0.0, nu=nu, a=a0, representation=r0)
        for r_ in seq:
            t.set_representation(r_)
        direct = LevyTriplet(sigma=0.0, nu=nu, a=a0, representation=r0)
        direct.set_representation(seq[-1])
        res.count(("conv", a0, r0.name, tuple(x.name for x in seq), nu.v[(-1, 1)], nu.fv), kind="oracle set_representation sequences")
        res.bump("conversion_sequence_length", len(seq))
        if t.a != direct.a or t.representation != direct.representation:
            res.violation("set_representation is path dependent", dict(kind="conversion", a=a0, rep=r0.name, seq=[x.name for x in seq],
                                                                          got=t.a, direct=direct.a, I11=nu.v[(-1, 1)], fv=nu.fv))
        t.set_representation(r0)
        if t.a != a0:
            res.violation("set_representation is not reversible", dict(kind="conversion-back", a=a0, rep=r0.name, seq=[x.name for x in seq], got=t.a))


# ============================================================================================ Coq correspondence
HEADER = L.HEADER_COMMON + """From Coq Require Import List.
Import ListNotations.
From RV Require Import Base.RB Gen.GenC10Triplet Gen.GenC10Hem Gen.GenC10Merton Gen.GenC10Vg Gen.GenC10Cgmy Gen.GenC10Bs Gen.GenC10Exp
  Model.LevyExponent Proofs.C10_Triplet Proofs.C10_Exponent.
"""

I80 = "interval with (i_prec 80)."


def _args(params, keys):
    return " ".join(rlit(params[k]) for k in keys)


def _kappa_cases(res, rng, per_group):
    cases = []
    for kind in ("hem", "merton", "vg", "cgmy"):
        plist = [dict(p) for p in L.FIXED[kind]] if kind == "cgmy" else []
        gen = dict(hem=L.hem_params, merton=L.merton_params, vg=L.vg_params, cgmy=L.cgmy_params)[kind]
        plist += [gen(rng) for _ in range(per_group)]
        for params in plist:
            model, _ = L.build(kind, params)
            lo, hi = strip(kind, params)
            s = round(rng.uniform(0.6 * lo, 0.6 * hi), 2)
            if rng.random() < 0.4 and 1.0 < 0.9 * hi:
                s = 1.0
            v = kappa_impl(model, s).real
            a0, sig = float(model._original_drift), float(model.levy_triplet.sigma)
            tl, _ = tol_lit(v)
            if kind == "hem":
                pj, un = f"(hem_pj {_args(params, ('intensity', 'p', 'eta1', 'eta2'))})", "unfold kappa, hem_pj."
            elif kind == "merton":
                pj, un = f"(merton_pj {_args(params, ('intensity', 'mu_j', 'sigma_j'))})", "unfold kappa, merton_pj."
            elif kind == "vg":
                pj, un = f"(vg_pj {_args(params, ('sigma', 'nu', 'theta'))})", "unfold kappa, vg_pj."
            else:
                cg = float(model.parameters._CGammamY)
                if not math.isfinite(cg):
                    cg = 0.0
                pj = f"(cgmy_kappa_pj {_args(params, ('c', 'g', 'm', 'y'))} {rlit(cg)})"
                y = params["y"]
                un = "unfold kappa. " + ("rewrite cgmy_pj_y0." if y == 0 else ("rewrite cgmy_pj_y1." if y == 1 else "rewrite cgmy_pj_gen by lra."))
            stmt = f"Rabs (kappa {rlit(a0)} {rlit(sig)} {pj} {rlit(s)} - {rlit(v)}) <= {tl}"
            cases.append(Case(("kappa", kind, s), stmt, f"{un} {I80}", dict(model=kind, params=params, s=s, impl=v)))
            res.count(("coq-kappa", kind, tuple(sorted(params.items())), s), nontrivial=s != 0, kind=f"coq kappa {kind}")
            # cumulants
            t = rng.choice([0.5, 1.0, 2.0])
            for n in (1, 2, 4):
                if kind == "cgmy" and n != 1:
                    continue    # gamma(2-y): opaque function, not evaluated by interval
                c = float(getattr(model.cumulant, f"cumulant{n}")(t))
                drift = float(model.cumulant.drift)
                if kind == "hem":
                    call = {1: f"hem_cumulant1 {rlit(drift)} {_args(params, ('intensity', 'p', 'eta1', 'eta2'))}",
                            2: f"hem_cumulant2 {_args(params, ('sigma', 'intensity', 'p', 'eta1', 'eta2'))}",
                            4: f"hem_cumulant4 {_args(params, ('intensity', 'p', 'eta1', 'eta2'))}"}[n]
                elif kind == "merton":
                    call = {1: f"merton_cumulant1 {rlit(drift)} {_args(params, ('intensity', 'mu_j', 'sigma_j'))}",
                            2: f"merton_cumulant2 {_args(params, ('sigma', 'intensity', 'mu_j', 'sigma_j'))}",
                            4: f"merton_cumulant4 {_args(params, ('intensity', 'mu_j', 'sigma_j'))}"}[n]
                elif kind == "vg":
                    call = {1: f"vg_cumulant1 {rlit(drift)} {_args(params, ('sigma', 'nu', 'theta'))}",
                            2: f"vg_cumulant2 {_args(params, ('sigma', 'nu', 'theta'))}",
                            4: f"vg_cumulant4 {_args(params, ('sigma', 'nu', 'theta'))}"}[n]
                else:
                    call = f"cgmy_cumulant1 {rlit(drift)} {rlit(params['y'])}"
                fn = call.split()[0]
                tl2, _ = tol_lit(c)
                proof = f"unfold {fn}. {I80}" if kind != "cgmy" else \
                    f"unfold {fn}. cbv beta iota zeta. destruct (Reqb _ _); {I80}"
                cases.append(Case(("cumulant", kind, n), f"Rabs ({call} {rlit(t)} - {rlit(c)}) <= {tl2}", proof,
                                  dict(model=kind, params=params, n=n, t=t, impl=c)))
                res.count(("coq-cum", kind, tuple(sorted(params.items())), n, t), kind=f"coq cumulant {kind}")
    return cases


def _drift_cases(res, rng, per_group):
    cases = []
    for _ in range(per_group):
        r, d, spot = L.rnd(rng, 0, 0.08, 3), L.rnd(rng, 0, 0.05, 3), 100.0
        # HEM
        p = L.hem_params(rng)
        em = L.build_exp("hem", p, spot, r, d)
        v = float(em.process_drift())
        tl, _ = tol_lit(v)
        cases.append(Case(("pd", "hem"), f"Rabs (hem_process_drift {rlit(r)} {rlit(d)} {rlit(p['sigma'])} {rlit(p['intensity'])} "
                                         f"(hem_xi {_args(p, ('p', 'eta1', 'eta2'))}) - {rlit(v)}) <= {tl}",
                          f"unfold hem_process_drift, hem_xi. {I80}", dict(model="hem", params=p, r=r, d=d, impl=v)))
        om = float(em.omega)
        tl, _ = tol_lit(om)
        cases.append(Case(("omega", "hem"), f"Rabs (omega_of (hem_a {_args(p, ('intensity', 'p', 'eta1', 'eta2'))}) {rlit(p['sigma'])} "
                                            f"(hem_pj {_args(p, ('intensity', 'p', 'eta1', 'eta2'))}) - {rlit(om)}) <= {tl}",
                          f"unfold omega_of, kappa, hem_a, hem_pj. {I80}", dict(model="hem", params=p, impl=om)))
        dr = float(em.drift())
        tl, _ = tol_lit(dr)
        cases.append(Case(("drift", "hem"), f"Rabs (exp_model_drift {rlit(r)} {rlit(d)} {rlit(om)} - {rlit(dr)}) <= {tl}",
                          f"unfold exp_model_drift. {I80}", dict(model="hem", params=p, impl=dr)))
        # Merton
        p = L.merton_params(rng)
        em = L.build_exp("merton", p, spot, r, d)
        v = float(em.process_drift())
        tl, _ = tol_lit(v)
        cases.append(Case(("pd", "merton"), f"Rabs (merton_process_drift {rlit(r)} {rlit(d)} {rlit(p['sigma'])} "
                                            f"{_args(p, ('intensity', 'mu_j', 'sigma_j'))} - {rlit(v)}) <= {tl}",
                          f"unfold merton_process_drift. {I80}", dict(model="merton", params=p, r=r, d=d, impl=v)))
        om = float(em.omega)
        tl, _ = tol_lit(om)
        cases.append(Case(("omega", "merton"), f"Rabs (omega_of (merton_a {_args(p, ('intensity', 'mu_j', 'sigma_j'))}) {rlit(p['sigma'])} "
                                               f"(merton_pj {_args(p, ('intensity', 'mu_j', 'sigma_j'))}) - {rlit(om)}) <= {tl}",
                          f"unfold omega_of, kappa, merton_a, merton_pj. {I80}", dict(model="merton", params=p, impl=om)))
        # Black-Scholes
        sigma = L.rnd(rng, 0.05, 0.6)
        em = L.build_exp("bs", dict(sigma=sigma), spot, r, d)
        v = float(em.process_drift())
        tl, _ = tol_lit(v)
        cases.append(Case(("pd", "bs"), f"Rabs (bs_process_drift {rlit(r)} {rlit(d)} {rlit(sigma)} - {rlit(v)}) <= {tl}",
                          f"unfold bs_process_drift. {I80}", dict(model="bs", sigma=sigma, r=r, d=d, impl=v)))
        for c in cases[-6:]:
            res.count(("coq-drift", c.cid, json.dumps(c.info, sort_keys=True, default=str)), kind=f"coq {c.cid[0]} {c.cid[1]}")
    return cases


REPN = {1: "ZERO", 2: "CENTER", 3: "ONEONE", 4: "TILDE"}


def _conversion_cases(res, rng, per_group):
    """sequences of set_representation on the real LevyTriplet with (a) dyadic stub measures (exact) and (b) the real models
    (first moments fed to both sides as data, tolerance)"""
    from rpylib.model.levymodel.levymodel import LevyTriplet, LevyRepresentation as LR
    cases = []
    for k in range(3 * per_group):
        if k % 3 == 2:
            kind = rng.choice(["hem", "merton", "vg", "cgmy"])
            params = dict(hem=L.hem_params, merton=L.merton_params, vg=L.vg_params, cgmy=L.cgmy_params)[kind](rng)
            if kind == "cgmy" and params["y"] >= 1:
                params["y"] = 0.5
            _, real_nu = L.build(kind, params)
            i11, tl_, tr_ = (float(real_nu.integrate_against_x(-1, 1)), float(real_nu.integrate_against_x(-INF, -1)),
                             float(real_nu.integrate_against_x(1, INF)))
            nu = StubMeasure(i11, tl_, tr_, bool(real_nu.jump_of_finite_variation()))
            a0 = L.rnd(rng, -1, 1, 3)
            src = kind
        else:
            nu = StubMeasure(_dy(rng), _dy(rng), _dy(rng), rng.random() < 0.5)
            a0 = _dy(rng)
            src = "dyadic"
        r0 = rng.choice(list(LR))
        seq = [rng.choice(list(LR)) for _ in range(rng.randrange(1, 5))]
        t = LevyTriplet(sigma=0.0, nu=nu, a=a0, representation=r0)
        for r_ in seq:
            t.set_representation(r_)
        v = float(t.a)
        i11, tl_, tr_ = nu.v[(-1, 1)], nu.v[(-INF, -1)], nu.v[(1, INF)]
        seq_l = "[" + "; ".join(REPN[x.value] for x in seq[:-1]) + "]"
        fvs = "true" if nu.fv else "false"
        tol = "0" if src == "dyadic" else tol_lit(v)[0]
        stmt = (f"forall m1 : R -> R -> R, m1 (-1) 1 = {rlit(i11)} -> m1 (- INFV) (-1) = {rlit(tl_)} -> m1 1 INFV = {rlit(tr_)} -> "
                f"Rabs (t_a (set_representation INFV m1 {fvs} {REPN[seq[-1].value]} (set_representations INFV m1 {fvs} {seq_l} "
                f"(mkTriplet {rlit(a0)} {REPN[r0.value]}))) - {rlit(v)}) <= {tol}")
        proof = ("intros m1 H1 H2 H3. rewrite conversions_path_independent, set_representation_a. "
                 "unfold canonical_of, to_canonical, of_canonical, I11, Tails. cbn [t_a t_rep]. rewrite ?H1, ?H2, ?H3. "
                 + ("match goal with |- Rabs ?e <= 0 => replace e with 0 by field end. rewrite Rabs_R0. lra." if src == "dyadic" else I80))
        cases.append(Case(("conv", src, k), stmt, proof, dict(a=a0, rep=r0.name, seq=[x.name for x in seq], I11=i11, tails=[tl_, tr_], fv=nu.fv, impl=v)))
        res.count(("coq-conv", a0, r0.name, tuple(x.name for x in seq), i11, tl_, tr_, nu.fv), kind=f"coq set_representation ({src})")
    return cases


def _coq(res, rng):
    cfg = _cfg(res)
    cases = _kappa_cases(res, rng, cfg["coq_per_group"]) + _drift_cases(res, rng, cfg["coq_per_group"]) + \
        _conversion_cases(res, rng, cfg["coq_per_group"])
    nfiles, failed = L.run_cases(PROP, "cases", HEADER, cases, jobs=12, timeout=600)
    res.case_lemmas += len(cases)
    res.case_ok += len(cases) - len(failed)
    res.notes.append(f"{len(cases)} interval case lemmas in {nfiles} coqc processes")
    for c, err in failed[:20]:
        res.broke(f"correspondence case {c.cid}", f"kernel did not accept: {c.stmt}\n{err[-500:]}\ninfo={json.dumps(c.info, default=str)}")


def correspond(res):
    import warnings
    warnings.filterwarnings("ignore")
    rng = random.Random(res.seed)
    _oracle(res, rng)
    _coq(res, random.Random(res.seed + 1))


def search(res):
    saved = dict(QUICK)
    QUICK.update(n_random=8)
    try:
        _oracle(res, random.Random(res.seed + 7))
    finally:
        QUICK.clear()
        QUICK.update(saved)


def replay(path):
    import warnings
    warnings.filterwarnings("ignore")
    data = json.load(open(path))
    print(json.dumps(data, indent=1)[:3000])
    k = data.get("kind")
    if k in ("exponent", "exponent-u"):
        model, nu = L.build(data["model"], data["params"])
        hk = _rep_h(model)
        a0, sig = model._original_drift, model.levy_triplet.sigma
        if k == "exponent":
            s = data["s"]
            ref = a0 * s + 0.5 * sig ** 2 * s ** 2 + complex(lk_quad(nu, hk, s))
            got = kappa_impl(model, s)
        else:
            u = data["u"]
            ref = 1j * u * a0 - 0.5 * sig ** 2 * u ** 2 + complex(lk_quad(nu, hk, 1j * u))
            got = complex(model.levy_exponent(u))
        print("levy_exponent:", got, " Levy-Khintchine integral (declared", model.levy_triplet.representation.name, "):", ref)
        return 0 if _close(got, ref, rel=1e-6) else 1
    if k == "cumulant":
        model, _ = L.build(data["model"], data["params"])
        lo, hi = strip(data["model"], data["params"])
        rho = 0.45 * min(abs(lo), abs(hi)) if data["model"] != "merton" else 1.0
        n, t = data["n"], data["t"]
        c = float(getattr(model.cumulant, f"cumulant{n}")(t))
        ref = t * cauchy_derivative(model, n, rho)
        print(f"cumulant{n}({t}) =", c, " t * derivative of the exponent:", ref)
        return 0 if _close(c, ref.real, rel=1e-7, ab=1e-10) else 1
    if k == "forward-direct":
        from rpylib.process.levyprocess import LevyProcess
        em = L.build_exp(data["model"], data["params"], data["spot"], data["r"], data["d"])
        _, nu = L.build(data["model"], data["params"])
        T = data["T"]
        det = float(LevyProcess(em).deterministic_path(np.array([T]))[0])
        J0 = complex(lk_quad(nu, "zero", 1.0)).real
        got = math.exp(det + T * (0.5 * em.diffusion_coefficient() ** 2 + J0))
        fwd = data["spot"] * math.exp((data["r"] - data["d"]) * T)
        print("forward by the direct-simulation drift:", got, " S0 exp((r-d)T):", fwd)
        return 0 if _close(got, fwd, rel=1e-8) else 1
    print("replay: re-run ./check C10 to re-evaluate this class of input")
    return 1


LEVEL_TEXT = ("Proof (partial): 16 Coq theorems. The four drift conversions of LevyTriplet are re-translated from levymodel.py on every run and "
              "set_representation is proved path-independent and reversible for all triplets, measures and sequences of representations. "
              "On the real axis (kappa(s) = psi(-i s)) the generated pure-jump exponents, cumulants and simulation drifts of HEM, Merton, VG, "
              "CGMY and Black-Scholes satisfy: cumulant1/2 = t * first/second derivative of kappa at 0 (CGMY partially), the characteristic-"
              "function route and the direct-simulation drift (BS, Merton, HEM) give the forward S0 exp((r-d)T), the Markov-chain drift does "
              "so given additivity of the first moment and the Levy-Khintchine clause, and for HEM the exponent is proved to be the "
              "Levy-Khintchine integral of the generated density in the declared representation. For Merton, VG and CGMY the exponent-versus-"
              "density clause, higher cumulants and complex arguments are validated only by the mpmath quadrature / Cauchy-integral oracle.")
LEVEL_NOTE = ("Trusted: Coq kernel, standard real/classical axioms, py2coq (fail-closed), the hand model of levy_exponent on the real axis "
              "(complex arithmetic not modelled) tied by interval case lemmas on levy_exponent(-1j*s).real, Gamma as an opaque function.")
TECHNIQUE = "Coq proof over R (field algebra, Coquelicot is_derive / auto_derive) on py2coq-generated drifts, exponents and cumulants + Interval case lemmas"

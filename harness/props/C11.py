"""C11 -- the Levy copulas are Levy copulas (grounded, d-increasing, uniform margins; Clayton conditional
distribution / inverse / mixed derivative): correspondence (vm_compute for the piecewise-linear copulas and the
volume/margin operators, Interval case lemmas for Clayton) and implementation oracle."""
import itertools
import json
import math
import random
from concurrent.futures import ThreadPoolExecutor
from fractions import Fraction

import numpy as np

from common import qlit, lst, coq_bad_indices, coq_eval_file, CoqError
import copula_models as CM
from copula_models import INF, elit, elist, idxlit

PROP = "C11"
PROPERTY_FILE = "Properties/C11.v"
GEN_DEPS = ["GenC12Mass", "GenC11Clayton"]     # GenC11Clayton: Clayton conditional distribution + inverse from the source (specs/C11.py); Proofs/C11_Increasing.v reuses order lemmas of Proofs/C12_Mass.v, which imports the generated masses
RULE = ("cases: (copula, parameters, argument vector / rectangle / conditional argument); copulas = independent, completely dependent, "
        "Clayton with theta in {0.05..8} and eta in [0,1] incl. 0 and 1; vectors from a dyadic lattice {-inf,-3,-1.25,-0.5,0,0.25,1,2.5,"
        "inf}^d, d = 2, 3, every sign pattern, zero and infinite entries (vectors whose entries are ALL infinite are outside the model: the "
        "code returns +-inf/nan there); rectangles = all pairs of lattice points per coordinate; conditional distribution: eps in {-7.5,-1,"
        "-0.02,0,0.02,0.6,12} x x in {-inf,-1e300..-1e-9,0,1e-9..1e300,inf} minus (0,0); x_first_derivative: d = 2 (4 quadrants), d = 3 (8 "
        "octants), zero entries; non-trivial = distinct case with at least one finite non-zero entry")
MODELLED = [
    "IndependentComponentsCopula / DependentComponentsCopula / volume / margin: hand models over a Num (Model/Copula.v), exact "
    "vm_compute correspondence on dyadic inputs",
    "ClaytonCopula._condition_distribution_2d, _inverse_conditional_distribution_2d: REGENERATED from the source by py2coq on every run "
    "(Gen/GenC11Clayton.v, domain R: np.power -> Rpower, np.where / np.sign / x[0] / np.array([res]) read pointwise) and proved equal, for "
    "all arguments, to the hand models clayton_cond / clayton_inv the theorems are about; additionally tied by Interval case lemmas",
    "ClaytonCopula.__call__, x_first_derivative (d=2): hand models over R (Rpower), tied by Interval case lemmas |model - implementation| "
    "<= 1e-9 rel. (loops / numpy reductions: outside py2coq's subset)",
    "ClaytonCopula.x_first_derivative in ANY dimension incl. the `np.any(u == 0) -> 0` branch: hand model clayton_xderiv (Model/CopulaX.v), "
    "tied by Interval case lemmas (1e-9 purely relative) in d = 3 on all eight octants and d = 2, and exactly on vectors with a zero entry; "
    "linked by theorem to the d = 2 model",
    "ClaytonCopula._condition_distribution_2d at x = +-inf, x = 0 and eps = 0 (np.power(0, theta) = 0, eps / 0 = inf, (1 + inf) ** negative "
    "= 0 -- not expressible by Rpower): hand model clayton_cond_x over extended reals with these IEEE conventions written out step by "
    "step (Model/CopulaX.v), tied by Interval case lemmas on EVERY swept (eps, x) of these regimes (eps = 0, x = 0 and x = +-inf are in the "
    "swept lists) plus a sample of ordinary ones; linked by theorem to the finite model clayton_cond",
    "(eps, x) = (0, 0) in the conditional distribution: the code evaluates 0.0 / 0.0 = nan; excluded from the model (cond_defined) and from "
    "the sweep (the conditional law given a zero first coordinate, at the point 0, is not defined)",
    "DependentComponentsCopula.conditional_distribution (count of +inf entries): model dep_cond, exact vm_compute correspondence on the "
    "whole lattice in sizes 1 and 2; wave 6: theorem C11_dependent_conditional_counter (range, monotone, where h * counter equals the volume "
    "the dependent copula gives to the strip (xi, xi+h] x (-inf, x] -- model dep_strip over the modelled volume operator) and the _refuted "
    "companion (it is not the conditional distribution for finite x >= xi + h); the method has no caller in /repo",
    "ClaytonCopula._inverse_conditional_distribution_2d on the CLOSED interval u in [0,1] (wave 6): hand model clayton_inv_x over extended "
    "reals with numpy's conventions written out step by step (np.power(0, negative) = inf, inf - 1 = inf, np.power(inf, negative) = 0, "
    "+-1 * |eps| * inf = +-inf; Model/CopulaX6.v); tied on every run at u = 0, u = 1 for every eps of the sweep and every Clayton parameter "
    "pair with 0 < eta < 1 (implementation returns -inf / +inf exactly; oracle: anything else is a violation), at the plateau value for "
    "dyadic eta (float computation exact; result 0), and by Interval cases inside; linked by theorem to clayton_inv",
    "ClaytonCopula.__call__ on all-infinite vectors (wave 6): model clayton_x / clayton_x_defined (Model/CopulaX6.v), every sign pattern in "
    "d = 1, 2, 3 for every Clayton parameter pair on every run: +-inf exactly as the model says, nan exactly where clayton_x_defined = false "
    "(eta in {0,1}); oracle: for 0 < eta < 1 the value must be +-inf with the orthant's sign",
    "generic LevyCopula.inverse_conditional_distribution (scipy Newton called without a starting point): raises ValueError for every "
    "copula that does not override it (independent copula; also when handed Clayton's conditional distribution through a harness "
    "subclass), DependentComponentsCopula.inverse_conditional_distribution raises by design: driven on every run, outcome recorded in the "
    "evidence histogram inverse_without_closed_form, not judged (outside C11's statement: Clayton overrides the inverse); if the generic "
    "solver ever returns, its value must invert the conditional distribution (oracle)",
    "levycopulaseries.py (np.sum of a generator under numpy 2.5): outside C11's statement; not covered",
    "argument vectors whose entries are all infinite: inside the extended models indep_x / dep_x / clayton_x (the nan cases of Clayton with "
    "eta in {0,1} are characterised by clayton_x_defined = false); copula2_ok / copula3_ok still quantify over rectangles with a finite side",
    "inverse at the plateau value with a NON-dyadic eta (e.g. eta = 0.3, eps >= 0, u = 0.7): in floats `u >= 1 - eta` holds while u - 1 + eta = "
    "-5.6e-17 < 0 and the code returns nan (np.power of a negative base); a single float input of probability ~2^-53 under the uniform draw, "
    "exact arithmetic gives 0 (theorem); observed, not judged, not in the sweep",
    "FrankLevyCopula: not offered by the model helpers, not covered",
]
ASSUMPTIONS = [
    "Clayton: 0 < theta; 0 <= eta <= 1 for the increasing theorems and for the extended conditional distribution (range, monotone, limits); "
    "0 < eta < 1 for the inverse (for eta in {0,1} the conditional distribution is constant on one half-line and not invertible there); "
    "the extended inverse clayton_inv_x additionally eps <> 0 and 0 <= u <= 1 (outside: nan in the code, inv_defined / not modelled)",
    "dependent counter vs strip volume: h > 0 and the strip's first side on one side of 0 (0 < xi or xi + h < 0) for finite x; none at x = +-inf",
    "increasing theorems: rectangles with at least one side finite at both ends (no all-infinite corner: there the values are +-inf)",
    "mixed derivative theorems: all arguments non-zero (open quadrants / octants); on the axes the code returns 0 (modelled, exact cases)",
]
THEOREM_NOTES = {
    "C11_mixed_derivative_partial": "d = 2, all four open quadrants: d2F/dudv = sign(u)sign(v) * x_first_derivative(u,v); named _partial because the "
                                    "property's wording (times the product of the arguments) is refuted, not because a case is missing "
                                    "(d = 3: C11_mixed_derivative_3d)",
    "C11_mixed_derivative_3d": "d = 3, all eight open octants: d3F/du dv dw = sign(u v w) * x_first_derivative([u,v,w]) by three is_derive steps with "
                               "explicit intermediate partials clD3_1, clD3_2; >= 0 for eta in [0,1], > 0 for 0 < eta < 1. Dimensions above 3 are not "
                               "used by the library's models and not proved",
    "C11_mixed_derivative_times_product_refuted": "finding F-C11-1: the stated contract (mixed partial times the product of the arguments) is false of "
                                                  "the code; the oracle reports it on the implementation by finite differences (matches_known: only the "
                                                  "recorded sign(prod u) * mixed-partial behaviour is absorbed), d = 2 and d = 3 (all octants)",
    "C11_conditional_distribution": "finite x <> 0 and eps <> 0; right inverse and the epsilon-M limits need 0 < eta < 1 (for eta in {0,1} the function is "
                                    "constant on a half-line). The remaining values are in C11_conditional_distribution_extended",
    "C11_generated_models": "links the py2coq translation of the two 2-d functions to the hand models over R; the float / IEEE special values are not in this link (they are in clayton_cond_x, a hand model tied by cases)",
    "C11_conditional_distribution_extended": "x in the extended reals, every real eps, only (eps, x) = (0, 0) excluded (nan in the code); limits as "
                                             "Coquelicot is_lim at +-inf and at 0, for every eta in [0,1]. The inverse at the end points u in {0, 1} "
                                             "(x = -+inf): C11_inverse_conditional_extended (wave 6)",
    "C11_dependent_conditional_counter": "what DependentComponentsCopula.conditional_distribution is: a counter of +inf entries in [0, len], monotone; "
                                         "h * counter = volume of the strip (xi, xi+h] x (-inf, x] at x = +-inf (every xi) and for finite x <= xi",
    "C11_dependent_conditional_is_volume_derivative_refuted": "for finite x >= xi + h the strip has volume h but the counter is 0: the method is not the "
                                                              "conditional distribution of the dependent copula (unit step at xi). No caller in /repo, and "
                                                              "C11's statement is about the Clayton conditional distribution: reported as an observation "
                                                              "(no oracle violation, no KNOWN entry)",
    "C11_inverse_conditional_extended": "0 < eta < 1, eps <> 0: values +inf / -inf / 0 at u = 1 / 0 / plateau, finite model elsewhere, never nan on "
                                        "[0,1], two-sided inverse of clayton_cond_x on the whole extended line, non-decreasing. Real arithmetic: the float "
                                        "artefact at a non-dyadic plateau value is listed in MODELLED",
    "C11_clayton_all_infinite": "any dimension; the limit statement (the +-inf value is the limit of the finite values along the diagonal) is NOT proved",
    "all-infinite vectors": "copula2_ok / copula3_ok quantify over rectangles with a finite side; on all-infinite vectors the code returns +-inf (indep_x / "
                            "dep_x / clayton_x model that, exact correspondence) and nan for Clayton with eta in {0,1} (clayton_x_defined = false)",
}
LEVEL_TEXT = ("Proof: 20 Coq statements (17 theorems + 3 non-vacuity examples). The independent, completely dependent and Clayton Levy copulas (every theta > 0, eta in [0,1]) are Levy "
              "copulas in dimension 2 and 3: they vanish when an argument is 0, their one-dimensional margins computed with the code's margin "
              "operator are the identity, and EVERY rectangle of (-inf,inf]^d with a finite side -- across quadrants/octants, with end points 0 "
              "and +-inf -- has non-negative volume (Clayton: sign of the finite differences of t^(-1/theta) by the mean value theorem, assembled "
              "over the orthants with weights eta, 1-eta >= 0; dependent: min of three on the positive octant plus reflection). The Clayton "
              "conditional distribution is a distribution function on the whole extended line, for every eps including eps = 0 (only the nan "
              "point eps = x = 0 excluded): range [0,1], non-decreasing through 0 and up to +-inf, value exactly 0 / 1 at -inf / +inf and these "
              "are the limits (is_lim) for every eta in [0,1], continuous at 0; the closed-form inverse is its left and right inverse "
              "(0 < eta < 1). x_first_derivative is sign(prod u) times the mixed partial in all four quadrants (d = 2) and all eight octants "
              "(d = 3, third mixed partial, which is >= 0), hence NOT the mixed partial times the product of its arguments (refuted, finding "
              "F-C11-1). Models are tied to the code on every run: the conditional distribution and its inverse are re-translated from the source by py2coq and proved equal to the models, exact vm_compute correspondence for the piecewise-linear copulas (incl. the "
              "+-inf values on all-infinite vectors), the volume/margin operators and the dependent copula's conditional distribution, "
              "Interval-certified case lemmas (1e-9) for every Clayton entry point (the conditional distribution at x = +-inf / x = 0 / eps = 0 "
              "and x_first_derivative in d = 3 / with a zero entry included) and its pair margins. Wave 6: the closed-form inverse on the closed "
              "interval [0,1] with numpy's conventions (+inf / -inf / 0 at u = 1 / 0 / plateau) is the two-sided inverse of the extended conditional "
              "distribution, a monotone bijection [-inf,+inf] <-> [0,1]; Clayton on all-infinite vectors is +-inf by the parity of the -inf entries "
              "and nan exactly for eta in {0,1} on the orthants whose weight is 0; the dependent copula's conditional_distribution is a monotone "
              "counter that equals the strip-volume derivative at x = +-inf and x <= xi and provably NOT for finite x >= xi + h (refuted; dead code). "
              "Partial: py2coq regeneration of ClaytonCopula.__call__ / x_first_derivative (loops, numpy reductions) not done -- hand models tied by "
              "Interval cases; the inverses without closed form (generic Newton: raises) are observed only.")
LEVEL_NOTE = ("Trusted: Coq kernel, vm_compute, Interval's reflexive checker, standard real/classical axioms (Coquelicot); hand models "
              "of the copula formulas (tied by the case checks); numpy float semantics.")
TECHNIQUE = "Coq proof over R (Coquelicot, lra/nra, MVT) + vm_compute correspondence (Q) + Interval case lemmas (R)"

LATTICE = [-INF, -3.0, -1.25, -0.5, 0.0, 0.25, 1.0, 2.5, INF]
FINITE = [x for x in LATTICE if math.isfinite(x)]
CLAYTON_PARAMS = [(0.7, 0.3), (2.5, 0.8), (0.3, 0.0), (1.0, 1.0), (0.05, 0.5), (8.0, 0.65)]

IV_HEADER = """From Coq Require Import Reals List Bool Lra.
From Interval Require Import Tactic.
From RV Require Import Base.RB Base.ExtNum Model.Copula.
Import ListNotations.
Open Scope R_scope.
Lemma Reqb_false x y : x <> y -> Reqb x y = false.
Proof. intros H. destruct (Reqb x y) eqn:E; auto. apply Reqb_true in E. contradiction. Qed.
Ltac decide_tests := repeat match goal with
  | |- context[Rltb ?a ?b] => first [rewrite (proj2 (Rltb_true a b)) by lra | rewrite (proj2 (Rltb_false a b)) by lra]
  | |- context[Rleb ?a ?b] => first [rewrite (proj2 (Rleb_true a b)) by lra | rewrite (proj2 (Rleb_false a b)) by lra]
  | |- context[Reqb ?a ?b] => first [rewrite (proj2 (Reqb_true a b)) by lra | rewrite (Reqb_false a b) by lra]
  end.
Ltac cl := unfold margin, complement, scatter; cbn -[Rpower Rabs clayton];
  unfold clayton, clayton_sum, clayton_cond, clayton_inv, clayton_fun_b, clayton_fun_c, sgn, clayton_xderiv2;
  cbn -[Rpower Rabs]; decide_tests; cbn -[Rpower Rabs]; unfold Rpower.
"""

IV_HEADER_W5 = """From Coq Require Import Reals List Bool Lra.
From Interval Require Import Tactic.
From RV Require Import Base.RB Base.ExtNum Model.Copula Model.CopulaX.
Import ListNotations.
Open Scope R_scope.
Lemma Reqb_false x y : x <> y -> Reqb x y = false.
Proof. intros H. destruct (Reqb x y) eqn:E; auto. apply Reqb_true in E. contradiction. Qed.
Ltac decide_tests := repeat match goal with
  | |- context[Rltb ?a ?b] => first [rewrite (proj2 (Rltb_true a b)) by lra | rewrite (proj2 (Rltb_false a b)) by lra]
  | |- context[Rleb ?a ?b] => first [rewrite (proj2 (Rleb_true a b)) by lra | rewrite (proj2 (Rleb_false a b)) by lra]
  | |- context[Reqb ?a ?b] => first [rewrite (proj2 (Reqb_true a b)) by lra | rewrite (Reqb_false a b) by lra]
  end.
Ltac abs_tests := repeat match goal with
  | |- context[Rabs ?a] => first [rewrite (Rabs_right a) by lra | rewrite (Rabs_left a) by lra] end.
Ltac cl5 := unfold clayton_xderiv, theta_prod, clayton_cond_x, cond_core_x, abs_ratio; cbn -[Rpower Rabs Rdiv];
  decide_tests; cbn -[Rpower Rabs Rdiv]; abs_tests; unfold np_power_neg, xadd1, np_power_pos; decide_tests; cbn -[Rpower Rabs Rdiv];
  decide_tests; unfold Rpower.
"""


IV_HEADER_W6 = IV_HEADER_W5.replace("Model.Copula Model.CopulaX.", "Model.Copula Model.CopulaX Model.CopulaX6 Proofs.C11_InvX.") + """
Ltac side6 := first [lra | unfold plateau; decide_tests; lra].
Ltac cl6i := unfold clayton_inv, clayton_fun_b, clayton_fun_c, sgn; cbn -[Rpower Rabs]; decide_tests; cbn -[Rpower Rabs]; unfold Rpower.
Ltac clx := unfold clayton_x, clayton_x_defined, clayton_factor, all_inf, sign_prod_neg; cbn -[Rltb Reqb]; decide_tests; cbn; repeat split; reflexivity.
"""


def rlit(x) -> str:
    fr = Fraction(x)
    if fr.denominator == 1:
        return f"({fr.numerator})"
    return f"(({fr.numerator}) / {fr.denominator})"


def erlit(x) -> str:
    x = float(x)
    if x == INF:
        return "PInf"
    if x == -INF:
        return "NInf"
    return f"(Fin {rlit(x)})"


def tol_of(v) -> Fraction:
    return Fraction(max(1e-12, 1e-9 * abs(v))).limit_denominator(10 ** 18)


def reltol_of(v) -> Fraction:
    """purely relative 1e-9 (no absolute floor): for values that are legitimately tiny (x_first_derivative at small theta)"""
    return Fraction(1e-9 * abs(v)) if v != 0 else Fraction(1, 10 ** 12)


def mixed_partial_mp(th, et, us):
    """d^d F / du_1..du_d of the Clayton Levy copula, from its formula, by mpmath differentiation at 40 digits (accurate to ~1e-25)"""
    import mpmath as mp
    mp.mp.dps = 40
    TH, ET, d = mp.mpf(th), mp.mpf(et), len(us)
    neg = sum(1 for u in us if u < 0) % 2 == 1
    g = -(1 - ET) if neg else ET

    def F(*xs):
        return mp.mpf(2) ** (2 - d) * sum(abs(x) ** (-TH) for x in xs) ** (-1 / TH) * g
    return float(mp.diff(F, tuple(mp.mpf(u) for u in us), (1,) * d))


def cop_fun(cop):
    return lambda u: cop(np.array(list(u), dtype=float))


def all_inf(us):
    return all(math.isinf(x) for x in us)


def correspond(res):
    from rpylib.model.levycopulamodel import volume, margin
    rng = random.Random(res.seed)
    tier = res.tier
    groups = []

    def viol(what, **kw):
        res.violation(what, dict(kw))

    copulas = [(["indep"], CM.make_copula(["indep"])), (["dep"], CM.make_copula(["dep"]))]
    clay = [(["clayton", th, et], CM.make_copula(["clayton", th, et])) for th, et in CLAYTON_PARAMS]
    if tier == "thorough":
        clay += [(["clayton", th, et], CM.make_copula(["clayton", th, et])) for th, et in ((0.1, 0.9), (1.7, 0.25), (4.0, 0.0), (0.5, 1.0))]

    # ============ A. exact: indep / dep values, volume, margin (vm_compute over Q) ===============================
    for desc, cop in copulas:
        ck = "indep" if desc[0] == "indep" else "dep"
        val_cases, vol_cases, mar_cases = [], [], []
        for d in (2, 3):
            vecs = [v for v in itertools.product(LATTICE, repeat=d) if not all_inf(v)]
            for us in vecs:
                with np.errstate(all="ignore"):
                    v = float(cop(np.array(us)))
                res.count(("val", ck, us), nontrivial=any(math.isfinite(x) and x != 0 for x in us), kind=f"{ck} value d={d}")
                if any(x == 0 for x in us) and v != 0:
                    viol("copula does not vanish when an argument is 0", kind="grounded", copula=desc, us=list(us), got=v)
                if not math.isfinite(v):
                    viol("copula value is not finite although one argument is finite", kind="value", copula=desc, us=list(us), got=v)
                    continue
                val_cases.append(f"({elist(us)}, {qlit(v)})")
            # margins: every index subset
            for r in range(1, d):
                for ind in itertools.combinations(range(d), r):
                    f = margin(cop, list(ind), d)
                    for us in itertools.product(FINITE, repeat=r):
                        with np.errstate(all="ignore"):
                            v = float(f(np.array(us)))
                        res.count(("margin", ck, d, ind, us), nontrivial=any(x != 0 for x in us), kind=f"{ck} margin d={d}")
                        if r == 1 and v != us[0]:
                            viol("one-dimensional margin is not the identity", kind="margin", copula=desc, dim=d, indices=list(ind), u=list(us), got=v)
                        mar_cases.append(f"({d}%nat, {lst([f'{i}%nat' for i in ind])}, {elist(us)}, {qlit(v)})")
            # rectangles
            ivs = [(a, b) for a, b in itertools.combinations(LATTICE, 2)]
            rects = list(itertools.product(ivs, repeat=d))
            if d == 3:
                rng.shuffle(rects)
                rects = rects[:(2500 if tier == "quick" else 46656)]
            f = cop_fun(cop)
            for rect in rects:
                a = tuple(x[0] for x in rect); b = tuple(x[1] for x in rect)
                has_finite_side = any(math.isfinite(x) and math.isfinite(y) for x, y in rect)
                with np.errstate(all="ignore"):
                    v = float(volume(f, a, b))
                res.count(("vol", ck, a, b), kind=f"{ck} volume d={d}")
                res.bump("rectangle_has_finite_side", has_finite_side)
                if has_finite_side:
                    if not (v >= 0):
                        viol("negative (or nan) volume of a rectangle", kind="increasing", copula=desc, a=list(a), b=list(b), got=v)
                    if math.isfinite(v) and len(vol_cases) < (1500 if tier == "quick" else 6000):
                        vol_cases.append(f"({elist(a)}, {elist(b)}, {qlit(v)})")
                elif not (v >= 0):   # all sides reach infinity: +inf is fine, negative / nan is not
                    viol("negative (or nan) volume of a rectangle", kind="increasing", copula=desc, a=list(a), b=list(b), got=v)
        # all-infinite argument vectors: the extended value the (repaired) code returns (C11-4)
        x_cases = []
        for d in (2, 3):
            for us in itertools.product([-INF, INF], repeat=d):
                with np.errstate(all="ignore"):
                    v = float(cop(np.array(us)))
                res.count(("xval", ck, us), kind=f"{ck} all-infinite vector d={d}")
                if math.isnan(v):
                    viol("copula value is nan on an all-infinite vector", kind="value", copula=desc, us=list(us), got=v)
                    continue
                x_cases.append(f"({elist(us)}, {elit(v)})")
        groups.append((f"{ck}_xval", "list (ext Q) * ext Q",
                       f"fun c => match {ck}_x QNum (fst c), snd c with NInf, NInf => true | PInf, PInf => true | Fin a, Fin b => Qeq_bool a b | _, _ => false end",
                       x_cases))
        groups.append((f"{ck}_val", "list (ext Q) * Q", f"fun c => Qeq_bool ({ck} QNum (fst c)) (snd c)", val_cases))
        groups.append((f"{ck}_vol", "list (ext Q) * list (ext Q) * Q", f"fun c => match c with (a, b, v) => Qeq_bool (volume QNum ({ck} QNum) a b) v end", vol_cases))
        groups.append((f"{ck}_margin", "nat * list nat * list (ext Q) * Q",
                       f"fun c => match c with (d, ind, u, v) => Qeq_bool (margin QNum ({ck} QNum) ind d u) v end", mar_cases))

    # ============ B. Clayton: Interval cases + oracle ===============================================================
    iv_cases = []   # (name, statement)
    iv_cases_w5 = []   # statements about the wave-5 models (Model/CopulaX.v): clayton_xderiv (any d), clayton_cond_x (extended domain)
    for desc, cop in clay:
        th, et = desc[1], desc[2]
        TH, ET = rlit(th), rlit(et)
        f = cop_fun(cop)
        for d in (2, 3):
            vecs = [v for v in itertools.product(LATTICE, repeat=d) if not all_inf(v)]
            rng.shuffle(vecs)
            chosen = vecs if d == 2 else vecs[:(60 if tier == "quick" else 400)]
            for us in vecs:
                with np.errstate(all="ignore"):
                    v = float(cop(np.array(us)))
                res.count(("val", str(desc), us), nontrivial=any(math.isfinite(x) and x != 0 for x in us), kind=f"clayton value d={d}")
                res.bump("clayton_sign_pattern", "".join("0" if x == 0 else ("-" if x < 0 else "+") for x in us))
                if any(x == 0 for x in us) and v != 0:
                    viol("copula does not vanish when an argument is 0", kind="grounded", copula=desc, us=list(us), got=v)
                if not math.isfinite(v):
                    viol("copula value is not finite although one argument is finite", kind="value", copula=desc, us=list(us), got=v)
            for us in chosen[:(30 if tier == "quick" else 200)] if d == 2 else chosen:
                with np.errstate(all="ignore"):
                    v = float(cop(np.array(us)))
                if math.isfinite(v):
                    iv_cases.append(f"Rabs (clayton {TH} {ET} {lst([erlit(x) for x in us])} - {rlit(v)}) <= {rlit(tol_of(v))}")
            # margins identity
            for k in range(d):
                g = margin(cop, [k], d)
                for u in FINITE + [1e-6, -1e6, 37.5]:
                    with np.errstate(all="ignore"):
                        v = float(g(np.array([u])))
                    res.count(("margin", str(desc), d, k, u), nontrivial=u != 0, kind=f"clayton margin d={d}")
                    if not abs(v - u) <= 1e-9 * max(1.0, abs(u)):
                        viol("one-dimensional margin is not the identity", kind="margin", copula=desc, dim=d, indices=[k], u=[u], got=v)
            # pair margins of the 3-d copula through the generic margin operator (C11-5)
            if d == 3:
                for (i, j) in ((0, 1), (0, 2), (1, 2)):
                    g2 = margin(cop, [i, j], 3)
                    for (u, v) in ((1.0, 2.5), (-0.5, 0.25), (-3.0, -1.25), (2.5, -0.5)):
                        with np.errstate(all="ignore"):
                            val = float(g2(np.array([u, v])))
                        res.count(("pairmargin", str(desc), i, j, u, v), kind="clayton pair margin d=3")
                        iv_cases.append(f"Rabs (margin RNum (clayton {TH} {ET}) [{i}%nat; {j}%nat] 3 [Fin {rlit(u)}; Fin {rlit(v)}] - {rlit(val)}) <= {rlit(tol_of(val))}")
            # rectangles (brute force)
            ivs = [(a, b) for a, b in itertools.combinations(LATTICE, 2)]
            rects = list(itertools.product(ivs, repeat=d))
            rng.shuffle(rects)
            rects = rects[:((400 if d == 2 else 500) if tier == "quick" else (1296 if d == 2 else 6000))]
            for rect in rects:
                a = tuple(x[0] for x in rect); b = tuple(x[1] for x in rect)
                has_finite_side = any(math.isfinite(x) and math.isfinite(y) for x, y in rect)
                if not has_finite_side and not (0 < et < 1):
                    continue   # all-infinite corners: Clayton with eta in {0,1} evaluates inf * 0 (outside the model)
                with np.errstate(all="ignore"):
                    v = float(volume(f, a, b))
                res.count(("vol", str(desc), a, b), kind=f"clayton volume d={d}")
                res.bump("rectangle_has_finite_side", has_finite_side)
                if not (v >= -1e-9):
                    viol("negative (or nan) volume of a rectangle", kind="increasing", copula=desc, a=list(a), b=list(b), got=v)
        # ---- conditional distribution: a distribution function in x, limits, inverse -----------------------------
        xs_all = [-INF, -1e300, -1e12, -50.0, -3.0, -1.25, -0.5, -1e-3, -1e-9, 0.0, 1e-9, 1e-3, 0.25, 1.0, 2.5, 40.0, 1e12, 1e300, INF]
        for eps in (-7.5, -1.0, -0.02, 0.0, 0.02, 0.6, 12.0):
            # (eps, x) = (0, 0): the code evaluates 0.0 / 0.0 = nan -- the conditional law given "first coordinate = 0" at the point 0 is
            # not defined (cond_defined = false in the model); every other pair, x = 0 and eps = 0 included, is swept
            xs = [x for x in xs_all if not (eps == 0 and x == 0)]
            vals = []
            for x in xs:
                with np.errstate(all="ignore"):
                    v = float(cop.conditional_distribution(eps, np.array([x]))[0])
                vals.append(v)
                res.count(("cond", str(desc), eps, x), kind="clayton conditional distribution")
                res.bump("cond_regime", ("eps=0" if eps == 0 else "eps<>0") + "/" + ("x=+-inf" if math.isinf(x) else "x=0" if x == 0 else "x finite"))
                if not (0.0 - 1e-12 <= v <= 1.0 + 1e-12):
                    viol("conditional distribution outside [0,1] (or nan)", kind="cond", copula=desc, eps=eps, x=x, got=v)
                if eps != 0 and math.isfinite(x) and abs(x) < 1e6 and math.isfinite(v) and len(iv_cases) < 100000 and abs(x) >= 1e-3 and rng.random() < (0.25 if tier == "quick" else 1.0):
                    iv_cases.append(f"Rabs (clayton_cond {TH} {ET} {rlit(eps)} {rlit(x)} - {rlit(v)}) <= {rlit(tol_of(v))}")
                # extended-domain model clayton_cond_x: EVERY special regime (x = +-inf, x = 0, eps = 0) and a sample of the ordinary ones
                special = math.isinf(x) or x == 0 or eps == 0
                if math.isfinite(v) and (abs(x) <= 1e6 or math.isinf(x)) and (x == 0 or abs(x) >= 1e-3) and \
                        (special or rng.random() < (0.12 if tier == "quick" else 0.5)):
                    iv_cases_w5.append(f"Rabs (clayton_cond_x {TH} {ET} {rlit(eps)} {erlit(x)} - {rlit(v)}) <= {rlit(tol_of(v))}")
            # monotone on each side of 0 with a jump at 0 of the right sign; limits 0 and 1
            good = all(math.isfinite(v) for v in vals)
            if good and not all(vals[i] <= vals[i + 1] + 1e-12 for i in range(len(vals) - 1)):
                i = next(i for i in range(len(vals) - 1) if not vals[i] <= vals[i + 1] + 1e-12)
                viol("conditional distribution is not non-decreasing", kind="cond_mono", copula=desc, eps=eps, x=[xs[i], xs[i + 1]], got=[vals[i], vals[i + 1]])
            if good and (abs(vals[0]) > 1e-12 or abs(vals[-1] - 1) > 1e-12):
                viol("conditional distribution does not have the limits 0 and 1", kind="cond_limits", copula=desc, eps=eps, got=[vals[0], vals[-1]])
            if 0 < et < 1 and eps != 0:
                for x in (-3.0, -1.25, -0.5, -1e-3, 1e-3, 0.25, 1.0, 2.5, 40.0):
                    with np.errstate(all="ignore"):
                        u = float(cop.conditional_distribution(eps, np.array([x]))[0])
                        back = float(cop.inverse_conditional_distribution(np.array([eps]), np.array([u]))[0])
                    res.count(("inv", str(desc), eps, x), kind="clayton inverse conditional distribution")
                    lost = min(u, 1 - u, abs(u - et), abs(u - 1 + et))   # conditioning of the inverse near the plateau values
                    if not abs(back - x) <= 1e-6 * max(1.0, abs(x)) / max(lost, 1e-12) * 1e-3 + 1e-9 * abs(x) and lost > 1e-6:
                        viol("inverse conditional distribution does not invert the conditional distribution", kind="cond_inverse", copula=desc,
                             eps=eps, x=x, u=u, got=back)
                    if math.isfinite(back) and lost > 1e-3 and rng.random() < (0.3 if tier == "quick" else 1.0):
                        iv_cases.append(f"Rabs (clayton_inv {TH} {ET} {rlit(eps)} {rlit(u)} - {rlit(back)}) <= {rlit(tol_of(back) * 1000)}")
        # ---- mixed derivative: closed-form mixed partial (mpmath, 40 digits, independent of the implementation) ---------
        #      + finite differences of the implementation's own copula to tie that closed form to copula(us)
        for us in [(1.5, 0.8), (-1.2, 0.4), (0.3, -2.0), (-0.5, -0.7), (2.5, 2.5), (1.0, 1.1, 0.9), (-1.2, 1.1, 1.3), (-0.9, -1.0, 1.05), (1.5, 0.8, 0.6),
                   (-0.7, -1.3, -0.6), (1.2, -0.8, 0.5), (0.9, 1.4, -2.0), (-1.1, 0.6, -0.9), (1.3, -0.4, -1.7)]:   # d = 3: all eight octants
            d = len(us)
            with np.errstate(all="ignore"):
                xfd = float(cop.x_first_derivative(np.array(us)))
            if d == 2:
                iv_cases.append(f"Rabs (clayton_xderiv2 {TH} {ET} {rlit(us[0])} {rlit(us[1])} - {rlit(xfd)}) <= {rlit(tol_of(xfd))}")
            if math.isfinite(xfd) and (d == 3 or us in ((-1.2, 0.4), (2.5, 2.5))):     # any-dimension model (wave 5): d = 3 in every sign pattern
                iv_cases_w5.append(f"Rabs (clayton_xderiv {TH} {ET} {lst([rlit(t) for t in us])} - {rlit(xfd)}) <= {rlit(reltol_of(xfd))}")
            D = mixed_partial_mp(th, et, us)
            res.count(("xfd", str(desc), us), kind=f"clayton mixed derivative d={d}")
            # tie D to the implementation's copula by a central finite difference (coarse: 1e-3 where it is well conditioned)
            h = [(1e-3 if d == 2 else 1e-2) * abs(t) for t in us]
            F = lambda p: float(cop(np.array(p)))
            fd = sum(math.prod(sg) * F(tuple(u + s * hh for u, s, hh in zip(us, sg, h))) for sg in itertools.product((1, -1), repeat=d)) / math.prod(2 * hh for hh in h)
            if abs(D) > 1e-3 and not abs(fd - D) <= (1e-3 if d == 2 else 2e-2) * abs(D):
                viol("finite differences of copula(us) disagree with the closed-form mixed partial of the Clayton formula", kind="xfd_fd", copula=desc,
                     u=list(us), finite_difference=fd, closed_form=D)
            if D == 0.0 and xfd == 0.0:
                continue
            claim = D * math.prod(us)
            if not abs(xfd - claim) <= 1e-9 * max(abs(claim), abs(xfd)):
                viol("x_first_derivative is not the mixed partial derivative times the product of its arguments", kind="xfd", finding="F-C11-1",
                     copula=desc, u=list(us), x_first_derivative=xfd, mixed_partial=D, mixed_partial_times_product=claim)
        # a zero entry: the code returns 0 (the copula is identically 0 on the axes)
        for us in ((0.0, 1.0), (2.0, 0.0), (0.0, 0.0), (1.0, 0.0, -2.0)):
            v = float(cop.x_first_derivative(np.array(us)))
            res.count(("xfd0", str(desc), us), kind="clayton mixed derivative with a zero entry")
            if v != 0:
                viol("x_first_derivative with a zero argument is not 0", kind="xfd_zero", copula=desc, u=list(us), got=v)
            else:
                iv_cases_w5.append(f"Rabs (clayton_xderiv {TH} {ET} {lst([rlit(t) for t in us])} - 0) <= {rlit(Fraction(1, 10 ** 15))}")

    # ---- parameters RE-ASSIGNED on an existing object (theta is a validated settable property, eta a plain attribute): after every
    #      re-assignment the object must be THE copula of its current parameters at every entry point (bit-for-bit equal to a freshly
    #      constructed one), its margins the identity, and it feeds Interval cases with the current parameters ------------------------
    from rpylib.distribution.levycopula import ClaytonCopula
    sequence = [(0.7, 0.3), (0.35, 0.3), (0.35, 0.9), (2.5, 0.1), (1.0, 1.0), (0.05, 0.5), (0.7, 0.3)]
    for start in range(2):
        th0, et0 = sequence[start]
        obj = ClaytonCopula(theta=th0, eta=et0)
        obj(np.array([1.0, -2.0]))                        # used once before the first re-assignment
        for step, (th, et) in enumerate(sequence[start + 1:]):
            if step % 2 == 0:
                obj.theta = th; obj.eta = et
            else:
                obj.eta = et; obj.theta = th
            fresh = ClaytonCopula(theta=th, eta=et)
            desc = ["clayton", th, et]
            hist = dict(reassigned=True, constructed_with=[th0, et0], step=step)
            TH, ET = rlit(th), rlit(et)
            vecs = [v for d in (2, 3) for v in itertools.product([-INF, -25.0, -1.25, 0.0, 0.25, 2.5, INF], repeat=d) if not all_inf(v)]
            rng.shuffle(vecs)
            for us in vecs[:120]:
                with np.errstate(all="ignore"):
                    got, want = float(obj(np.array(us))), float(fresh(np.array(us)))
                res.count(("reassign-val", start, step, us), kind="clayton value after re-assigning theta / eta")
                if got != want and not (math.isnan(got) and math.isnan(want)):
                    viol("after re-assigning theta / eta the copula differs from a freshly constructed copula with the same parameters", kind="reassigned",
                         entry="__call__", copula=desc, us=list(us), got=got, fresh=want, **hist)
            for us in vecs[:6]:
                with np.errstate(all="ignore"):
                    v = float(obj(np.array(us)))
                if math.isfinite(v):
                    iv_cases.append(f"Rabs (clayton {TH} {ET} {lst([erlit(x) for x in us])} - {rlit(v)}) <= {rlit(tol_of(v))}")
            for d in (2, 3):
                for k in range(d):
                    g = margin(obj, [k], d)
                    for u in (-25.0, -0.5, 0.25, 37.5):
                        with np.errstate(all="ignore"):
                            v = float(g(np.array([u])))
                        res.count(("reassign-margin", start, step, d, k, u), kind="clayton margin after re-assigning theta / eta")
                        if not abs(v - u) <= 1e-9 * max(1.0, abs(u)):
                            viol("one-dimensional margin is not the identity", kind="margin", copula=desc, dim=d, indices=[k], u=[u], got=v, **hist)
            f = cop_fun(obj)
            for (a, b) in (((-3.0, 0.25), (-0.5, INF)), ((-INF, -1.25), (1.0, -0.5)), ((0.25, 0.25, -3.0), (2.5, 1.0, -0.5)), ((-1.25, -INF, 0.0), (1.0, 2.5, INF))):
                with np.errstate(all="ignore"):
                    v = float(volume(f, a, b))
                res.count(("reassign-vol", start, step, a, b), kind="clayton volume after re-assigning theta / eta")
                if not (v >= -1e-9):
                    viol("negative (or nan) volume of a rectangle", kind="increasing", copula=desc, a=list(a), b=list(b), got=v, **hist)
            for eps in (-1.0, 0.6):
                for x in (-3.0, -0.5, 0.25, 40.0, INF, -INF):
                    with np.errstate(all="ignore"):
                        got = float(obj.conditional_distribution(eps, np.array([x]))[0]); want = float(fresh.conditional_distribution(eps, np.array([x]))[0])
                    res.count(("reassign-cond", start, step, eps, x), kind="clayton conditional distribution after re-assigning")
                    if got != want:
                        viol("after re-assigning theta / eta the copula differs from a freshly constructed copula with the same parameters", kind="reassigned",
                             entry="conditional_distribution", copula=desc, eps=eps, x=x, got=got, fresh=want, **hist)
                if 0 < et < 1:
                    for u in (0.05, 0.5, 0.95):
                        if min(abs(u - et), abs(u - 1 + et)) < 1e-3:
                            continue
                        with np.errstate(all="ignore"):
                            got = float(obj.inverse_conditional_distribution(np.array([eps]), np.array([u]))[0])
                            want = float(fresh.inverse_conditional_distribution(np.array([eps]), np.array([u]))[0])
                        if got != want:
                            viol("after re-assigning theta / eta the copula differs from a freshly constructed copula with the same parameters",
                                 kind="reassigned", entry="inverse_conditional_distribution", copula=desc, eps=eps, u=u, got=got, fresh=want, **hist)
            for us in ((1.5, 0.8), (-1.2, 0.4), (1.0, 1.1, 0.9)):
                with np.errstate(all="ignore"):
                    got, want = float(obj.x_first_derivative(np.array(us))), float(fresh.x_first_derivative(np.array(us)))
                if got != want:
                    viol("after re-assigning theta / eta the copula differs from a freshly constructed copula with the same parameters", kind="reassigned",
                         entry="x_first_derivative", copula=desc, us=list(us), got=got, fresh=want, **hist)

    # ---- wave 6: (a) the closed-form inverse at u = 0, 1, at the plateau value and inside, against clayton_inv_x (Model/CopulaX6.v);
    #      (b) Clayton on all-infinite vectors against clayton_x / clayton_x_defined (nan <-> undefined) ------------------------------
    w6_cases = []
    inv_params = [(dsc[1], dsc[2]) for dsc, _ in clay if 0 < dsc[2] < 1] + [(3.0, 0.25), (0.7, 0.75)]
    for th, et in inv_params:
        cop6 = CM.make_copula(["clayton", th, et]); desc = ["clayton", th, et]; TH, ET = rlit(th), rlit(et)
        exact_plateau = Fraction(1) - Fraction(et) == Fraction(1.0 - et) and (1.0 - et) - 1 + et == 0.0    # the float computation is exact
        for eps in (-7.5, -1.0, -0.02, 0.02, 0.6, 12.0):
            plateau = (1.0 - et) if eps >= 0 else et
            for u in [0.0, 1.0] + ([plateau] if exact_plateau else []):
                with np.errstate(all="ignore"):
                    back = float(cop6.inverse_conditional_distribution(np.array([eps]), np.array([u]))[0])
                res.count(("invx", th, et, eps, u), kind="clayton inverse conditional distribution at 0 / 1 / plateau")
                res.bump("inverse_regime", "u=0" if u == 0 else "u=1" if u == 1 else "u=plateau")
                want = -INF if u == 0 else INF if u == 1 else 0.0
                if not back == want:
                    viol("inverse conditional distribution at an end point / at the plateau value does not invert the conditional distribution",
                         kind="cond_inverse_x", copula=desc, eps=eps, u=u, got=repr(back), expected=repr(want))
                    continue
                if u == 1.0:
                    w6_cases.append((f"clayton_inv_x {TH} {ET} {rlit(eps)} {rlit(u)} = PInf", "apply inv_x_at_1; lra."))
                elif u == 0.0:
                    w6_cases.append((f"clayton_inv_x {TH} {ET} {rlit(eps)} {rlit(u)} = NInf", "apply inv_x_at_0; lra."))
                else:
                    w6_cases.append((f"clayton_inv_x {TH} {ET} {rlit(eps)} {rlit(u)} = Fin 0",
                                     "apply inv_x_value_plateau; [lra | unfold plateau; decide_tests; lra]."))
            for u in (0.0625, 0.625):
                if min(abs(u - et), abs(u - 1 + et)) < 1e-2 or eps not in (-1.0, 0.6):
                    continue
                with np.errstate(all="ignore"):
                    back = float(cop6.inverse_conditional_distribution(np.array([eps]), np.array([u]))[0])
                res.count(("invx", th, et, eps, u), kind="clayton inverse conditional distribution (extended model, interior)")
                res.bump("inverse_regime", "interior")
                if math.isfinite(back):
                    w6_cases.append((f"Rabs (fin_val RNum (clayton_inv_x {TH} {ET} {rlit(eps)} {rlit(u)}) - {rlit(back)}) <= {rlit(tol_of(back) * 1000)}",
                                     "rewrite inv_x_interior by side6. cbn [fin_val]. cl6i. interval with (i_prec 90)."))
    for desc, cop in clay:
        th, et = desc[1], desc[2]
        TH, ET = rlit(th), rlit(et)
        for d in (1, 2, 3):
            for us in itertools.product([-INF, INF], repeat=d):
                with np.errstate(all="ignore"):
                    v = float(cop(np.array(us)))
                res.count(("clayton-xval", str(desc), us), kind=f"clayton all-infinite vector d={d}")
                res.bump("clayton_all_infinite", "nan" if math.isnan(v) else "+inf" if v > 0 else "-inf")
                neg = sum(1 for t in us if t < 0) % 2 == 1
                if 0 < et < 1 and not v == (-INF if neg else INF):
                    viol("Clayton copula on an all-infinite vector is not +-inf with the sign of the orthant", kind="xvalue", copula=desc, us=list(us), got=repr(v))
                    continue
                USL = lst([erlit(x) for x in us])
                if math.isnan(v):
                    w6_cases.append((f"clayton_x_defined {ET} {USL} = false", "clx."))
                elif math.isinf(v):
                    w6_cases.append((f"clayton_x_defined {ET} {USL} = true /\\ clayton_x {TH} {ET} {USL} = {'PInf' if v > 0 else 'NInf'}", "clx."))
                else:
                    res.broke("correspondence clayton_x", f"finite value {v} on the all-infinite vector {us} for {desc}")

    # the dependent copula's conditional_distribution (np.count_nonzero(x == np.inf)): every vector of the lattice in d-1 = 1, 2
    #      against the model dep_cond (exact, vm_compute); for x.size = 1 (d = 2) it must be a 0/1 non-decreasing function of x
    depc = CM.make_copula(["dep"])
    dc_cases = []
    for r in (1, 2):
        for x in itertools.product(LATTICE, repeat=r):
            for eps in (0.5, -2.0):
                got = depc.conditional_distribution(eps, np.array(x))
                res.count(("dep-cond", eps, tuple(x)), kind="dependent conditional distribution")
                want = sum(1 for t in x if t == INF)
                if got != want:
                    viol("DependentComponentsCopula.conditional_distribution does not count the +inf entries", kind="dep_cond", copula=["dep"],
                         eps=eps, x=[float(t) for t in x], got=int(got))
            dc_cases.append(f"({elist(x)}, {int(got)}%nat)")
    groups.append(("dep_cond", "list (ext Q) * nat", "fun c => Nat.eqb (dep_cond (fst c)) (snd c)", dc_cases))
    # the inverses that are NOT closed forms (audit3 D16): observed, not judged -- the generic Newton inverse of the base class is called
    # by scipy without a starting point and raises for every copula that does not override it; the dependent copula refuses explicitly
    from rpylib.distribution.levycopula import LevyCopula

    class _ClaytonThroughGenericInverse(LevyCopula):       # Clayton's conditional distribution, base-class (Newton) inverse
        def __init__(self, c):
            self.c = c

        def __call__(self, us):
            return self.c(us)

        def conditional_distribution(self, eps, x):
            return self.c.conditional_distribution(eps, np.atleast_1d(x))[0]
    for label, obj in (("independent", CM.make_copula(["indep"])), ("dependent", depc),
                       ("clayton-conditional + generic Newton", _ClaytonThroughGenericInverse(clay[0][1]))):
        res.count(("generic-inverse", label), kind="inverse conditional distribution without closed form")
        try:
            with np.errstate(all="ignore"):
                back = obj.inverse_conditional_distribution(np.array([0.6]), np.array([0.5]))
            res.bump("inverse_without_closed_form", f"{label}: returned")
            # if it ever returns, it must invert the conditional distribution it was given
            if label.startswith("clayton"):
                th, et = clay[0][0][1], clay[0][0][2]
                u = float(clay[0][1].conditional_distribution(0.6, np.atleast_1d(np.asarray(back, dtype=float)).ravel()[:1])[0])
                if not abs(u - 0.5) <= 1e-6:
                    viol("generic (Newton) inverse conditional distribution returned a value that does not invert the conditional distribution",
                         kind="generic_inverse", copula=clay[0][0], eps=0.6, u=0.5, got=float(np.ravel(back)[0]))
        except (ValueError, NotImplementedError, TypeError, RuntimeError) as e:
            res.bump("inverse_without_closed_form", f"{label}: raises {type(e).__name__}")

    # ============ Coq side ======================================================================================
    res.case_lemmas += len(groups)
    header = ("From Coq Require Import List Arith Bool ZArith QArith.\nFrom RV Require Import Base.QB Base.ExtNum Base.Corr Model.Copula Model.CopulaX.\nOpen Scope Q_scope.\n")
    bad = coq_bad_indices(PROP, "cases", header, groups, timeout=1500)
    for g, ty, chk, cases in groups:
        if bad[g]:
            res.broke(f"correspondence {g}", f"model and implementation differ on {len(bad[g])} of {len(cases)} case(s), first: {cases[bad[g][0]][:800]}")
        else:
            res.case_ok += 1
    _interval_cases(res, iv_cases)
    _interval_cases(res, iv_cases_w5, header=IV_HEADER_W5, tac="cl5", name="intervalx")
    _script_cases(res, w6_cases)


def _interval_cases(res, stmts, shard=60, header=IV_HEADER, tac="cl", name="interval"):
    shards = [stmts[i:i + shard] for i in range(0, len(stmts), shard)]

    def work(k):
        body = [header]
        for j, st in enumerate(shards[k]):
            body.append(f"Lemma case_{j} : {st}.\nProof. {tac}. interval with (i_prec 90). Qed.")
        rc, out = coq_eval_file(PROP, f"{name}_{k}", "\n".join(body) + "\n", timeout=900)
        return k, rc, out

    res.case_lemmas += len(stmts)
    with ThreadPoolExecutor(max_workers=12) as ex:
        for k, rc, out in ex.map(work, range(len(shards))):
            if rc == 0:
                res.case_ok += len(shards[k])
                continue
            # locate the first failing lemma of the shard from the error position
            import re
            m = re.search(r'line (\d+)', out)
            from common import run_dir
            txt = (run_dir(PROP) / f"{name}_{k}.v").read_text().splitlines() if m else []
            j = None
            if m:
                for ln in range(int(m.group(1)) - 1, -1, -1):
                    mm = re.match(r"Lemma case_(\d+) :", txt[ln]) if ln < len(txt) else None
                    if mm:
                        j = int(mm.group(1))
                        break
            res.case_ok += j or 0
            res.broke(f"correspondence {name}_{k}" + (f" case_{j}" if j is not None else ""),
                      (f"Interval could not certify: {shards[k][j][:700]}\n" if j is not None else "") + out[-800:])




def _script_cases(res, pairs, shard=80, header=None, name="w6x"):
    """(statement, proof script) pairs: like _interval_cases, each lemma with its own script"""
    header = header or IV_HEADER_W6
    shards = [pairs[i:i + shard] for i in range(0, len(pairs), shard)]

    def work(k):
        body = [header]
        for j, (st, script) in enumerate(shards[k]):
            body.append(f"Lemma case_{j} : {st}.\nProof. {script} Qed.")
        rc, out = coq_eval_file(PROP, f"{name}_{k}", "\n".join(body) + "\n", timeout=900)
        return k, rc, out

    res.case_lemmas += len(pairs)
    with ThreadPoolExecutor(max_workers=6) as ex:
        for k, rc, out in ex.map(work, range(len(shards))):
            if rc == 0:
                res.case_ok += len(shards[k])
            else:
                res.broke(f"correspondence {name}_{k}", out[-1200:])


def matches_known(v, known):
    """F-C11-1 absorbs ONLY: x_first_derivative != (mixed partial) * prod(u) where the implementation's value equals
    sign(prod u) * (closed-form mixed partial), recomputed here by mpmath from the replayed (theta, eta, u), to 1e-9 relative.
    A wrong magnitude (even by 1e-6), a nan, or another entry point is a new violation."""
    r = v["replay"]
    if known.get("id") != "F-C11-1" or r.get("kind") != "xfd":
        return False
    try:
        cop, us, xfd = r["copula"], [float(t) for t in r["u"]], float(r["x_first_derivative"])
        if cop[0] != "clayton" or not math.isfinite(xfd) or any(t == 0 for t in us):
            return False
        D = mixed_partial_mp(cop[1], cop[2], us)
    except Exception:
        return False
    return abs(xfd - math.copysign(1.0, math.prod(us)) * D) <= 1e-9 * max(abs(D), 1e-300)


def replay(path):
    data = json.load(open(path))
    print(json.dumps(data, indent=1)[:3000])
    if "copula" not in data:
        print("replay: no concrete input recorded (broken proof obligation / correspondence); re-run ./check C11")
        return 1
    from rpylib.model.levycopulamodel import volume, margin
    cop = CM.make_copula(data["copula"])
    kind = data.get("kind")
    with np.errstate(all="ignore"):
        if kind == "reassigned" or data.get("reassigned"):
            from rpylib.distribution.levycopula import ClaytonCopula
            th0, et0 = data["constructed_with"]
            obj = ClaytonCopula(theta=th0, eta=et0)
            obj(np.array([1.0, -2.0]))
            obj.theta = data["copula"][1]; obj.eta = data["copula"][2]
            fresh = CM.make_copula(data["copula"])
            us = np.array(data.get("us") or [data.get("u", [1.0])[0] if isinstance(data.get("u"), list) else 1.0, INF], dtype=float)
            if data.get("kind") == "margin":
                v = float(margin(obj, list(data["indices"]), data["dim"])(np.array(data["u"], dtype=float)))
                print("margin of the re-assigned copula =", v, "expected", data["u"][0])
                return 0 if abs(v - data["u"][0]) <= 1e-9 * max(1, abs(data["u"][0])) else 1
            a, b = float(obj(us)), float(fresh(us))
            print(f"constructed with {th0, et0}, re-assigned to {data['copula'][1:]}: copula({list(us)}) = {a}; fresh copula: {b}")
            return 0 if a == b else 1
        if kind in ("grounded", "value"):
            v = float(cop(np.array(data["us"], dtype=float)))
            print("copula(us) =", v)
            return 0 if (v == 0 if kind == "grounded" else math.isfinite(v)) else 1
        if kind == "increasing":
            v = float(volume(cop_fun(cop), tuple(data["a"]), tuple(data["b"])))
            print("volume =", v)
            return 0 if v >= -1e-9 else 1
        if kind == "margin":
            v = float(margin(cop, list(data["indices"]), data["dim"])(np.array(data["u"], dtype=float)))
            print("margin =", v, "expected", data["u"][0])
            return 0 if abs(v - data["u"][0]) <= 1e-9 * max(1, abs(data["u"][0])) else 1
        if kind in ("cond", "cond_mono", "cond_limits"):
            xs = data["x"] if isinstance(data.get("x"), list) else [data.get("x", INF)]
            vs = [float(cop.conditional_distribution(data["eps"], np.array([float(x)]))[0]) for x in xs] if kind != "cond_limits" else \
                [float(cop.conditional_distribution(data["eps"], np.array([x]))[0]) for x in (-INF, INF)]
            print("conditional_distribution ->", vs)
            ok = all(0 <= v <= 1 for v in vs) and all(a <= b + 1e-12 for a, b in zip(vs, vs[1:]))
            if kind == "cond_limits":
                ok = ok and abs(vs[0]) <= 1e-12 and abs(vs[-1] - 1) <= 1e-12
            return 0 if ok else 1
        if kind == "cond_inverse":
            back = float(cop.inverse_conditional_distribution(np.array([data["eps"]]), np.array([data["u"]]))[0])
            print("inverse ->", back, "expected", data["x"])
            return 0 if abs(back - data["x"]) <= 1e-6 * max(1, abs(data["x"])) else 1
        if kind == "cond_inverse_x":
            back = float(cop.inverse_conditional_distribution(np.array([data["eps"]]), np.array([data["u"]]))[0])
            print("inverse ->", back, "expected", data["expected"])
            return 0 if repr(back) == data["expected"] or back == float(data["expected"]) else 1
        if kind == "xvalue":
            v = float(cop(np.array([float(t) for t in data["us"]])))
            print("copula(us) =", v)
            neg = sum(1 for t in data["us"] if float(t) < 0) % 2 == 1
            return 0 if v == (-INF if neg else INF) else 1
        if kind == "dep_cond":
            got = int(cop.conditional_distribution(data["eps"], np.array(data["x"], dtype=float)))
            print("conditional_distribution =", got)
            return 0 if got == sum(1 for t in data["x"] if t == INF) else 1
        if kind == "xfd_zero":
            v = float(cop.x_first_derivative(np.array(data["u"], dtype=float)))
            print("x_first_derivative =", v)
            return 0 if v == 0 else 1
        if kind == "xfd":
            u = np.array(data["u"], dtype=float)
            xfd = float(cop.x_first_derivative(u))
            print("x_first_derivative =", xfd, " closed-form mixed partial =", data.get("mixed_partial"), " times product =",
                  data["mixed_partial_times_product"])
            return 0 if abs(xfd - data["mixed_partial_times_product"]) <= 5e-3 * abs(xfd) else 1
    return 1

"""C12 -- rectangle mass of a copula model is a measure consistent with its margins:
correspondence (generated fast paths + hand model of _mass_nd, run by vm_compute) and implementation oracle."""
import itertools
import json
import math
import random
from fractions import Fraction

import numpy as np

from common import qlit, lst, coq_bad_indices, coq_eval_file, CoqError
import copula_models as CM
from copula_models import INF, elit, elist, idxlit

PROP = "C12"
PROPERTY_FILE = "Properties/C12.v"
GEN_DEPS = ["GenC12Mass"]
RULE = ("cases: (model, rectangle, index subset); models = dyadic step margins x {independent, completely dependent} (exact) and "
        "HEM/Merton/CGMY/VG margins x {Clayton, independent, dependent} (tolerance); rectangles cover every combination of interval "
        "kinds per coordinate (negative/positive/straddling x finite/-inf/+inf/end point 0) that does not contain the origin; index "
        "subsets None, full, pairs, singles; end points / split points written as the IEEE negative zero -0.0 must behave as 0.0 in every call order (fresh and reused model); a rectangle with end point 0 on an infinite-activity margin (U_i(0)=inf) may have mass +inf (accepted), nan only if every coordinate interval touches 0 (true mass infinite); non-trivial = distinct (model, a, b, indices) with a non-degenerate rectangle")
MODELLED = [
    "_mass_nd, margin_tail_integral, tail_integrals, marginal_tail_integral, volume, margin, Independent/DependentComponentsCopula: "
    "hand models (Model/MassNd.v, Model/Copula.v) tied by exact vm_compute correspondence on dyadic step margins",
    "a tuple/list of the wrong length makes the Python code raise; the generated model returns 0 there (all theorems carry the shape)",
    "functools.lru_cache on marginal_tail_integral: modelled as a pure memo (exercised by re-evaluating shuffled rectangles)",
    "inverse_tail_integral (scipy toms748): not modelled, implementation round trip U(U^-1(y)) = y in the oracle only",
    "joint density (nquad of the Clayton mixed derivative x marginal densities): implementation oracle only (thorough tier)",
    "copula values at vectors whose entries are all infinite (code returns +-inf): reached only by rectangles whose every coordinate "
    "touches 0 (origin in the closure) -- outside the property; indep_x / dep_x model those values exactly (C11)",
]
ASSUMPTIONS = [
    "block 1 (abstract family): UI_inf (a tail integral with an infinite coordinate is 0) and UI_one (the {i}-margin is the marginal tail "
    "integral), both only for VALID index lists (NoDup, entries < d) and matching lengths -- PROVED for margin_tail_integral in "
    "C12_modelled_family from groundedness (C11) and V_i(+-inf) = 0",
    "C12_nonneg_*: tails_ok V (V_i(+-inf) = 0, V_i non-increasing in the extended order on each side of 0; V may be +inf at 0) and "
    "fin_side (some coordinate interval does not straddle 0 and has finite tail integrals at both ends: any interval away from 0, or any "
    "non-straddling interval of a finite-activity margin); copula2_ok / copula3_ok are THEOREMS for the three copulas (C11)",
    "scope of the property on the implementation: rectangles with at least one coordinate interval whose closure does not contain 0; a "
    "rectangle touching 0 in every coordinate has the origin in its closure (possibly infinite mass, inf - inf in floats) and is only counted",
]
THEOREM_NOTES = {
    "C12_inverse_tail_partial": "not a theorem: inverse_tail_integral is a bracketing root search, covered by the implementation oracle only",
    "C12_density": "not a theorem: equality with the integral of the implied joint density is checked numerically (thorough tier)",
    "F-C12-1 / F-C12-2": "fixed in /repo (f5cd713, 5ccfc9d); the oracle keeps sweeping end points 0 and infinite-activity margins",
    "F-C12-3 / F-C12-4": "known: on an infinite-activity margin U_i(0) = +inf makes the end point 0 flip per coordinate and side; the independent "
                         "copula then returns the axis mass under the flipped convention (F-C12-3) or nan = inf - inf where the true mass is +inf "
                         "(F-C12-4). The oracle judges the independent copula against its TRUE mass (+inf included) on every rectangle not "
                         "containing the origin; matches_known recomputes truth and prediction from the replayed input",
    "F-C12-5": "fixed in /repo (069cf33): integer end points; the oracle sweeps int / np.int64 end points on fresh and warm models",
}
LEVEL_TEXT = ("Proof: 11 Coq theorems about the py2coq-generated _mass_1d/_mass_2d/_mass_3d (one generated term, instantiated over extended "
              "reals for the proofs and over extended rationals to run). For every rectangle that does not contain the origin (each coordinate "
              "negative, positive or straddling zero, finite or infinite end points) and every valid index list the hard-coded 2-d and 3-d "
              "formulas equal the general recursion _mass_nd; splitting any coordinate at any point, zero included, preserves the mass; letting "
              "a coordinate range over the whole line gives the mass of the remaining sub-family. The two hypotheses on the tail-integral "
              "family are proved for the family the code builds (margin_tail_integral) from any grounded copula and tails vanishing at "
              "infinity, so these results hold without hypotheses for the independent, dependent and Clayton copulas. The mass is "
              "non-negative for every Levy copula in the sense of C11 -- in particular, by theorem, for the three copulas in d = 2 and 3 -- "
              "with extended-valued marginal tails (U_i(0) = +inf for infinite activity), whenever some coordinate interval does not straddle 0 "
              "and has finite tails at its ends. Tie: exact vm_compute correspondence on dyadic step margins x {independent, dependent} over "
              "all sign patterns / infinite end points / index subsets; Clayton + margin + mass computed end to end in Coq (Interval, 1e-9) "
              "on step margins; table-fed 1e-9 comparison on HEM/Merton/CGMY/VG; the independent copula is compared with its true mass. "
              "Partial: inverse tail integral and equality with the joint-density integral are oracle checks only.")
LEVEL_NOTE = ("Trusted: Coq kernel + vm_compute, standard real-number axioms; py2coq + plug-in py2coq_ext_copula (fail-closed, "
              "cross-checked by running the generated term against the implementation); numpy/lru_cache semantics; the hypotheses "
              "on the abstract tail-integral family / copula listed under assumptions.")
TECHNIQUE = ("Coq proof (case split on straddle flags + ring/lra) on py2coq-generated definitions; vm_compute correspondence on "
             "exact dyadic step models; table-fed tolerance correspondence for transcendental models")

TOL_REL = 1e-9
TOL_ABS = 1e-11

HEADER = ("From Coq Require Import List Arith Bool ZArith QArith Qabs.\n"
          "From RV Require Import Base.QB Base.ExtNum Base.Corr Model.Copula Gen.GenC12Mass Model.MassNd.\nOpen Scope Q_scope.\n"
          "Definition ext_eqb (x y : ext Q) : bool := match x, y with NInf, NInf => true | PInf, PInf => true | Fin a, Fin b => Qeq_bool a b | _, _ => false end.\n"
          "Fixpoint lookup (tab : list (list nat * list (ext Q) * Q)) (J : list nat) (x : list (ext Q)) : Q :=\n"
          "  match tab with nil => 1000000007 | cons (k, v) r => if andb (list_eqb Nat.eqb (fst k) J) (list_eqb ext_eqb (snd k) x) then v else lookup r J x end.\n"
          "Definition UItab tab (i : idx) x : Q := match i with Some J => lookup tab J x | None => 1000000007 end.\n"
          "Definition U1tab tab (i : nat) (x : ext Q) : Q := lookup tab (cons i nil) (cons x nil).\n"
          "Definition close (x y tol : Q) : bool := Qle_bool (Qabs (x - y)) tol.\n"
          "Definition pinf_V (M : list (list (Q * Q * Q))) (i : nat) (x : ext Q) : ext Q := match x with Fin v => if Qeq_bool v 0 then PInf else Fin (step_U1 M i x) | _ => Fin 0 end.\n"
          "Definition fastQ (d : nat) U1 UI a b i : Q := if Nat.eqb d 2 then fast_2d QNum U1 UI a b i else fast_3d QNum U1 UI a b i.\n")


def _same_or_nan_pair(x, y):
    if math.isnan(x) or math.isnan(y):
        return math.isnan(x) and math.isnan(y)
    if math.isinf(x) or math.isinf(y):
        return x == y
    return close(x, y, max(1e-3, abs(x)))


def close(x, y, scale=1.0):
    return abs(x - y) <= TOL_ABS + TOL_REL * max(abs(x), abs(y), scale)


def index_subsets(dim):
    subs = [None, list(range(dim))]
    if dim == 3:
        subs += [[0, 1], [0, 2], [1, 2]]
    subs += [[i] for i in range(dim)]
    return subs


def restrict(a, b, indices, dim):
    if indices is None or len(indices) == dim:
        return tuple(a), tuple(b)
    return tuple(a[i] for i in indices), tuple(b[i] for i in indices)


def contains_origin(a, b):
    return all(x < 0 <= y for x, y in zip(a, b))


def step_points():
    pos = [k / 8 for k in (1, 2, 3, 5, 8, 11, 16, 20)]
    return pos, [-x for x in reversed(pos)]


REAL_POS = [0.002, 0.01, 0.03, 0.05, 0.1, 0.25, 0.6]
REAL_NEG = [-x for x in reversed(REAL_POS)]


def call_mass(model, fn, a, b, indices):
    """evaluate a mass function; a/b are tuples.  _mass_2d(a,b,[i]) wants 1-tuples etc."""
    f = {"fast": model.mass, "nd": model._mass_nd}[fn]
    if indices is None:
        return float(f(tuple(a), tuple(b)))
    return float(f(tuple(a), tuple(b), list(indices)))


# ------------------------------------------------------------------------------------------------------------
def correspond(res):
    rng = random.Random(res.seed)
    tier = res.tier
    groups = []

    def viol(what, **kw):
        res.violation(what, dict(kw))

    # ================= A. exact: dyadic step margins x {indep, dep} ===========================================
    pos, neg = step_points()
    n_models = 3 if tier == "quick" else 12
    for dim in (2, 3):
        for k in range(n_models):
            margins = [CM.random_step_margin(rng) for _ in range(dim)]
            for cop in (["indep"], ["dep"]):
                model = CM.make_model(margins, cop)
                rects = CM.rectangles(rng, dim, pos, neg, n_random=(60 if tier == "quick" else 400) if dim == 3 else 0)
                cases, ui_cases = [], []
                evals = []
                for (a, b, kinds) in rects:
                    for ind in index_subsets(dim):
                        aa, bb = restrict(a, b, ind, dim)
                        if contains_origin(aa, bb):
                            continue
                        evals.append((aa, bb, ind, kinds))
                vals = {}
                for (aa, bb, ind, kinds) in evals:
                    vf = call_mass(model, "fast", aa, bb, ind)
                    vn = call_mass(model, "nd", aa, bb, ind)
                    vals[(aa, bb, tuple(ind) if ind else None)] = (vf, vn)
                    res.count(("step", dim, k, cop[0], aa, bb, ind), nontrivial=all(x < y for x, y in zip(aa, bb)), kind=f"exact d={dim} {cop[0]}")
                    res.bump("straddling_coordinates", sum(1 for x, y in zip(aa, bb) if x < 0 <= y))
                    res.bump("infinite_end_points", sum(1 for x in aa + bb if math.isinf(x)))
                    res.bump("index_subset", "None" if ind is None else len(ind))
                    desc = dict(margins=margins, copula=cop, a=list(aa), b=list(bb), indices=ind)
                    if not (math.isfinite(vf) and math.isfinite(vn)):
                        viol("mass is not finite on a rectangle that does not contain the origin", kind="mass", fast=vf, nd=vn, **desc)
                        continue
                    if vf != vn:
                        viol("fast path and _mass_nd differ (exact dyadic model)", kind="fast_vs_nd", fast=vf, nd=vn, **desc)
                    if vf < 0:
                        viol("negative rectangle mass", kind="nonneg", fast=vf, **desc)
                    if cop[0] == "indep":
                        _indep_truth(res, model, list(range(dim)) if ind is None else ind, aa, bb, vf, desc, [False] * dim, exact=True, viol=viol)
                    cases.append(f"({elist(aa)}, {elist(bb)}, {idxlit(ind)}, {qlit(vf)}, {qlit(vn)})")
                # IEEE negative zero as an end point (e.g. from -np.array([0.0, b])): same rectangle, must give the same mass as +0.0;
                # evaluated on a FRESH model (the lru cache conflates 0.0 and -0.0) and sent to the Coq model as the rational 0
                nz = [(aa, bb, ind) for (aa, bb, ind, kinds) in evals if any(x == 0 for x in aa + bb)]
                rng.shuffle(nz)
                fresh = CM.make_model(margins, cop)
                for (aa, bb, ind) in nz[:25 if tier == "quick" else 120]:
                    na = tuple(-0.0 if x == 0 else x for x in aa); nb = tuple(-0.0 if x == 0 else x for x in bb)
                    vf = call_mass(fresh, "fast", na, nb, ind); vn = call_mass(fresh, "nd", na, nb, ind)
                    res.count(("negzero-exact", dim, k, cop[0], aa, bb, ind), kind="negative-zero end point (exact)")
                    want = vals[(aa, bb, tuple(ind) if ind else None)]
                    if (vf, vn) != want:
                        viol("a rectangle written with -0.0 has a different mass than the same rectangle written with 0.0", kind="negzero",
                             margins=margins, copula=cop, a=list(aa), b=list(bb), indices=ind, order="fresh model, -0.0 first",
                             with_negative_zero=[vf, vn], with_zero=list(want))
                    if math.isfinite(vf) and math.isfinite(vn):
                        cases.append(f"({elist(na)}, {elist(nb)}, {idxlit(ind)}, {qlit(vf)}, {qlit(vn)})")
                # lru cache / order independence: re-evaluate in shuffled order on the same object
                order = list(evals)
                rng.shuffle(order)
                for (aa, bb, ind, kinds) in order[:200]:
                    if (call_mass(model, "fast", aa, bb, ind), call_mass(model, "nd", aa, bb, ind)) != vals[(aa, bb, tuple(ind) if ind else None)] \
                            and all(math.isfinite(v) for v in vals[(aa, bb, tuple(ind) if ind else None)]):
                        viol("mass depends on the evaluation order (cache)", kind="cache", margins=margins, copula=cop, a=list(aa), b=list(bb), indices=ind)
                # exact additivity and margin consistency on the implementation
                _additivity_oracle(res, rng, model, dict(margins=margins, copula=cop), rects, dim, pos, neg, exact=True, viol=viol,
                                   n=60 if tier == "quick" else 300)
                _margin_oracle(res, rng, model, dict(margins=margins, copula=cop), dim, pos, neg, exact=True, viol=viol)
                # margin_tail_integral itself
                pts = [-INF, neg[0], neg[3], neg[-1], 0.0, pos[0], pos[4], pos[-1], INF]
                for ind in index_subsets(dim)[1:]:
                    xs_all = list(itertools.product(pts, repeat=len(ind)))
                    rng.shuffle(xs_all)
                    for xs in xs_all[:40 if tier == "quick" else 200]:
                        v = float(model.margin_tail_integral(list(ind), iter(xs)))
                        res.count(("ui", dim, k, cop[0], tuple(ind), xs), kind="margin_tail_integral")
                        if any(math.isinf(x) for x in xs) and v != 0:
                            viol("tail integral with an infinite coordinate is not 0", kind="ui_inf", margins=margins, copula=cop, indices=ind, x=list(xs), got=v)
                        ui_cases.append(f"({idxlit(ind)}, {elist(xs)}, {qlit(v)})")
                g = f"m{dim}_{k}_{cop[0]}"
                M = CM.margins_lit(margins)
                ck = "Indep" if cop[0] == "indep" else "Dep"
                full = lst([f"{i}%nat" for i in range(dim)])
                groups.append((g, "list (ext Q) * list (ext Q) * idx * Q * Q",
                               f"fun c => match c with (a, b, i, vf, vn) => Qeq_bool (fastQ {dim} (step_U1 {M}) (step_UI {ck} {M}) a b i) vf && "
                               f"Qeq_bool (mass_nd_top QNum (step_UI {ck} {M}) {full} a b i) vn end", cases))
                groups.append((g + "_ui", "idx * list (ext Q) * Q",
                               f"fun c => match c with (i, x, v) => Qeq_bool (step_UI {ck} {M} i x) v end", ui_cases))

    # ================= A2. exact, PInf-tailed margins: U_i(0) = +inf (infinite mass next to 0), dyadic elsewhere ===========
    # in-scope rectangles only (some coordinate away from 0 => every tail integral that is read with a finite result is exact)
    pinf_cases = []
    for dim in (2, 3):
        for k in range(2 if tier == "quick" else 6):
            base = [CM.random_step_margin(rng) for _ in range(dim)]
            margins = [["stepinf", m[1]] for m in base]
            for cop in (["indep"], ["dep"]):
                model = CM.make_model(margins, cop)
                rects = CM.rectangles(rng, dim, pos, neg, n_random=80 if dim == 3 else 0)
                rng.shuffle(rects)
                n_here = 0
                for (a, b, kinds) in rects:
                    if n_here >= (60 if tier == "quick" else 200):
                        break
                    if all(x <= 0 <= y for x, y in zip(a, b)) or not any(x == 0 for x in a):
                        continue          # keep rectangles with a lower end point 0 and a coordinate away from 0
                    with np.errstate(all="ignore"):
                        vf = call_mass(model, "fast", a, b, None); vn = call_mass(model, "nd", a, b, None)
                    res.count(("pinf", dim, k, cop[0], a, b), kind=f"exact PInf-tailed d={dim} {cop[0]}")
                    if not (math.isfinite(vf) and math.isfinite(vn)):
                        res.bump("pinf_tailed_not_finite", 1)
                        continue
                    if vf != vn or vf < 0:
                        viol("PInf-tailed exact model: fast path and _mass_nd differ / negative mass", kind="fast_vs_nd", fast=vf, nd=vn,
                             margins=margins, copula=cop, a=list(a), b=list(b), indices=None)
                    n_here += 1
                    M = CM.margins_lit(base)
                    ck = "Indep" if cop[0] == "indep" else "Dep"
                    pinf_cases.append(f"({dim}%nat, {M}, {ck}, {elist(a)}, {elist(b)}, {qlit(vf)})")
    groups.append(("pinf", "nat * list (list (Q * Q * Q)) * copula_kind * list (ext Q) * list (ext Q) * Q",
                   "fun c => match c with (d, M, ck, a, b, v) => Qeq_bool (fastQ d (tail_val QNum (pinf_V M)) "
                   "(margin_tail_integral QNum (pinf_V M) (copula_q ck) (length M)) a b None) v end", pinf_cases))

    # ================= B. tolerance: real margins x {Clayton, indep, dep}; tail integrals fed as data ========
    real_models = [
        (2, [["hem"], ["merton"]], ["clayton", 0.7, 0.3]),
        (2, [["cgmy"], ["hem2"]], ["clayton", 2.5, 0.8]),
        (2, [["vg"], ["cgmy2"]], ["clayton", 0.3, 0.0]),
        (2, [["merton2"], ["hem"]], ["clayton", 1.0, 1.0]),
        (2, [["hem"], ["cgmy"]], ["indep"]),
        (2, [["merton"], ["vg"]], ["dep"]),
        (2, [["cgmy"], ["vg"]], ["indep"]),
        (2, [["cgmy2"], ["cgmy"]], ["dep"]),
        (3, [["hem"], ["merton"], ["cgmy"]], ["clayton", 0.7, 0.3]),
        (3, [["cgmy2"], ["vg"], ["hem2"]], ["clayton", 1.8, 0.55]),
        (3, [["merton"], ["hem2"], ["merton2"]], ["indep"]),
        (3, [["hem"], ["cgmy"], ["vg"]], ["dep"]),
        (3, [["cgmy"], ["vg"], ["cgmy2"]], ["indep"]),
    ]
    if tier == "thorough":
        real_models += [(d, m, ["clayton", th, et]) for (d, m, _) in real_models[:2] + real_models[6:8]
                        for th, et in ((0.1, 0.5), (5.0, 0.2), (1.0, 0.0))]
    tab_cases = []
    for (dim, margins, cop) in real_models:
        model = CM.make_model(margins, cop)
        infinite_activity = [m[0] in ("cgmy", "cgmy2", "vg") for m in margins]
        rects = CM.rectangles(rng, dim, REAL_POS, REAL_NEG, n_random=(40 if tier == "quick" else 250) if dim == 3 else 0)
        desc0 = dict(margins=margins, copula=cop)
        n_tab = 0
        for (a, b, kinds) in rects:
            for ind in index_subsets(dim):
                aa, bb = restrict(a, b, ind, dim)
                if contains_origin(aa, bb):
                    continue
                idxs = list(range(dim)) if ind is None else ind
                zero_on_inf_act = any((x == 0 or y == 0) and infinite_activity[i] for i, x, y in zip(idxs, aa, bb))
                with np.errstate(all="ignore"):
                    vf = call_mass(model, "fast", aa, bb, ind)
                    vn = call_mass(model, "nd", aa, bb, ind)
                res.count(("real", dim, str(margins), str(cop), aa, bb, ind), nontrivial=all(x < y for x, y in zip(aa, bb)), kind=f"tolerance d={dim} {cop[0]}")
                res.bump("straddling_coordinates", sum(1 for x, y in zip(aa, bb) if x < 0 <= y))
                desc = dict(a=list(aa), b=list(bb), indices=ind, **desc0)
                touches = [x <= 0 <= y for x, y in zip(aa, bb)]       # the CLOSED interval contains 0
                if cop[0] == "indep":
                    # the true mass is known (axis measure), +inf included: judged on every rectangle not containing the origin
                    _indep_truth(res, model, idxs, aa, bb, vf, desc, infinite_activity, exact=False, viol=viol)
                    if not _same_or_nan_pair(vf, vn):
                        viol("fast path and _mass_nd differ", kind="fast_vs_nd", fast=vf, nd=vn, **desc)
                if all(touches) and zero_on_inf_act:
                    # every coordinate touches 0 and some U_i(0) = +inf: the mass may be +inf and the formula evaluates inf - inf.
                    # Dependent / Clayton: no independent truth here; a finite NEGATIVE value is still a violation.
                    res.bump("origin_in_closure_infinite_tail", "inf" if vf == INF else ("nan" if math.isnan(vf) else "finite"))
                    if math.isfinite(vf) and vf < -TOL_ABS:
                        viol("negative rectangle mass", kind="nonneg", fast=vf, **desc)
                    continue
                elif zero_on_inf_act:
                    res.bump("in_scope_zero_end_point_on_infinite_activity_margin", 1)
                with np.errstate(all="ignore"):
                    scale = max([1e-3] + [abs(float(model.marginal_tail_integral(i, x))) for i, xs in zip(idxs, zip(aa, bb)) for x in xs
                                          if math.isfinite(x)])
                if not (math.isfinite(vf) and math.isfinite(vn)):
                    viol("mass is not finite on a rectangle that does not contain the origin", kind="mass", fast=vf, nd=vn, **desc)
                    continue
                if not close(vf, vn, scale):
                    viol("fast path and _mass_nd differ", kind="fast_vs_nd", fast=vf, nd=vn, **desc)
                if vf < -(TOL_ABS + TOL_REL * scale):
                    viol("negative rectangle mass", kind="nonneg", fast=vf, **desc)
                # table of the tail integrals the two formulas may read
                if n_tab < (25 if tier == "quick" else 120) and (ind is None or len(ind) >= 2):
                    tab = _tail_table(model, idxs, aa, bb)
                    if tab is not None:
                        n_tab += 1
                        tol = Fraction(TOL_ABS + TOL_REL * scale).limit_denominator(10 ** 15)
                        full = lst([f"{i}%nat" for i in range(dim)])
                        tab_cases.append(f"({dim}%nat, {full}, {tab}, {elist(aa)}, {elist(bb)}, {idxlit(ind)}, {qlit(vf)}, {qlit(vn)}, {qlit(tol)})")
        _additivity_oracle(res, rng, model, desc0, rects, dim, REAL_POS, REAL_NEG, exact=False, viol=viol, n=40 if tier == "quick" else 250,
                           infinite_activity=infinite_activity)
        _margin_oracle(res, rng, model, desc0, dim, REAL_POS, REAL_NEG, exact=False, viol=viol)
        _inverse_oracle(res, model, desc0, dim, viol)
    groups.append(("table", "nat * list nat * list (list nat * list (ext Q) * Q) * list (ext Q) * list (ext Q) * idx * Q * Q * Q",
                   "fun c => match c with (d, full, tab, a, b, i, vf, vn, tol) => "
                   "close (fastQ d (U1tab tab) (UItab tab) a b i) vf tol && close (mass_nd_top QNum (UItab tab) full a b i) vn tol end",
                   tab_cases))
    if tier == "thorough":
        _density_oracle(res, viol)
    _negative_zero_oracle(res, rng, viol)
    _integer_endpoints_oracle(res, viol)
    _end_to_end(res, rng, viol)

    # ================= Coq side ================================================================================
    res.case_lemmas += len(groups)
    bad = coq_bad_indices(PROP, "cases", HEADER, groups, timeout=1500)
    for g, ty, chk, cases in groups:
        if bad[g]:
            res.broke(f"correspondence {g}", f"model and implementation differ on {len(bad[g])} of {len(cases)} case(s), first: {cases[bad[g][0]][:1500]}")
        else:
            res.case_ok += 1


INF_ACT = ("cgmy", "cgmy2", "vg")


def _nu_punctured(model, idx, x, y):
    """nu_idx((x, y] minus {0}) for x <= y: +inf when the interval touches 0 on an infinite-activity margin"""
    nu = model.models[idx].levy_triplet.nu
    with np.errstate(all="ignore"):
        if x < 0 < y or x == 0 or y == 0:
            lo = float(nu.integrate(x, 0.0)) if x < 0 else 0.0
            hi = float(nu.integrate(0.0, y)) if y > 0 else 0.0
            return lo + hi
        return float(nu.integrate(x, y))


def indep_axis_mass(model, idxs, a, b, contains0):
    """mass of the rectangle prod (a_k, b_k] under INDEPENDENT components: the Levy measure sits on the axes, so
         mass = sum_k [0 in I_j for every j != k] * nu_k(I_k minus {0}).
    `contains0(j, a_j, b_j)` says whether 0 is a point of the j-th interval: the TRUE convention is a_j < 0 <= b_j."""
    n = len(a)
    c = [contains0(j, a[j], b[j]) for j in range(n)]
    tot = 0.0
    for k in range(n):
        if all(c[j] for j in range(n) if j != k):
            tot += _nu_punctured(model, idxs[k], a[k], b[k])
    return tot


def indep_truth_and_prediction(model, margins, idxs, a, b):
    """(true mass, mass predicted by the recorded defect F-C12-3).  F-C12-3: on an infinite-activity margin U_i(0) = +inf stands for
    the whole closed half-line, so PER COORDINATE and PER SIDE the end point 0 flips: (0, b_i] behaves as [0, b_i] (contains 0) and
    (a_i, 0] behaves as (a_i, 0) (does not); finite-activity coordinates keep the true convention."""
    true_c = lambda j, x, y: x < 0 <= y
    inf_act = [margins[idxs[j]][0] in INF_ACT for j in range(len(a))]
    shifted = lambda j, x, y: (x <= 0 < y) if inf_act[j] else (x < 0 <= y)
    return indep_axis_mass(model, idxs, a, b, true_c), indep_axis_mass(model, idxs, a, b, shifted)


def _indep_ref(us):
    """independent Levy copula on extended floats as the (repaired) code defines it: sum_k u_k * prod_{j != k} [u_j == +inf]"""
    tot = 0.0
    for k, u in enumerate(us):
        if all(v == INF for j, v in enumerate(us) if j != k):
            tot += u
    return tot


def mass_nd_reference(model, dim, idxs, a, b):
    """float re-evaluation (with IEEE inf / nan) of the recorded formula: _mass_nd over the independent copula with the implementation's
    own marginal tail integrals U_i (so U_i(0) = +inf on an infinite-activity margin).  Used ONLY to decide whether a nan is the recorded
    inf - inf of F-C12-4; it mirrors Model/MassNd.v (mass_nd, volume, margin)."""
    def U(i, x):
        with np.errstate(all="ignore"):
            return float(model.marginal_tail_integral(i, float(x)))

    def UI(ind, xs):
        if len(ind) == 1:
            return U(ind[0], xs[0])
        us = dict(zip(ind, [U(i, x) for i, x in zip(ind, xs)]))
        rest = [i for i in range(dim) if i not in ind]
        tot = 0.0
        for p in itertools.product([-INF, INF], repeat=len(rest)):
            full = [us[i] if i in us else p[rest.index(i)] for i in range(dim)]
            sgn = math.prod(-1.0 if q < 0 else 1.0 for q in p)
            with np.errstate(all="ignore"):
                tot += _indep_ref(full) * sgn
        return tot

    def rec(ind, a, b):
        for k, (x, y) in enumerate(zip(a, b)):
            if x < 0 <= y:
                a1 = list(a); b1 = list(b); a1[k], b1[k] = y, INF
                a2 = list(a); b2 = list(b); a2[k], b2[k] = -INF, x
                with np.errstate(all="ignore"):
                    return rec(ind[:k] + ind[k + 1:], a[:k] + a[k + 1:], b[:k] + b[k + 1:]) - rec(ind, a1, b1) - rec(ind, a2, b2)
        n, tot = len(a), 0.0
        for p in itertools.product([0, 1], repeat=n):
            xs = [a[i] if p[i] == 0 else b[i] for i in range(n)]
            with np.errstate(all="ignore"):
                tot += (-1 if (n - sum(p)) % 2 else 1) * UI(ind, xs)
        return (-1 if n % 2 else 1) * tot
    return rec(list(idxs), list(a), list(b))


def _same(x, y, exact=False):
    if math.isinf(x) or math.isinf(y):
        return x == y
    return (x == y) if exact else close(x, y, max(1e-3, abs(y)))


def _indep_truth(res, model, idxs, a, b, got, desc, infinite_activity, exact, viol):
    """independent copula: judge EVERY rectangle that does not contain the origin as a point (not all a_j < 0 <= b_j) against its true
    mass, +inf included (an axis segment next to 0 of an infinite-activity margin); nan is never the true value."""
    truth, pred = indep_truth_and_prediction(model, desc["margins"], idxs, a, b)
    res.count(("indep-truth", str(desc.get("margins")), tuple(a), tuple(b), tuple(idxs)), kind="independent copula: true mass")
    res.bump("independent_true_mass", "inf" if truth == INF else ("zero" if truth == 0 else "finite"))
    if not math.isnan(got) and _same(got, truth, exact):
        return
    tagged = truth != pred and (((math.isnan(got) or got == INF) and pred == INF) or (math.isfinite(pred) and not math.isnan(got) and _same(got, pred, exact)))
    nan_for_inf = math.isnan(got) and truth == INF and math.isnan(mass_nd_reference(model, len(desc["margins"]), idxs, a, b))
    viol("independent copula: rectangle mass differs from the true mass (measure concentrated on the axes)"
         + (" -- end point 0 on an infinite-activity margin" if tagged else "") + (" -- nan where the mass is +inf" if nan_for_inf else ""),
         kind="indep_truth", finding="F-C12-3" if tagged else ("F-C12-4" if nan_for_inf else None), expected=truth, got=got,
         predicted_by_F_C12_3=pred, **desc)


def matches_known(v, known):
    """F-C12-3 absorbs ONLY what the recorded defect predicts, recomputed here from the replayed input (not from a flag): independent
    copula; the true axis mass and the mass under the per-coordinate / per-side flipped convention at end points 0 of infinite-activity
    margins differ; and the implementation returned exactly the flipped-convention value (finite: to 1e-9; +inf: inf or the nan of
    inf - inf).  Anything else -- a finite-activity coordinate returning a margin, another magnitude, another copula -- is new."""
    r = v["replay"]
    if known.get("id") not in ("F-C12-3", "F-C12-4") or r.get("kind") != "indep_truth" or r.get("copula") != ["indep"]:
        return False
    try:
        model = CM.make_model(r["margins"], r["copula"])
        a, b = tuple(float(x) for x in r["a"]), tuple(float(x) for x in r["b"])
        idxs = list(range(len(r["margins"]))) if r.get("indices") is None else list(r["indices"])
        truth, pred = indep_truth_and_prediction(model, r["margins"], idxs, a, b)
        got = float(r["got"])
    except Exception:
        return False
    if known.get("id") == "F-C12-4":
        # nan (inf - inf) where the true mass AND the flipped-convention mass are +inf: an axis segment next to 0 of an
        # infinite-activity margin lies in the rectangle
        return math.isnan(got) and truth == INF and math.isnan(mass_nd_reference(model, len(r["margins"]), idxs, a, b))
    if truth == pred:
        return False
    if pred == INF:
        return math.isnan(got) or got == INF
    return not math.isnan(got) and _same(got, pred)


def _tail_table(model, idxs, a, b):
    """all tail integrals  U_J(x)  for J a sub-list of idxs and x_k in {a_k, b_k, -inf, +inf}: exactly what the
    implementation returns, as exact rationals (None if one of them is not finite)."""
    rows = []
    n = len(idxs)
    for r in range(1, n + 1):
        for pos in itertools.combinations(range(n), r):
            J = [idxs[p] for p in pos]
            for xs in itertools.product(*[sorted({a[p], b[p], -INF, INF}) for p in pos]):
                with np.errstate(all="ignore"):
                    v = float(model.margin_tail_integral(list(J), iter(xs)))
                if not math.isfinite(v):
                    return None
                rows.append(f"(({lst([f'{j}%nat' for j in J])}, {elist(xs)}), {qlit(v)})")
    return lst(rows)


def _additivity_oracle(res, rng, model, desc0, rects, dim, pos, neg, exact, viol, n, infinite_activity=None):
    pts = sorted(set(neg + [0.0] + pos))
    sample = list(rects)
    rng.shuffle(sample)
    done = 0
    for (a, b, kinds) in sample:
        if done >= n:
            break
        k = rng.randrange(dim)
        inside = [c for c in pts if a[k] < c < b[k]]
        if not inside:
            continue
        if 0.0 in inside and rng.random() < 0.5:
            c = 0.0
        else:
            c = rng.choice(inside)
        if infinite_activity and c == 0.0 and infinite_activity[k]:
            continue
        if infinite_activity and any((x == 0 or y == 0) and infinite_activity[i] for i, (x, y) in enumerate(zip(a, b))):
            continue
        bl = list(b); bl[k] = c
        ar = list(a); ar[k] = c
        with np.errstate(all="ignore"):
            whole = call_mass(model, "fast", a, b, None)
            left = call_mass(model, "fast", a, tuple(bl), None)
            right = call_mass(model, "fast", tuple(ar), b, None)
        done += 1
        res.count(("add", str(desc0), a, b, k, c), kind="additivity " + ("split at 0" if c == 0 else "split"))
        res.bump("split_point_is_zero", c == 0.0)
        ok = (whole == left + right) if exact else close(whole, left + right, max(abs(left), abs(right), 1e-3))
        if not ok:
            viol("mass is not additive when a coordinate interval is split", kind="additive", a=list(a), b=list(b), coordinate=k, split=c,
                 whole=whole, left=left, right=right, **desc0)
        for (pa, pb, v) in ((a, tuple(bl), left), (tuple(ar), b, right)):
            if v < -(0 if exact else TOL_ABS + TOL_REL * max(abs(whole), 1e-3)):
                viol("negative rectangle mass", kind="nonneg", a=list(pa), b=list(pb), fast=v, indices=None, **desc0)


def _margin_oracle(res, rng, model, desc0, dim, pos, neg, exact, viol):
    """other coordinates over the whole line -> marginal Levy-measure mass nu_i((a, b]); pairs in 3-d -> pair sub-margin"""
    ivs = [(neg[0], neg[2]), (neg[1], neg[-1]), (-INF, neg[1]), (pos[0], pos[3]), (pos[2], pos[-1]), (pos[1], INF), (0.0, pos[2])]
    for i in range(dim):
        for (x, y) in ivs:
            a = [-INF] * dim; b = [INF] * dim
            a[i], b[i] = x, y
            with np.errstate(all="ignore"):
                m = call_mass(model, "fast", tuple(a), tuple(b), None)
                nu = float(model.models[i].levy_triplet.nu.integrate(x, y))
                m1 = call_mass(model, "fast", (x,), (y,), [i])
            res.count(("margin", str(desc0), i, x, y), kind="margin consistency")
            if not math.isfinite(nu):
                continue
            ok = (m == nu and m1 == nu) if exact else (close(m, nu, 1e-3) and close(m1, nu, 1e-3))
            if not ok:
                viol("mass with the other coordinates over the whole line differs from the marginal Levy mass", kind="margin", coordinate=i,
                     a=a, b=b, mass=m, mass_1d=m1, marginal=nu, **desc0)
    if dim == 3:
        for (i, j) in ((0, 1), (0, 2), (1, 2)):
            kk = 3 - i - j
            for (x1, y1), (x2, y2) in ((ivs[0], ivs[3]), (ivs[1], ivs[1]), (ivs[4], ivs[5]), ((neg[1], pos[1]), ivs[3]), (ivs[2], (neg[2], pos[2]))):
                a = [0.0] * 3; b = [0.0] * 3
                a[i], b[i], a[j], b[j], a[kk], b[kk] = x1, y1, x2, y2, -INF, INF
                with np.errstate(all="ignore"):
                    m3 = call_mass(model, "fast", tuple(a), tuple(b), None)
                    m2 = call_mass(model, "fast", (x1, x2), (y1, y2), [i, j])
                res.count(("submargin", str(desc0), i, j, x1, y1, x2, y2), kind="pair sub-margin")
                ok = (m3 == m2) if exact else close(m3, m2, 1e-3)
                if not ok:
                    viol("3-d mass with one coordinate over the whole line differs from the pair sub-margin mass", kind="submargin",
                         a=a, b=b, pair=[i, j], mass_3d=m3, mass_pair=m2, **desc0)


def _inverse_oracle(res, model, desc0, dim, viol):
    # early returns: a level beyond the tail integral at the bracket end 1e-20 (finite-activity margin) returns that bracket end
    for i in range(dim):
        with np.errstate(all="ignore"):
            top = float(model.marginal_tail_integral(i, 1e-20)); bot = float(model.marginal_tail_integral(i, -1e-20))
        if math.isfinite(top) and math.isfinite(bot):
            for y, want in ((2.0 * top + 1.0, 1e-20), (2.0 * bot - 1.0, -1e-20)):
                got = float(model.inverse_tail_integral(i, y))
                res.count(("inv-early", str(desc0), i, y), kind="inverse tail integral: early return")
                if got != want:
                    viol("inverse_tail_integral beyond the range of the tail integral does not return the bracket end", kind="inverse", coordinate=i,
                         x=None, tail=y, inverse=got, tail_of_inverse=None, **desc0)
    for i in range(dim):
        for x in (-0.4, -0.1, -0.02, 0.015, 0.08, 0.3):
            with np.errstate(all="ignore"):
                y = float(model.marginal_tail_integral(i, x))
                if not math.isfinite(y) or abs(y) < 1e-9:
                    continue
                back = float(model.inverse_tail_integral(i, y))
                y2 = float(model.marginal_tail_integral(i, back))
            res.count(("inv", str(desc0), i, x), kind="inverse tail integral")
            if not close(y2, y, abs(y)) and abs(y2 - y) > 1e-7 * abs(y):
                viol("inverse_tail_integral does not invert the marginal tail integral", kind="inverse", coordinate=i, x=x, tail=y, inverse=back,
                     tail_of_inverse=y2, **desc0)


def _integer_endpoints_oracle(res, viol):
    """D14: integer / numpy-integer end points are the same rectangle as their float value: same mass on a FRESH model (nothing cached)
    and on a WARM one (after the float call; the lru cache keys -1 and -1.0 alike), for the fast paths, _mass_nd and sub-families."""
    configs = [(2, [["hem"], ["merton"]], ["clayton", 0.7, 0.3]), (2, [["merton2"], ["hem"]], ["indep"]), (3, [["hem"], ["merton"], ["hem2"]], ["dep"])]
    for dim, margins, cop in configs:
        desc0 = dict(margins=margins, copula=cop)
        a = tuple([-1.0, 1.0, -2.0][:dim]); b = tuple([-0.05, 2.0, 1.0][:dim])
        for conv, tag in ((int, "int"), (np.int64, "np.int64")):
            ia = tuple(conv(x) if float(x).is_integer() else x for x in a); ib = tuple(conv(x) if float(x).is_integer() else x for x in b)
            for fn in ("fast", "nd"):
                ref = call_mass(CM.make_model(margins, cop), fn, a, b, None)
                out = {}
                for order in ("fresh", "warm"):
                    m = CM.make_model(margins, cop)
                    try:
                        if order == "warm":
                            call_mass(m, fn, a, b, None)
                        f = {"fast": m.mass, "nd": m._mass_nd}[fn]
                        out[order] = float(f(ia, ib))
                    except Exception as e:  # noqa
                        out[order] = f"{type(e).__name__}: {e}"
                res.count(("int-endpoints", dim, str(cop), tag, fn), kind="integer end points")
                if any(v != ref for v in out.values()):
                    viol("integer end points: the mass differs from the float rectangle / raises / depends on the call history", kind="int_endpoints",
                         a=[float(x) for x in a], b=[float(x) for x in b], endpoint_type=tag, function=fn, with_float=ref, with_integers=out, **desc0)


def _negative_zero_oracle(res, rng, viol):
    """-0.0 == 0.0: a rectangle / split point / tail-integral argument written with the IEEE negative zero must give exactly what the
    ordinary zero gives, in both call orders (the lru cache of marginal_tail_integral keys 0.0 and -0.0 alike), on a fresh and on a
    reused model.  Finite-activity margins and any copula (in scope: another coordinate stays away from 0)."""
    configs = [(2, [["hem"], ["merton"]], ["clayton", 0.7, 0.3]), (2, [["merton2"], ["hem"]], ["indep"]), (2, [["hem2"], ["merton"]], ["dep"]),
               (3, [["hem"], ["merton"], ["hem2"]], ["clayton", 0.7, 0.3]), (3, [["merton"], ["hem2"], ["merton2"]], ["dep"])]
    S, N = (0.05, 0.2), (-0.2, -0.03)
    for dim, margins, cop in configs:
        desc0 = dict(margins=margins, copula=cop)
        rects = []
        for k in range(dim):
            others = [S if j % 2 == 0 else N for j in range(dim)]
            for iv in ((-0.1, 0.0), (0.0, 0.1), (-INF, 0.0), (0.0, INF)):
                ivs = list(others); ivs[k] = iv
                rects.append((tuple(x[0] for x in ivs), tuple(x[1] for x in ivs)))
        subs = [None] + ([[0, 1], [0, 2], [1, 2]] if dim == 3 else [])
        for (a, b) in rects:
            for ind in subs:
                aa, bb = restrict(a, b, ind, dim)
                if not any(x == 0 for x in aa + bb) or contains_origin(aa, bb):
                    continue
                na = tuple(-0.0 if x == 0 else x for x in aa); nb = tuple(-0.0 if x == 0 else x for x in bb)
                out = {}
                with np.errstate(all="ignore"):
                    m1 = CM.make_model(margins, cop)          # fresh, ordinary zero first, then -0.0 on the same object
                    out["zero_first"] = (call_mass(m1, "fast", aa, bb, ind), call_mass(m1, "nd", aa, bb, ind))
                    out["negzero_after_zero"] = (call_mass(m1, "fast", na, nb, ind), call_mass(m1, "nd", na, nb, ind))
                    m2 = CM.make_model(margins, cop)          # fresh, -0.0 first, then the ordinary zero on the same object
                    out["negzero_first"] = (call_mass(m2, "fast", na, nb, ind), call_mass(m2, "nd", na, nb, ind))
                    out["zero_after_negzero"] = (call_mass(m2, "fast", aa, bb, ind), call_mass(m2, "nd", aa, bb, ind))
                res.count(("negzero", dim, str(cop), aa, bb, ind), kind="negative-zero end point (call orders)")
                ref = out["zero_first"]
                bad = {k: v for k, v in out.items() if v != ref}
                if bad or ref[0] < -TOL_ABS or not close(ref[0], ref[1], 1e-3):
                    viol("a rectangle written with -0.0 has a different mass than the same rectangle written with 0.0", kind="negzero",
                         a=list(aa), b=list(bb), indices=ind, order=sorted(bad) or ["zero_first"], with_zero=list(ref),
                         with_negative_zero=[list(v) for v in bad.values()][:2], **desc0)
        # split of a straddling interval at -0.0 and the tail integrals themselves
        with np.errstate(all="ignore"):
            m = CM.make_model(margins, cop)
            a = tuple([-0.1] + [(S if j % 2 == 0 else N)[0] for j in range(1, dim)]); b = tuple([0.1] + [(S if j % 2 == 0 else N)[1] for j in range(1, dim)])
            left = call_mass(m, "fast", a, (-0.0,) + b[1:], None); right = call_mass(m, "fast", (-0.0,) + a[1:], b, None)
            whole = call_mass(m, "fast", a, b, None)
        res.count(("negzero-split", dim, str(cop)), kind="negative-zero split point")
        if not close(whole, left + right, max(abs(left), abs(right), 1e-3)) or min(left, right) < -TOL_ABS:
            viol("mass is not additive / is negative when a coordinate interval is split at -0.0", kind="negzero_split", a=list(a), b=list(b),
                 whole=whole, left=left, right=right, **desc0)
        for i in range(dim):
            m = CM.make_model(margins, cop)
            un = float(m.marginal_tail_integral(i, -0.0))
            m = CM.make_model(margins, cop)
            up = float(m.marginal_tail_integral(i, 0.0))
            res.count(("negzero-tail", dim, str(cop), i), kind="negative-zero tail integral")
            if un != up:
                viol("marginal tail integral at -0.0 differs from the one at 0.0", kind="negzero_tail", coordinate=i, at_negative_zero=un, at_zero=up, **desc0)


E2E_HEADER = """From Coq Require Import Reals List Bool Lra.
From Interval Require Import Tactic.
From RV Require Import Base.RB Base.ExtNum Model.Copula Gen.GenC12Mass Model.MassNd.
Import ListNotations.
Open Scope R_scope.
Lemma Reqb_false x y : x <> y -> Reqb x y = false.
Proof. intros H. destruct (Reqb x y) eqn:E; auto. apply Reqb_true in E. contradiction. Qed.
Ltac decide_tests := repeat match goal with
  | |- context[Rltb ?a ?b] => first [rewrite (proj2 (Rltb_true a b)) by lra | rewrite (proj2 (Rltb_false a b)) by lra]
  | |- context[Rleb ?a ?b] => first [rewrite (proj2 (Rleb_true a b)) by lra | rewrite (proj2 (Rleb_false a b)) by lra]
  | |- context[Reqb ?a ?b] => first [rewrite (proj2 (Reqb_true a b)) by lra | rewrite (Reqb_false a b) by lra]
  end.
Ltac flags := repeat (cbn [is_some is_none olen Nat.ltb Nat.leb Nat.eqb andb orb negb length xlt0 xge0 xgt0 nltb nleb RNum n0 T]; decide_tests).
Ltac e2e := unfold fast_2d, fast_3d; unfold mass_3d; flags; unfold mass_2d; flags; unfold mass_1d;
  unfold margin_tail_integral, tail_val, nat_list_eqb; cbn [length seq Nat.eqb andb forallb combine fst snd map2];
  unfold margin, complement, scatter; cbn -[Rpower Rabs clayton]; unfold clayton, clayton_sum; cbn -[Rpower Rabs];
  repeat (decide_tests; cbn -[Rpower Rabs]); unfold Rpower.
"""


def _rl(x):
    fr = Fraction(x)
    return f"({fr.numerator})" if fr.denominator == 1 else f"(({fr.numerator}) / {fr.denominator})"


def _erl(x):
    return "PInf" if x == INF else ("NInf" if x == -INF else f"(Fin {_rl(x)})")


def _end_to_end(res, rng, viol):
    """C12-5: Clayton + margin + mass computed END TO END by the Coq model over R (Interval), against model.mass of the
    implementation.  Only the marginal tail integrals of the dyadic step margins enter as exact rationals (they are certified
    independently by the exact vm_compute groups)."""
    pos, neg = step_points()
    lemmas, info = [], []
    for dim, (th, et), n_rect in ((2, (0.7, 0.3), 10), (2, (2.5, 0.8), 6), (3, (0.7, 0.3), 6), (3, (1.5, 0.0), 4)):
        margins = [CM.random_step_margin(rng) for _ in range(dim)]
        cop = ["clayton", th, et]
        model = CM.make_model(margins, cop)
        rects = CM.rectangles(rng, dim, pos, neg, n_random=40)
        rng.shuffle(rects)
        TH, ET = _rl(th), _rl(et)
        for (a, b, kinds) in rects[:n_rect if res.tier == "quick" else 3 * n_rect]:
            if contains_origin(a, b):
                continue
            with np.errstate(all="ignore"):
                v = call_mass(model, "fast", a, b, None)
            if not math.isfinite(v):
                continue
            rows = []
            for i in range(dim):
                pts = sorted({x for x in (a[i], b[i]) if math.isfinite(x)})
                tests = "".join(f"if Reqb v {_rl(x)} then {_rl(float(model.marginal_tail_integral(i, x)))} else " for x in pts)
                rows.append(f"  | {i}%nat, Fin v => {tests}0")
            k = len(lemmas)
            vdef = f"Definition V{k} (i : nat) (x : ext R) : ext R := Fin (match i, x with\n" + "\n".join(rows) + "\n  | _, _ => 0 end)."
            f = "fast_2d" if dim == 2 else "fast_3d"
            tol = Fraction(max(1e-12, 1e-9 * abs(v))).limit_denominator(10 ** 18)
            lemmas.append(f"{vdef}\nLemma case_{k} : Rabs ({f} RNum (tail_val RNum V{k}) (margin_tail_integral RNum V{k} (clayton {TH} {ET}) {dim}) "
                          f"{lst([_erl(x) for x in a])} {lst([_erl(x) for x in b])} None - {_rl(v)}) <= {_rl(tol)}.\nProof. e2e. interval with (i_prec 90). Qed.")
            info.append(dict(margins=margins, copula=cop, a=list(a), b=list(b), mass=v))
            res.count(("e2e", dim, th, et, a, b), kind=f"end-to-end Clayton d={dim}")
    if not lemmas:
        res.broke("correspondence end_to_end", "no end-to-end case was generated")
        return
    res.case_lemmas += len(lemmas)
    from concurrent.futures import ThreadPoolExecutor
    shards = [lemmas[i:i + 4] for i in range(0, len(lemmas), 4)]

    def work(k):
        rc, out = coq_eval_file(PROP, f"end_to_end_{k}", E2E_HEADER + "\n".join(shards[k]) + "\n", timeout=600)
        return k, rc, out

    with ThreadPoolExecutor(max_workers=10) as ex:
        for k, rc, out in ex.map(work, range(len(shards))):
            if rc == 0:
                res.case_ok += len(shards[k])
            else:
                res.broke(f"correspondence end_to_end_{k}", "Interval could not certify the end-to-end model (Clayton + margin + mass) against "
                          f"model.mass (rc={rc}): {out[-1200:]}; cases: {json.dumps(info[4 * k:4 * k + 4])[:1500]}")


def _density_oracle(res, viol):
    """mass of a small rectangle inside one orthant = integral of the implied joint density (Clayton, 2-d)"""
    from scipy.integrate import dblquad
    margins, cop = [["hem"], ["merton"]], ["clayton", 0.7, 0.3]
    model = CM.make_model(margins, cop)
    nu = [m.levy_triplet.nu for m in model.models]
    for (a, b) in (((0.02, 0.03), (0.05, 0.06)), ((-0.06, 0.01), (-0.02, 0.04)), ((-0.05, -0.08), (-0.01, -0.03)), ((0.01, -0.07), (0.03, -0.02))):
        def dens(y, x):
            u = np.array([model.marginal_tail_integral(0, x), model.marginal_tail_integral(1, y)])
            # joint Levy density = |d2F/dudv|(U_1(x), U_2(y)) nu_1(x) nu_2(y); x_first_derivative is +-(d2F/dudv) (see F-C11-1)
            return abs(model.copula.x_first_derivative(u)) * nu[0](x) * nu[1](y)
        val, err = dblquad(dens, a[0], b[0], lambda x: a[1], lambda x: b[1], epsabs=1e-10, epsrel=1e-9)
        m = call_mass(model, "fast", a, b, None)
        res.count(("density", a, b), kind="joint density integral")
        if abs(val - m) > 1e-6 * max(abs(m), 1e-3):
            viol("rectangle mass differs from the integral of the implied joint density", kind="density", a=list(a), b=list(b), mass=m,
                 integral=val, margins=margins, copula=cop)


# ------------------------------------------------------------------------------------------------------------
def replay(path):
    data = json.load(open(path))
    print(json.dumps(data, indent=1)[:3000])
    if "margins" not in data:
        print("replay: no concrete input recorded (broken proof obligation / correspondence); re-run ./check C12")
        return 1
    model = CM.make_model(data["margins"], data["copula"])
    kind = data.get("kind")
    a, b = tuple(float(x) for x in data.get("a", [])), tuple(float(x) for x in data.get("b", []))
    ind = data.get("indices")
    with np.errstate(all="ignore"):
        if kind in ("fast_vs_nd", "nonneg", "mass", "cache"):
            vf, vn = call_mass(model, "fast", a, b, ind), call_mass(model, "nd", a, b, ind)
            print(f"mass{a, b, ind}: fast path = {vf!r}, _mass_nd = {vn!r}")
            bad = (not close(vf, vn, 1e-3)) or vf < -1e-9 or not math.isfinite(vf)
            return 1 if bad else 0
        if kind == "additive":
            k, c = data["coordinate"], float(data["split"])
            bl = list(b); bl[k] = c
            ar = list(a); ar[k] = c
            whole, left, right = (call_mass(model, "fast", a, b, None), call_mass(model, "fast", a, tuple(bl), None),
                                  call_mass(model, "fast", tuple(ar), b, None))
            print(f"whole = {whole!r}, left + right = {left!r} + {right!r} = {left + right!r}")
            return 0 if close(whole, left + right, max(abs(left), abs(right), 1e-3)) else 1
        if kind == "negzero":
            na = tuple(-0.0 if x == 0 else x for x in a); nb = tuple(-0.0 if x == 0 else x for x in b)
            m1 = CM.make_model(data["margins"], data["copula"])
            z = (call_mass(m1, "fast", a, b, ind), call_mass(m1, "nd", a, b, ind))
            m2 = CM.make_model(data["margins"], data["copula"])
            n = (call_mass(m2, "fast", na, nb, ind), call_mass(m2, "nd", na, nb, ind))
            zz = (call_mass(m2, "fast", a, b, ind), call_mass(m2, "nd", a, b, ind))
            print(f"fresh model, 0.0: {z}; fresh model, -0.0: {n}; then 0.0 on the same model: {zz}")
            return 0 if z == n == zz else 1
        if kind in ("margin", "submargin", "ui_inf", "inverse", "density", "negzero_split", "negzero_tail"):
            print("replay: re-run ./check C12 to re-evaluate this class of input (all inputs are in the file)")
            return 1
    return 1

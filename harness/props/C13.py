"""C13 -- state grids are well formed and refinement nests them: correspondence + implementation oracle."""
import json
import math
import random
import warnings
from fractions import Fraction as Fr

import numpy as np

from common import qlit, natlit, blit, lst, tup, opt, coq_bad_indices, CoqError

PROP = "C13"
PROPERTY_FILE = "Properties/C13.v"
GEN_DEPS = []
RULE = ("cases: create_from_fixed_nb_of_points (dyadic h, nb 0..60, dim 1..3), CTMCCredit (dim 1..3, symmetric or not, dyadic "
        "thresholds incl. rejected ones, dyadic truncation bounds injected for the root search), refine^n (n<=6) of random dyadic "
        "admissible axes and of constructor outputs with shared/per-axis storage and aliases of origin_coordinate taken before "
        "refine; oracle stream: every constructor (uniform, fixed, geometric, with-bounds, probability-step, credit) on step and "
        "real models.  non-trivial = distinct case with >= 2 states on a side or >= 1 refinement")
MODELLED = ["numpy arrays as lists of Q; np.insert/np.concatenate/list comprehension semantics (tied by exact correspondence)",
            "np.linspace / np.geomspace axes (CTMCUniformGrid, CTMCGridGeometric) and root-found axes (CTMCGridProbabilityStep, "
            "compute_truncation): no Coq model of the numerics; covered by C13_assembly_admissible + the oracle on the implementation",
            "Coordinates.__imul__ (in-place doubling): one mutable cell g_o; aliases checked by the correspondence"]
ASSUMPTIONS = ["grid.middle returns a point strictly inside a gap, and x/2 next to the origin (hypotheses mid_between, mid_left0, "
               "mid_right0): proved for CTMCGrid.middle (C13_amid_ok); for CTMCGridProbabilityStep.middle checked by the oracle on "
               "every refined grid (brentq bracket), not proved",
               "truncation bounds / probability-step points are inputs of the model (root finders are not modelled); their promised "
               "tail probability is monitored on the implementation"]
THEOREM_NOTES = {
    "C13_fixed_admissible": "for the repaired constructor (ValueError for nb_of_points < 2, commit 'fix: create_from_fixed_nb_of_points ...' on fix-grid)",
    "C13_credit_admissible": "for the repaired constructor (ValueError unless every axis is strictly increasing, commit 'fix: CTMCCredit accepted ...' on fix-grid)",
    "C13_uniform_admissible": "for the repaired constructor (ValueError unless int(|l|/h) >= 2 and int(r/h) >= 2: fix-grid + fix-grid2); both end "
                              "points are the truncation bounds; linspace modelled as its mathematical sequence, tied with tolerance 1e-12; int() as floor",
    "middle": "the n-level theorems need one STATELESS middle (proved instance: the arithmetic mean); CTMCGridProbabilityStep.middle reads grid.h: "
              "only the one-step theorems C13_refine_nests / C13_refine_admissible_axis apply to it (oracle-checked premises)",
    "0 < h": "assumed by every theorem; create_from_fixed_nb_of_points does not reject h <= 0 (h = -0.5 returns a decreasing axis): observation, not repaired",
    "C13_geometric": "not a theorem: CTMCGridGeometric / CTMCGridProbabilityStep axes are covered by C13_assembly_admissible "
                     "(premises checked by the oracle on the implementation's arrays), not by a model of geomspace / the root searches",
    "tail probability": "not proved (numerical root search); monitored: mass(h/2, r)/mass(h/2, inf) within 1e-6 of the target",
}
LEVEL_TEXT = ("Proof: 16 Coq theorems (closed under the global context) state that create_from_fixed_nb_of_points, CTMCUniformGrid (linspace as its mathematical sequence) and CTMCCredit return, "
              "for every argument they accept, strictly increasing axes with 0 at the origin index and -h/+h as neighbours and end points "
              "at the reported truncations; that any assembly left++[0]++right with pivot len(left) does; and that refine - modelled as "
              "the np.insert loop, proved equal to the interleaving - keeps every old state at 2^n times its index, inserts exactly one "
              "state strictly inside each gap at grid.middle, halves h, doubles the (shared) origin index and leaves the truncations "
              "unchanged, for every n and every admissible grid and every middle function with the stated three properties. The model is "
              "tied to /repo by exact vm_compute correspondence on dyadic inputs (constructors, refine^n, aliasing); linspace/geomspace/"
              "root-found axes are covered by the assembly theorem plus an oracle on the implementation. Partial: promised tail / "
              "per-step probabilities are monitored, not proved.")
LEVEL_NOTE = ("Trusted: Coq kernel + vm_compute; floats modelled as Q (exact on the dyadic inputs of the correspondence); numpy array "
              "semantics; root finders (brentq) not modelled.")
TECHNIQUE = "Coq proof over Q/list (induction on axes, lra/lia) + exact vm_compute correspondence on dyadic grids + implementation oracle"


# ------------------------------------------------------------------------------------------ oracle predicates
def admissible_reason(axis, o, h):
    """None if (axis, o, h) is admissible, else a short reason (implementation-side predicate)"""
    axis = np.asarray(axis, dtype=float)
    if axis.ndim != 1 or axis.size == 0 or not np.all(np.isfinite(axis)):
        return "axis is not a finite 1-d array"
    if np.any(np.diff(axis) <= 0):
        return "axis is not strictly increasing"
    if not (isinstance(o, (int, np.integer)) and 1 <= o and o + 1 < axis.size):
        return "origin index has no neighbour on one side"
    if not h > 0:
        return "h is not positive"
    if axis[o] != 0:
        return "state at the origin index is not 0"
    if axis[o - 1] != -h:
        return "left neighbour of the origin is not -h"
    if axis[o + 1] != h:
        return "right neighbour of the origin is not +h"
    return None


def origin_indices(grid):
    v = grid.origin_coordinate.value
    return list(v) if isinstance(v, tuple) else [v]


def grid_reason(grid):
    os_ = origin_indices(grid)
    if len(os_) != len(grid.axes):
        return "origin coordinate and axes have different dimensions"
    for k, axis in enumerate(grid.axes):
        r = admissible_reason(axis, os_[k], grid.h)
        if r:
            return f"axis {k}: {r}"
        if tuple(float(t) for t in grid.truncations[k]) != (float(axis[0]), float(axis[-1])):
            return f"axis {k}: reported truncations are not the end points"
    return None


def snapshot(grid, with_mids=False):
    s = {"axes": [np.array(a, dtype=float).copy() for a in grid.axes], "h": float(grid.h), "o": origin_indices(grid),
         "trunc": [(float(a), float(b)) for a, b in grid.truncations]}
    if with_mids:   # the cell boundaries the grid itself uses, evaluated on the OLD grid (grid.middle may depend on grid.h)
        s["mids"] = [[float(grid.middle(float(x), float(y))) for x, y in zip(a, a[1:])] for a in grid.axes]
    return s


def nesting_reason(before, grid, exact_mid=True):
    """`before` = snapshot taken before ONE grid.refine(); checks the nesting statement on the implementation"""
    if float(grid.h) != before["h"] / 2:
        return "h is not halved by refine"
    if origin_indices(grid) != [2 * o for o in before["o"]]:
        return "origin index is not doubled by refine"
    if [(float(a), float(b)) for a, b in grid.truncations] != before["trunc"]:
        return "truncations changed by refine"
    for k, (old, new) in enumerate(zip(before["axes"], grid.axes)):
        if len(new) != 2 * len(old) - 1:
            return f"axis {k}: refine does not insert exactly one state per gap"
        if not np.array_equal(new[0::2], old):
            return f"axis {k}: old states are not at twice their index"
        ins = new[1::2]
        if np.any(ins <= old[:-1]) or np.any(ins >= old[1:]):
            return f"axis {k}: an inserted state is not strictly inside its gap"
        if exact_mid:
            for i in range(len(old) - 1):
                if ins[i] != 0.5 * (old[i] + old[i + 1]):
                    return f"axis {k}: an inserted state is not grid.middle of its gap"
        if "mids" in before and not np.array_equal(ins, np.array(before["mids"][k])):
            return f"axis {k}: an inserted state is not the old grid's own cell boundary middle(x_i, x_i+1)"
    return None


# ------------------------------------------------------------------------------------------ literals
def axes_lit(axes):
    return lst([lst([qlit(float(x)) for x in a]) for a in axes])


def snap_lit(s):
    os_ = s["o"]
    assert len(set(os_)) == 1
    return tup([axes_lit(s["axes"]), qlit(s["h"]), natlit(os_[0]), lst([f"({qlit(a)}, {qlit(b)})" for a, b in s["trunc"]])])


GRID_T = "list (list Q) * Q * nat * list (Q * Q)"


# ------------------------------------------------------------------------------------------ implementation drivers
def build_fixed(h, nb, dim):
    from rpylib.grid.spatial import CTMCUniformGrid
    return CTMCUniformGrid.create_from_fixed_nb_of_points(h=h, nb_of_points=nb, dimension=dim)


class _patched_truncation:
    """feeds given truncation bounds to CTMCCredit instead of running the root search (the bounds are inputs
    of the model: `compute_truncation` is specified, not modelled)"""

    def __init__(self, l, r):
        self.l, self.r = l, r

    def __enter__(self):
        import rpylib.grid.spatial as S
        self.S, self.old = S, S.compute_truncation
        S.compute_truncation = lambda model, h, truncation_probability=0.99999: (self.l, self.r)

    def __exit__(self, *a):
        self.S.compute_truncation = self.old


def dummy_model(dim):
    from stepmeasure import StepMeasure, StepModel, build_copula_model, step_spec
    nu = StepMeasure([Fr(-8), Fr(8)], [Fr(3, 4)], strict=False)
    if dim == 1:
        return StepModel(nu)
    return build_copula_model([step_spec(nu)] * dim)


def build_credit(l, r, h, levels, sym):
    from rpylib.grid.spatial import CTMCCredit
    dim = len(levels)
    with _patched_truncation(l, r):
        return CTMCCredit(h=h, level_a=(levels[0] if dim == 1 else list(levels)), model=dummy_model(dim), symmetric_grid=sym)


GUARD_MESSAGES = ("h is too large for the truncation bounds", "expected nb_of_points", "CTMCCredit grid error",
                  "level a smaller than the last left point", "the number of points is greater than")


def is_guard(e) -> bool:
    """a ValueError raised by one of the constructors' own argument guards (a legitimate rejection); any other ValueError
    (e.g. brentq: f(a) and f(b) must have different signs) is an uncontrolled failure and is reported separately"""
    return isinstance(e, ValueError) and any(m in str(e) for m in GUARD_MESSAGES)


def note_exception(res, table, e, ctor, args):
    if is_guard(e):
        res.bump(table, "guard ValueError")
    else:
        res.bump(table, f"UNEXPECTED {type(e).__name__}")
        res.bump("unexpected_constructor_exception", f"{ctor}: {type(e).__name__}: {str(e)[:70]}")
        if len(res.notes) < 12:
            res.notes.append(f"{ctor} raised {type(e).__name__} (not an argument guard): {str(e)[:100]} args={json.dumps(args, default=str)[:160]}")


def try_build(f, *a):
    try:
        return f(*a), None
    except ValueError as e:
        if not is_guard(e):
            raise
        return None, f"ValueError: {e}"


UNIFORM_CASES = []


# ------------------------------------------------------------------------------------------ correspondence
def correspond(res):
    del UNIFORM_CASES[:]
    from rpylib.grid.spatial import CTMCGrid
    from stepmeasure import random_dyadic_axis
    rng = random.Random(res.seed)
    thorough = res.tier == "thorough"
    groups = []

    def viol(what, **kw):
        res.violation(what, dict(kw))

    # ---- 1. create_from_fixed_nb_of_points ------------------------------------------------
    fixed_cases = []
    hs = [0.5, 0.25, 1.0, 0.125, 1.5, 0.375, 2.0 ** -6, 3 * 2.0 ** -5]
    nbs = list(range(0, 14)) + [20, 21, 40, 60] + ([100, 101, 200] if thorough else [])
    for h in hs:
        for nb in nbs:
            for dim in (1, 2, 3):
                if dim > 1 and nb not in (0, 1, 2, 3, 5, 8, 21):
                    continue
                g, err = try_build(build_fixed, h, nb, dim)
                res.count(("fixed", h, nb, dim), nontrivial=nb >= 4, kind="create_from_fixed_nb_of_points")
                res.bump("fixed_outcome", "grid" if g is not None else "ValueError")
                if g is not None:
                    why = grid_reason(g)
                    if why:
                        viol("create_from_fixed_nb_of_points returns a malformed grid: " + why.split(":")[-1].strip()[:60],
                             kind="fixed", finding="F-C13-2", h=h, nb=nb, dim=dim, reason=why)
                    if len(g.axes) != dim:
                        viol("create_from_fixed_nb_of_points: wrong dimension", kind="fixed", h=h, nb=nb, dim=dim)
                fixed_cases.append(f"({qlit(h)}, {natlit(nb)}, {natlit(dim)}, {opt(g, lambda gg: snap_lit(snapshot(gg)))})")
    groups.append(("fixed", f"Q * nat * nat * option ({GRID_T})",
                   "fun c => match c with (h, nb, dim, e) => ogrid_eqb (fixed_ctor h nb dim) e end", fixed_cases))

    # ---- 2. CTMCCredit with injected dyadic truncation bounds --------------------------------
    credit_cases = []
    n_credit = 250 if not thorough else 2500
    for it in range(n_credit):
        h = rng.choice([0.25, 0.125, 0.5, 0.0625])
        l = -rng.randrange(8, 64) / 8
        r = rng.randrange(4, 64) / 8
        dim = rng.choice([1, 1, 2, 3])
        sym = rng.random() < 0.6
        mode = rng.choice(["ok", "ok", "ok", "near_h", "near_l", "wild"])
        levels = []
        for _ in range(dim):
            if mode == "ok":
                a = -rng.randrange(int(8 * h) + 1, max(int(8 * h) + 2, int(-8 * l))) / 8
            elif mode == "near_h":
                a = -h + rng.choice([-0.125, 0.0, 0.0625, -0.0625])
            elif mode == "near_l":
                a = l + rng.choice([-0.125, 0.0, 0.125, 0.25])
            else:
                a = rng.randrange(-80, 8) / 8
            levels.append(float(a))
        g, err = try_build(build_credit, l, r, h, levels, sym)
        res.count(("credit", l, r, h, tuple(levels), sym), nontrivial=True, kind=f"CTMCCredit dim={dim}")
        res.bump("credit_outcome", "grid" if g is not None else "ValueError")
        res.bump("credit_mode", mode)
        if g is not None:
            why = grid_reason(g)
            if why:
                viol("CTMCCredit returns a malformed grid: " + why.split(":")[-1].strip()[:60], kind="credit", finding="F-C13-3",
                     l=l, r=r, h=h, levels=levels, sym=sym, reason=why, axes=[a.tolist() for a in g.axes])
            elif any(t != (l, r) for t in g.truncations) or origin_indices(g) != [4] * dim:
                viol("CTMCCredit: truncations / origin index not as promised", kind="credit", l=l, r=r, h=h, levels=levels, sym=sym)
            else:
                for k, a in enumerate(levels):
                    if 0.5 * (g.axes[k][1] + g.axes[k][2]) != a:
                        viol("CTMCCredit: the cell boundary between the two threshold states is not the threshold", kind="credit",
                             l=l, r=r, h=h, levels=levels, sym=sym)
        credit_cases.append(f"({qlit(l)}, {qlit(h)}, {qlit(r)}, {lst([qlit(a) for a in levels])}, {blit(sym)}, "
                            f"{opt(g, lambda gg: snap_lit(snapshot(gg)))})")
    groups.append(("credit", f"Q * Q * Q * list Q * bool * option ({GRID_T})",
                   "fun c => match c with (l, h, r, levels, sym, e) => ogrid_eqb (credit_grid l h r levels sym) e end", credit_cases))

    # ---- 3. refine^n with aliasing and both storage modes ------------------------------------
    refine_cases = []
    n_ref = 60 if not thorough else 500
    starts = []
    for it in range(n_ref):
        h = Fr(rng.choice([1, 1, 2, 3, 4]), rng.choice([2, 4, 8]))
        nl, nr = rng.randrange(1, 7), rng.randrange(1, 7)
        axis, o = random_dyadic_axis(rng, nl, nr, h)
        starts.append(("random", [float(x) for x in axis], o, float(h)))
    for (h, nb) in [(0.5, 4), (0.25, 9), (1.5, 2)]:
        g = build_fixed(h, nb, 1)
        starts.append(("fixed", g.axes[0].tolist(), origin_indices(g)[0], h))
    g = build_credit(-4.0, 3.0, 0.25, [-2.0], False)
    starts.append(("credit", g.axes[0].tolist(), 4, 0.25))
    for (src, axis, o, h) in starts:
        dim = rng.choice([1, 1, 2, 3])
        shared = rng.random() < 0.5
        arr = np.array(axis, dtype=float)
        axes = [arr] * dim if shared else [arr.copy() for _ in range(dim)]
        grid = CTMCGrid(h=h, origin_coordinate=o, axes=axes)
        alias = grid.origin_coordinate            # reference taken before refine
        start = snapshot(grid)
        nmax = rng.randrange(1, 7) if len(axis) <= 9 else rng.randrange(1, 4)
        for n in range(1, nmax + 1):
            before = snapshot(grid)
            grid.refine()
            res.count(("refine", tuple(axis), o, h, dim, shared, n), nontrivial=True, kind="refine")
            res.bump("refine_n", n)
            res.bump("refine_storage", "shared" if shared else "per-axis")
            why = nesting_reason(before, grid) or grid_reason(grid)
            if why:
                viol("refine breaks the nesting/admissibility statement: " + why[:70], kind="refine", axis=axis, o=o, h=h, dim=dim,
                     shared=shared, n=n, reason=why)
            if alias is not grid.origin_coordinate or origin_indices(grid) != [o * 2 ** n] * dim:
                viol("an alias of grid.origin_coordinate taken before refine no longer denotes the origin", kind="refine",
                     axis=axis, o=o, h=h, dim=dim, shared=shared, n=n)
            av = alias.value if not isinstance(alias.value, tuple) else alias.value[0]
            if n in (1, nmax):
                s = snapshot(grid)
                s["o"] = [av] * dim       # the model's single cell must agree with what the alias reads
                refine_cases.append(f"({axes_lit(start['axes'])}, {qlit(h)}, {natlit(o)}, {natlit(n)}, {snap_lit(s)})")
    groups.append(("refine", f"list (list Q) * Q * nat * nat * ({GRID_T})",
                   "fun c => match c with (axes, h, o, n, (a2, h2, o2, t2)) => grid_eqb (refine_n amid n (mk_grid h o axes)) a2 h2 o2 t2 end",
                   refine_cases))

    # ---- 4. oracle stream: every constructor on step and real models ------------------------
    _oracle_constructors(res, rng, 1 if not thorough else 6, viol)
    _tail_probabilities(res, rng, viol, thorough)
    _probstep_massless_gaps(res, viol)

    groups.append(("uniform", "Q * Q * Q * option (list Q * nat)",
                   "fun c => match c with (l, h, r, e) => match uniform_axis l h r, e with "
                   "| None, None => true "
                   "| Some (xs, o), Some (ys, o2) => Nat.eqb o o2 && Nat.eqb (length xs) (length ys) && "
                   "forallb (fun xy => Qle_bool (Qabs (fst xy - snd xy)) ((1 + Qabs (snd xy)) * (1 # 1000000000000))) (combine xs ys) "
                   "| _, _ => false end end", list(UNIFORM_CASES)))
    # ---- Coq side ---------------------------------------------------------------------------
    header = "From Coq Require Import ZArith QArith Qabs List Bool.\nFrom RV Require Import Base.QB Model.Grid.\nOpen Scope Q_scope."
    res.case_lemmas += len(groups)
    bad = coq_bad_indices(PROP, "cases", header, groups, timeout=900)
    for gname, ty, chk, cases in groups:
        if bad[gname]:
            res.broke(f"correspondence {gname}", f"model and implementation differ on {len(bad[gname])} case(s), first: {cases[bad[gname][0]][:1500]}")
        else:
            res.case_ok += 1


def _check_grid_and_refine(res, viol, grid, ctor, args, n_refine=2, exact_mid=True, finding=None):
    why = grid_reason(grid)
    extra = {"finding": finding} if finding else {}
    if why:
        viol(f"{ctor} returns a malformed grid: " + why.split(":")[-1].strip()[:60], kind="ctor", ctor=ctor, args=args, reason=why, **extra)
        return
    for n in range(1, n_refine + 1):
        before = snapshot(grid, with_mids=True)
        try:
            grid.refine()
        except Exception as e:  # noqa
            viol(f"{ctor}: refine raises {type(e).__name__}", kind="ctor", ctor=ctor, args=args, n=n, reason=str(e)[:200])
            return
        why = nesting_reason(before, grid, exact_mid=exact_mid) or grid_reason(grid)
        if why:
            viol(f"{ctor}: refine breaks nesting/admissibility: " + why[:60], kind="ctor", ctor=ctor, args=args, n=n, reason=why, **extra)
            return


def _tail_monitor(res, viol, model, grid, ctor, args, target=0.99999, finding=None):
    """promised tail probability of compute_truncation at the grid's reported truncation bounds (monitor, tolerance 2e-7:
    2% of the tail 1e-5 that is being cut; brentq's own tolerance is ~1e-12)"""
    nu = model.levy_triplet.nu
    h = grid.h
    l, r = grid.truncations[0]
    try:
        with np.errstate(all="ignore"):
            pr = nu.integrate(h / 2, r) / nu.integrate(h / 2, np.inf)
            pl = nu.integrate(l, -h / 2) / nu.integrate(-np.inf, -h / 2)
    except Exception as e:  # noqa
        res.bump("tail_monitor", f"not evaluated: {type(e).__name__}")
        return
    if not (np.isfinite(pr) and np.isfinite(pl)):
        res.bump("tail_monitor", "not evaluated: non-finite mass ratio")
        return
    ok = abs(pr - target) <= 2e-7 and abs(pl - target) <= 2e-7
    res.bump("tail_monitor", f"{ctor}: {'ok' if ok else 'off'}")
    if not ok:
        viol(f"{ctor}: end points do not carry the promised tail probability", kind="ctor", ctor=ctor, args=args,
             left=float(pl), right=float(pr), target=target, **({"finding": finding} if finding else {}))


def _probstep_monitor(res, viol, model, grid, pstep, args):
    """per-gap probability of a probability-step grid (level 0): every interior gap beyond [0, h] carries the requested
    probability p of the jump measure (two root searches of p/2 each, xtol 1e-10); the last two gaps of a side are built
    by extrapolation when the tail is exhausted and are exempt.  Monitor with tolerance 1e-6."""
    nu = model.levy_triplet.nu
    ax = [float(x) for x in grid.axes[0]]
    o = origin_indices(grid)[0]
    lam = float(grid.intensity_of_jumps)
    off = []
    with np.errstate(all="ignore"):
        for k in list(range(0, o - 1)) + list(range(o + 1, len(ax) - 1)):
            pk = float(nu.integrate(ax[k], ax[k + 1])) / lam
            exempt = k <= 1 or k >= len(ax) - 3
            res.bump("probstep_gap", "exempt end gap" if exempt else ("p" if abs(pk - pstep) <= 1e-6 else "off"))
            if not exempt and abs(pk - pstep) > 1e-6:
                off.append((k, pk))
    if off:
        viol("CTMCGridProbabilityStep: an interior gap does not carry the requested step probability", kind="ctor",
             ctor="CTMCGridProbabilityStep", args=args, gaps=[[k, pk] for k, pk in off[:5]], requested=pstep)


def _probstep_massless_gaps(res, viol):
    """F-C13-6: probability-step grids whose end gaps have float mass 0 (narrow jump law, large h): refine must not duplicate states"""
    from rpylib.grid.spatial import CTMCGridProbabilityStep
    from stepmeasure import build_model
    for kw, h, pstep in ((dict(sigma=0.1, mu_j=0.01, sigma_j=0.0626, intensity=7.6), 0.3, 0.01),
                         (dict(sigma=0.1, mu_j=0.0, sigma_j=0.05, intensity=3.0), 0.25, 0.02)):
        spec = {"family": "MERTON", "kwargs": kw}
        args = {"model": spec, "h": h, "p": pstep}
        try:
            with warnings.catch_warnings():
                warnings.simplefilter("ignore")
                g = CTMCGridProbabilityStep(h=h, model=build_model(spec), minimum_probability_step=pstep)
                res.count(("probstep-massless", h, pstep), kind="CTMCGridProbabilityStep (massless end gaps)")
                _check_grid_and_refine(res, viol, g, "CTMCGridProbabilityStep", args, n_refine=2, exact_mid=False, finding="F-C13-6")
        except Exception as e:  # noqa
            note_exception(res, "probstep_outcome", e, "CTMCGridProbabilityStep", args)


def _tail_probabilities(res, rng, viol, thorough):
    """every constructor that takes a truncation_probability (CTMCUniformGrid, CTMCGridGeometric; CTMCCredit and the
    probability-step grid take none), dimension 1-3, several NON-default probabilities: the tail mass kept on each side
    must be the requested one (root finder tolerance; 2% of the tail that is cut)"""
    from rpylib.grid.spatial import CTMCUniformGrid, CTMCGridGeometric
    from stepmeasure import real_model_specs, build_model, build_copula_model
    specs = real_model_specs(rng)
    probs = [0.9, 0.99, 0.999, 0.999999]
    plan = []
    for k, spec in enumerate(specs):
        for p in (probs if thorough else [probs[(k + i) % 4] for i in (0, 2)]):
            plan.append(([spec], p))
    plan += [([specs[0], specs[0]], 0.99), ([specs[1], specs[2]], 0.999), ([specs[0], specs[1], specs[0]], 0.9)]   # copula models, dim 2-3
    for model_specs, p in plan:
        dim = len(model_specs)
        margins = [build_model(sp) for sp in model_specs]
        model = margins[0] if dim == 1 else build_copula_model(model_specs, "clayton")
        for ctor in ("uniform", "geometric"):
            h = 0.02
            args = {"models": model_specs, "h": h, "truncation_probability": p, "ctor": ctor}
            try:
                with warnings.catch_warnings():
                    warnings.simplefilter("ignore")
                    g = (CTMCUniformGrid(h=h, model=model, truncation_probability=p) if ctor == "uniform"
                         else CTMCGridGeometric(h=h, model=model, nb_of_points_on_each_side=4, truncation_probability=p))
            except Exception as e:  # noqa
                note_exception(res, "tailprob_outcome", e, ctor, args)
                continue
            res.count(("tailprob", ctor, dim, p, json.dumps(model_specs, sort_keys=True)), kind=f"tail probability {ctor} dim={dim}")
            res.bump("tail_probability_requested", p)
            why = grid_reason(g)
            if why:
                viol(f"{ctor} grid with a non-default truncation probability is malformed: " + why.split(":")[-1].strip()[:60],
                     kind="tailprob", reason=why, **args)
                continue
            # l = min over the margins' left bounds, r = max over the right bounds: the margin attaining the bound keeps exactly p
            l, r = g.truncations[0]
            lefts, rights = [], []
            for m in margins:
                nu = m.levy_triplet.nu
                with np.errstate(all="ignore"):
                    rights.append(nu.integrate(h / 2, r) / nu.integrate(h / 2, np.inf))
                    lefts.append(nu.integrate(l, -h / 2) / nu.integrate(-np.inf, -h / 2))
            tol = max(1e-9, 0.02 * (1 - p))
            got_l, got_r = min(lefts), min(rights)
            if not (abs(got_l - p) <= tol and abs(got_r - p) <= tol):
                viol("the grid's end points do not carry the REQUESTED truncation probability", kind="tailprob",
                     left=float(got_l), right=float(got_r), requested=p, **args)


def _oracle_constructors(res, rng, scale, viol):
    from rpylib.grid.spatial import (CTMCUniformGrid, CTMCGridGeometric, CTMCGridProbabilityStep, CTMCCredit, compute_truncation)
    from stepmeasure import real_model_specs, build_model, build_copula_model, random_step_measure, step_spec, StepModel
    for rep in range(scale):
        specs = real_model_specs(rng)
        for _ in range(3):
            nu = random_step_measure(rng, Fr(-rng.randrange(2, 6)), Fr(rng.randrange(2, 6)), zero_prob=0.0)
            nu.strict = False
            specs.append(step_spec(nu))
        # truncation bounds between h and 2h on one side: int(r/h) = 1 resp. int(|l|/h) = 1 (F-C13-5 / F-C13-1)
        from stepmeasure import StepMeasure
        specs.append(dict(step_spec(StepMeasure([Fr(-2), Fr(0), Fr(2, 5)], [Fr(3), Fr(3)], strict=False)), hs=[0.25, 0.125]))
        specs.append(dict(step_spec(StepMeasure([Fr(-2, 5), Fr(0), Fr(2)], [Fr(3), Fr(3)], strict=False)), hs=[0.25, 0.125]))
        for spec in specs:
            fam = spec["family"]
            try:
                model = build_model(spec)
            except Exception as e:  # noqa
                res.notes.append(f"model family {fam} could not be built: {type(e).__name__}: {e}")
                continue
            hs = [0.02, 0.05, 0.1] if fam != "STEP" else [0.25, 0.5, 1.0]
            hs.append(rng.choice([0.3, 0.6, 1.2, 2.5]))          # large h relative to the truncation
            hs = spec.pop("hs", hs)
            for h in hs:
                args = {"model": spec, "h": h}
                # uniform (also a tolerance correspondence case: linspace is modelled as its mathematical sequence)
                try:
                    lr = compute_truncation(model, h)
                except Exception:  # noqa
                    lr = None
                if lr is not None and all(abs(v / h - round(v / h)) > 1e-9 for v in lr) and lr[0] < 0 < lr[1]:
                    try:
                        gu = CTMCUniformGrid(h=h, model=model)
                        exp = (gu.axes[0].tolist(), origin_indices(gu)[0]) if len(gu.axes[0]) <= 400 else "skip"
                    except ValueError as e:
                        exp = None if is_guard(e) else "skip"
                    if exp != "skip":
                        UNIFORM_CASES.append(f"({qlit(lr[0])}, {qlit(h)}, {qlit(lr[1])}, "
                                             f"{opt(exp, lambda e: '(' + lst([qlit(x) for x in e[0]]) + ', ' + natlit(e[1]) + ')')})")
                try:
                    g = CTMCUniformGrid(h=h, model=model)
                    res.count(("uniform", fam, h, rep), kind="CTMCUniformGrid")
                    res.bump("uniform_outcome", "grid")
                    _tail_monitor(res, viol, model, g, "CTMCUniformGrid", args, finding="F-C13-5")
                    _check_grid_and_refine(res, viol, g, "CTMCUniformGrid", args, finding="F-C13-1")
                except Exception as e:  # noqa
                    res.count(("uniform", fam, h, rep), nontrivial=False, kind="CTMCUniformGrid")
                    note_exception(res, "uniform_outcome", e, "CTMCUniformGrid", args)
                # geometric
                for nb in (2, 3, rng.randrange(4, 12)):
                    try:
                        g = CTMCGridGeometric(h=h, model=model, nb_of_points_on_each_side=nb)
                        res.count(("geometric", fam, h, nb, rep), kind="CTMCGridGeometric")
                        if nb == 3:
                            _tail_monitor(res, viol, model, g, "CTMCGridGeometric", dict(args, nb=nb))
                        _check_grid_and_refine(res, viol, g, "CTMCGridGeometric", dict(args, nb=nb), finding="F-C13-4")
                    except Exception as e:  # noqa
                        note_exception(res, "geometric_outcome", e, "CTMCGridGeometric", dict(args, nb=nb))
                # credit through the real root search
                try:
                    l, r = compute_truncation(model, h)
                    a = float(rng.uniform(l * 0.9, -1.5 * h))
                    g = CTMCCredit(h=h, level_a=a, model=model)
                    res.count(("credit-real", fam, h, rep), kind="CTMCCredit(real truncation)")
                    _tail_monitor(res, viol, model, g, "CTMCCredit", dict(args, level_a=a))
                    _check_grid_and_refine(res, viol, g, "CTMCCredit", dict(args, level_a=a), finding="F-C13-3")
                except Exception as e:  # noqa
                    note_exception(res, "credit_real_outcome", e, "CTMCCredit", args)
            # with bounds (no model)
            for _ in range(2):
                h = rng.choice([0.01, 0.1, 0.25])
                l, r = -rng.uniform(2 * h, 3.0), rng.uniform(2 * h, 3.0)
                nb = rng.randrange(2, 10)
                dim = rng.choice([1, 2, 3])
                g = CTMCGridGeometric.create_with_bounds(h=h, truncations=(l, r), dimension=dim, nb_of_points_on_each_side=nb)
                res.count(("bounds", h, l, r, nb, dim), kind="create_with_bounds")
                _check_grid_and_refine(res, viol, g, "CTMCGridGeometric.create_with_bounds", {"h": h, "truncations": [l, r], "dim": dim, "nb": nb}, finding="F-C13-4")
            # probability step (slow root searches: few cases); the grid's own middle is +-h/2 next to the origin and a
            # root-found equal-probability point elsewhere: inserted states must be the OLD grid's cell boundaries
            if fam in ("HEM", "MERTON", "VG") and rep == 0:
                for h, pstep in ((0.05, 0.1), (0.02, 0.2)):
                    try:
                        g = CTMCGridProbabilityStep(h=h, model=model, minimum_probability_step=pstep)
                        res.count(("probstep", fam, h), kind="CTMCGridProbabilityStep")
                        _probstep_monitor(res, viol, model, g, pstep, {"model": spec, "h": h, "p": pstep})
                        _check_grid_and_refine(res, viol, g, "CTMCGridProbabilityStep", {"model": spec, "h": h, "p": pstep},
                                               n_refine=2 if h == 0.05 else 1, exact_mid=False)
                    except Exception as e:  # noqa
                        res.bump("probstep_outcome", type(e).__name__)
                        res.notes.append(f"CTMCGridProbabilityStep({fam}) raised {type(e).__name__}: {str(e)[:120]}")
        # copula models: shared axes for every margin
        sp = real_model_specs(rng)
        cm = build_copula_model([sp[0], sp[1]], "clayton")
        for h in (0.05, 0.1):
            try:
                g = CTMCUniformGrid(h=h, model=cm)
                res.count(("uniform-2d", h, rep), kind="CTMCUniformGrid 2d")
                _check_grid_and_refine(res, viol, g, "CTMCUniformGrid(copula)", {"h": h, "models": [sp[0], sp[1]]}, n_refine=1)
                l, r = compute_truncation(cm, h)
                g = CTMCCredit(h=h, level_a=[float(rng.uniform(l * 0.8, -2 * h)), float(rng.uniform(l * 0.8, -2 * h))], model=cm,
                               symmetric_grid=rng.random() < 0.5)
                res.count(("credit-2d", h, rep), kind="CTMCCredit 2d (real truncation)")
                _check_grid_and_refine(res, viol, g, "CTMCCredit(copula)", {"h": h, "models": [sp[0], sp[1]]}, n_refine=1, finding="F-C13-3")
            except ValueError as e:
                note_exception(res, "copula_ctor_outcome", e, "CTMCUniformGrid/CTMCCredit(copula)", {"h": h})
        # CTMCCredit in dimension 2 and 3 with well separated thresholds, real truncation search
        for levels, h in (([-0.05, -0.2], 0.02), ([-0.2, -0.05, -0.1], 0.02), ([-0.3, -0.08], 0.01)):
            for sym in (True, False):
                cmN = build_copula_model([sp[k % len(sp)] for k in range(len(levels))], "clayton")
                try:
                    g = CTMCCredit(h=h, level_a=list(levels), model=cmN, symmetric_grid=sym)
                except ValueError as e:
                    note_exception(res, "copula_ctor_outcome", e, "CTMCCredit(copula)", {"h": h, "levels": levels})
                    continue
                res.count(("credit-nd", tuple(levels), h, sym, rep), kind=f"CTMCCredit {len(levels)}d (real truncation)")
                for k, a in enumerate(levels):
                    if abs(0.5 * (g.axes[k][1] + g.axes[k][2]) - a) > 1e-15:
                        viol("CTMCCredit: the cell boundary between the two threshold states is not the threshold", kind="ctor",
                             ctor="CTMCCredit(copula)", args={"h": h, "levels": levels, "sym": sym})
                _check_grid_and_refine(res, viol, g, "CTMCCredit(copula)", {"h": h, "levels": levels, "sym": sym}, n_refine=2, finding="F-C13-3")


def search(res):
    rng = random.Random(res.seed + 1)

    def viol(what, **kw):
        res.violation(what, dict(kw))
    _oracle_constructors(res, rng, 4 if res.tier == "quick" else 12, viol)


def replay(path):
    data = json.load(open(path))
    print(json.dumps(data, indent=1)[:4000])
    from rpylib.grid.spatial import CTMCGrid, CTMCUniformGrid, CTMCGridGeometric, CTMCCredit
    from stepmeasure import build_model
    k = data.get("kind")
    try:
        if k == "fixed":
            g = build_fixed(data["h"], data["nb"], data["dim"])
        elif k == "credit":
            g = build_credit(data["l"], data["r"], data["h"], data["levels"], data["sym"])
        elif k == "refine":
            arr = np.array(data["axis"], dtype=float)
            axes = [arr] * data["dim"] if data["shared"] else [arr.copy() for _ in range(data["dim"])]
            g = CTMCGrid(h=data["h"], origin_coordinate=data["o"], axes=axes)
            for n in range(data["n"]):
                before = snapshot(g)
                g.refine()
                why = nesting_reason(before, g) or grid_reason(g)
                if why:
                    print("still fails:", why)
                    return 1
            print("no failure on replay")
            return 0
        elif k == "tailprob":
            out = []
            from stepmeasure import build_copula_model
            ms = data["models"]
            margins = [build_model(sp) for sp in ms]
            model = margins[0] if len(ms) == 1 else build_copula_model(ms, "clayton")
            p, h = data["truncation_probability"], data["h"]
            g = (CTMCUniformGrid(h=h, model=model, truncation_probability=p) if data["ctor"] == "uniform"
                 else CTMCGridGeometric(h=h, model=model, nb_of_points_on_each_side=4, truncation_probability=p))
            l, r = g.truncations[0]
            lefts = [m.levy_triplet.nu.integrate(l, -h / 2) / m.levy_triplet.nu.integrate(-np.inf, -h / 2) for m in margins]
            rights = [m.levy_triplet.nu.integrate(h / 2, r) / m.levy_triplet.nu.integrate(h / 2, np.inf) for m in margins]
            print("requested", p, "achieved left", min(lefts), "right", min(rights))
            bad = abs(min(lefts) - p) > max(1e-9, 0.02 * (1 - p)) or abs(min(rights) - p) > max(1e-9, 0.02 * (1 - p))
            print("still fails" if bad else "no failure on replay")
            return 1 if bad else 0
        elif k == "ctor":
            a = data["args"]
            model = build_model(a["model"]) if "model" in a else None
            if data["ctor"] == "CTMCUniformGrid":
                g = CTMCUniformGrid(h=a["h"], model=model)
            elif data["ctor"] == "CTMCGridGeometric":
                g = CTMCGridGeometric(h=a["h"], model=model, nb_of_points_on_each_side=a["nb"])
            elif data["ctor"] == "CTMCCredit":
                g = CTMCCredit(h=a["h"], level_a=a["level_a"], model=model)
            elif data["ctor"] == "CTMCGridGeometric.create_with_bounds":
                g = CTMCGridGeometric.create_with_bounds(h=a["h"], truncations=tuple(a["truncations"]), dimension=a["dim"],
                                                         nb_of_points_on_each_side=a["nb"])
            else:
                print("replay: re-run ./check C13 for this constructor")
                return 1
        else:
            print("replay: unknown kind; re-run ./check C13")
            return 1
    except ValueError as e:
        print("constructor now raises ValueError:", e)
        return 0
    why = grid_reason(g)
    print("axes:", [a.tolist() for a in g.axes], "origin:", origin_indices(g), "h:", g.h)
    if why:
        print("still fails:", why)
        return 1
    for n in range(2):
        before = snapshot(g)
        g.refine()
        why = nesting_reason(before, g, exact_mid=(data.get("ctor") != "CTMCGridProbabilityStep")) or grid_reason(g)
        if why:
            print("still fails after refine:", why)
            return 1
    print("no failure on replay")
    return 0
